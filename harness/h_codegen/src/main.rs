//! C11 correspondence harness (translation-validation style).
//!  gen.tokens   tonic_build::manual descriptors -> CodeGenBuilder::generate_client / generate_server
//!               (the real generators) -> token streams -> syn -> extraction
//!  gen.manual   the same through tonic_build::manual::Builder::compile (files, prettyplease)
//!  gen.prost    prost_types::FileDescriptorSet -> tonic_build::configure()..compile_fds (prost-build
//!               drives tonic-build's ServiceGenerator) -> files -> syn -> extraction
//!  committed.*  the same extraction on the generated sources committed in /repo, against the
//!               services read from their .proto files
//!  regen.*      /repo/codegen/src/main.rs's own `codegen` function (included verbatim), with the
//!               argument table parsed from its `main`, run into a scratch directory; every file
//!               byte-compared with the committed one
//!  e2e          the generated clients of the h_router fixture called through real Routes carrying
//!               the generated servers: which handler runs
//!  gen.protos.* the same through compile_protos (protoc / skip_protoc_run) and tonic_build::compile_protos
//! Model: Model/Codegen.v.  Oracle (model independent): client path == server arm literal, shapes
//! equal in all places they are written, message types equal, NAME == path prefix (cross_check);
//! path / shape / name as the service definition says (spec_check).
mod extract;
use extract::*;
use serde_json::{json, Value};
use std::path::{Path, PathBuf};
use tonic_build::manual;
use vcommon::body::spin;
use vcommon::*;

const IMPORTS: &str = "From Verif Require Import Lib.Bytes Lib.Obs Model.Router Model.Codegen.";

/// /repo/codegen/src/main.rs, verbatim; `run` gives access to its private `codegen` function
#[allow(dead_code, unused_imports)]
mod bootstrap {
    include!("/repo/codegen/src/main.rs");
    pub fn run(
        root_dir: &Path,
        iface_files: &[&str],
        include_dirs: &[&str],
        out_dir: &Path,
        file_descriptor_set_path: &Path,
        build_client: bool,
        build_server: bool,
    ) {
        codegen(root_dir, iface_files, include_dirs, out_dir, file_descriptor_set_path, build_client, build_server)
    }
}

// ------------------------------------------------------------------ descriptors
/// tonic_build::manual::Method, as given to its builder
#[derive(Clone, Debug)]
struct MDesc {
    name: String,  // rust fn name
    route: String, // identifier
    cs: bool,
    ss: bool,
    input: String,
    output: String,
    codec: String,
}
/// tonic_build::manual::Service (identifier() is the name)
#[derive(Clone, Debug)]
struct SDesc {
    name: String,
    package: String,
    methods: Vec<MDesc>,
}
#[derive(Clone, Debug)]
struct Opts {
    emit_package: bool,
    use_arc_self: bool,
    default_stubs: bool,
    build_client: bool,
    build_server: bool,
    build_transport: bool,
    // prost::Builder only
    cwkt: bool,
    proto_path: String,
}
impl Opts {
    fn plain(bc: bool, bs: bool) -> Opts {
        Opts { emit_package: true, use_arc_self: false, default_stubs: false, build_client: bc, build_server: bs, build_transport: true, cwkt: false, proto_path: "super".into() }
    }
}
fn cs(s: &str) -> String {
    coq_bytes(s.as_bytes())
}
fn is_path(t: &str) -> bool {
    syn::parse_str::<syn::Path>(t).is_ok()
}
impl SDesc {
    fn coq(&self) -> String {
        format!(
            "(mkMS {} {} {})",
            cs(&self.name),
            cs(&self.package),
            coq_list(&self.methods, |m| format!(
                "(mkMM {} {} {} {} {} {} {} {} {})",
                cs(&m.name),
                cs(&m.route),
                cs(&m.input),
                cs(&m.output),
                coq_bool(m.cs),
                coq_bool(m.ss),
                // syn's verdicts are inputs of the model (external library)
                coq_bool(is_path(&m.input)),
                coq_bool(is_path(&m.output)),
                coq_bool(is_path(&m.codec))
            ))
        )
    }
    fn json(&self) -> Value {
        json!({"name": self.name, "package": self.package,
               "methods": self.methods.iter().map(|m| json!({"name": m.name, "route": m.route, "client_streaming": m.cs, "server_streaming": m.ss, "input": m.input, "output": m.output, "codec_path": m.codec})).collect::<Vec<_>>()})
    }
    fn manual(&self) -> manual::Service {
        let mut b = manual::Service::builder().name(&self.name).package(&self.package);
        for m in &self.methods {
            let mut mb = manual::Method::builder().name(&m.name).route_name(&m.route).input_type(&m.input).output_type(&m.output).codec_path(&m.codec);
            if m.cs {
                mb = mb.client_streaming();
            }
            if m.ss {
                mb = mb.server_streaming();
            }
            b = b.method(mb.build());
        }
        b.build()
    }
    fn spec(&self) -> Spec {
        Spec { package: self.package.clone(), ident: self.name.clone(), methods: self.methods.iter().map(|m| (m.route.clone(), m.cs, m.ss)).collect() }
    }
    /// every name is a usable Rust identifier and every type a path: inside this class a generator
    /// panic or unparsable output is a violation; outside it the oracle does not judge the outcome
    fn well_formed(&self) -> bool {
        usable_ident(&self.name)
            && self.methods.iter().all(|m| usable_ident(&m.name) && plain_ident(&m.route) && is_path(&m.input) && is_path(&m.output) && is_path(&m.codec))
    }
}
impl Opts {
    fn cgb(&self) -> String {
        format!("(mkCGB {} {} {} {})", coq_bool(self.emit_package), coq_bool(self.cwkt), coq_bool(self.use_arc_self), coq_bool(self.default_stubs))
    }
    fn mb(&self) -> String {
        format!("(mkMB {} {})", coq_bool(self.build_client), coq_bool(self.build_server))
    }
    fn pb(&self) -> String {
        format!(
            "(mkPB {} {} {} {} {} {} {})",
            coq_bool(self.build_client),
            coq_bool(self.build_server),
            cs(&self.proto_path),
            coq_bool(self.emit_package),
            coq_bool(self.cwkt),
            coq_bool(self.use_arc_self),
            coq_bool(self.default_stubs)
        )
    }
    fn json(&self) -> Value {
        json!({"emit_package": self.emit_package, "use_arc_self": self.use_arc_self, "generate_default_stubs": self.default_stubs,
               "build_client": self.build_client, "build_server": self.build_server, "build_transport": self.build_transport,
               "compile_well_known_types": self.cwkt, "proto_path": self.proto_path})
    }
}

// the harness's own judgement of names (independent of the model and of tonic-build)
const RUST_KEYWORDS: &[&str] = &[
    "_", "abstract", "as", "async", "await", "become", "box", "break", "const", "continue", "crate", "do", "dyn", "else", "enum", "extern", "false", "final",
    "fn", "for", "if", "impl", "in", "let", "loop", "macro", "match", "mod", "move", "mut", "override", "priv", "pub", "ref", "return", "Self", "self", "static",
    "struct", "super", "trait", "true", "try", "type", "typeof", "unsafe", "unsized", "use", "virtual", "where", "while", "yield",
];
fn plain_ident(s: &str) -> bool {
    let mut it = s.chars();
    match it.next() {
        Some(c) if c == '_' || c.is_ascii_alphabetic() => it.all(|c| c == '_' || c.is_ascii_alphanumeric()),
        _ => false,
    }
}
/// usable as the name of a Rust item: an identifier that is not a keyword, or a legal raw identifier
fn usable_ident(s: &str) -> bool {
    match s.strip_prefix("r#") {
        Some(r) => plain_ident(r) && !["_", "super", "self", "Self", "crate"].contains(&r),
        None => plain_ident(s) && !RUST_KEYWORDS.contains(&s),
    }
}

/// what the service definition says, for the direct check
#[derive(Clone, Debug)]
struct Spec {
    package: String,
    ident: String,
    methods: Vec<(String, bool, bool)>, // (proto method name, client_streaming, server_streaming)
}

// ------------------------------------------------------------------ observables and the oracle
fn one(v: &[String]) -> String {
    if v.len() == 1 {
        v[0].clone()
    } else {
        format!("<{} found>", v.len())
    }
}
fn one_bool(v: &[bool]) -> Tr {
    if v.len() == 1 {
        Tr::bool(v[0])
    } else {
        Tr::n(9u8)
    }
}
fn resp_tr(r: &Resp) -> Tr {
    match r {
        Resp::Plain(t) => Tr::L(vec![Tr::n(0u8), Tr::s(t)]),
        Resp::Assoc(x) => Tr::L(vec![Tr::n(1u8), Tr::s(x)]),
        Resp::Boxed(t) => Tr::L(vec![Tr::n(2u8), Tr::s(t)]),
    }
}
fn client_tr(c: &ClientMod) -> Tr {
    Tr::L(vec![
        Tr::s(&c.mod_name),
        Tr::s(&one(&c.structs)),
        Tr::L(
            c.fns
                .iter()
                .map(|f| {
                    let gm = if f.grpc_methods.len() == 1 { f.grpc_methods[0].clone() } else { ("<?>".into(), "<?>".into()) };
                    Tr::L(vec![
                        Tr::s(&f.fn_name),
                        Tr::bool(f.req_streaming),
                        Tr::s(&f.req),
                        Tr::bool(f.resp_streaming),
                        Tr::s(&f.resp),
                        Tr::s(&one(&f.paths)),
                        Tr::s(&gm.0),
                        Tr::s(&gm.1),
                        Tr::n(shape_code(&one(&f.calls))),
                    ])
                })
                .collect(),
        ),
    ])
}
fn server_tr(s: &ServerMod) -> Tr {
    Tr::L(vec![
        Tr::s(&s.mod_name),
        Tr::s(&one(&s.traits)),
        Tr::s(&one(&s.structs)),
        Tr::L(
            s.trait_fns
                .iter()
                .map(|t| {
                    Tr::L(vec![
                        Tr::opt(t.assoc.as_ref().map(|(x, item)| Tr::L(vec![Tr::s(x), Tr::s(item)]))),
                        Tr::s(&t.name),
                        match t.arc_self {
                            Some(b) => Tr::bool(b),
                            None => Tr::n(9u8),
                        },
                        Tr::bool(t.req_streaming),
                        Tr::s(&t.req),
                        resp_tr(&t.resp_ty),
                        Tr::bool(t.default_body),
                    ])
                })
                .collect(),
        ),
        Tr::L(
            s.arms
                .iter()
                .map(|a| {
                    Tr::L(vec![
                        Tr::s(&a.literal),
                        Tr::n(shape_code(&one(&a.kinds))),
                        Tr::s(&a.req),
                        Tr::s(&a.resp),
                        Tr::opt(a.response_stream.as_ref().map(resp_tr)),
                        one_bool(&a.call_req_streaming),
                        Tr::s(&one(&a.traits)),
                        Tr::s(&one(&a.fn_names)),
                        one_bool(&a.inner_by_value),
                        Tr::n(shape_code(&one(&a.grpc_calls))),
                    ])
                })
                .collect(),
        ),
        Tr::s(s.service_name.as_deref().unwrap_or("<no SERVICE_NAME>")),
        Tr::s(s.named_value.as_deref().unwrap_or("<NAME is not a string>")),
    ])
}
fn gen_tr(c: Option<&ClientMod>, s: Option<&ServerMod>) -> Tr {
    Tr::L(vec![Tr::opt(c.map(client_tr)), Tr::opt(s.map(server_tr))])
}
/// the property, read off the generated code alone: client against server
fn cross_check(c: Option<&ClientMod>, s: Option<&ServerMod>, unique_routes: bool) -> Option<String> {
    if let Some(c) = c {
        for f in &c.fns {
            if f.paths.len() != 1 || f.calls.len() != 1 || f.grpc_methods.len() != 1 {
                return Some(format!("client fn {}: {} path literals, {} Grpc calls, {} GrpcMethod", f.fn_name, f.paths.len(), f.calls.len(), f.grpc_methods.len()));
            }
            if f.calls[0] != f.sig_shape {
                return Some(format!("client fn {}: signature is {} but calls self.inner.{}", f.fn_name, f.sig_shape, f.calls[0]));
            }
            let (gs, gm) = &f.grpc_methods[0];
            if format!("/{}/{}", gs, gm) != f.paths[0] {
                return Some(format!("client fn {}: GrpcMethod({:?},{:?}) does not spell the path {:?}", f.fn_name, gs, gm, f.paths[0]));
            }
        }
    }
    if let Some(s) = s {
        let Some(name) = &s.service_name else { return Some("server without SERVICE_NAME".into()) };
        // NamedService::NAME, whichever way it is written, must evaluate to SERVICE_NAME's string
        if s.named_value.as_ref() != Some(name) {
            return Some(format!("NamedService::NAME is {:?}, SERVICE_NAME is {:?}", s.named_value, name));
        }
        if s.default_arms != 1 || !s.default_unimplemented || s.non_literal_arms != 0 {
            return Some(format!("server match: {} default arms (UNIMPLEMENTED: {}), {} non-literal arms", s.default_arms, s.default_unimplemented, s.non_literal_arms));
        }
        if s.trait_fns.len() != s.arms.len() {
            return Some(format!("{} trait methods but {} match arms", s.trait_fns.len(), s.arms.len()));
        }
        if s.traits.len() != 1 {
            return Some(format!("{} traits in the server module", s.traits.len()));
        }
        for (i, a) in s.arms.iter().enumerate() {
            if a.kinds.len() != 1 || a.grpc_calls.len() != 1 || a.fn_names.len() != 1 || a.traits.len() != 1 || a.inner_by_value.len() != 1 || a.call_req_streaming.len() != 1 {
                return Some(format!(
                    "arm {:?}: {} service impls, {} grpc calls, {} handler calls ({} trait paths, {} recognisable receivers), {} `fn call`",
                    a.literal, a.kinds.len(), a.grpc_calls.len(), a.fn_names.len(), a.traits.len(), a.inner_by_value.len(), a.call_req_streaming.len()
                ));
            }
            if a.kinds[0] != a.grpc_calls[0] {
                return Some(format!("arm {:?}: implements {} service but calls grpc.{}", a.literal, a.kinds[0], a.grpc_calls[0]));
            }
            let (kcs, kss) = (a.kinds[0] == "client_streaming" || a.kinds[0] == "streaming", a.kinds[0] == "server_streaming" || a.kinds[0] == "streaming");
            if a.call_req_streaming[0] != kcs {
                return Some(format!("arm {:?}: {} service whose `call` takes a {} request", a.literal, a.kinds[0], if a.call_req_streaming[0] { "streaming" } else { "single" }));
            }
            if a.response_stream.is_some() != kss {
                return Some(format!("arm {:?}: {} service {} a ResponseStream type", a.literal, a.kinds[0], if kss { "without" } else { "with" }));
            }
            if !a.literal.starts_with(&format!("/{}/", name)) {
                return Some(format!("arm {:?} does not start with /{}/ (SERVICE_NAME)", a.literal, name));
            }
            let t = &s.trait_fns[i];
            if t.name != a.fn_names[0] || t.shape != a.grpc_calls[0] || t.req != a.req || (!t.resp.is_empty() && t.resp != a.resp) {
                return Some(format!("arm {:?} ({} {} -> {}) does not fit trait method {:?}", a.literal, a.grpc_calls[0], a.req, a.resp, t));
            }
            if a.traits[0] != s.traits[0] {
                return Some(format!("arm {:?} calls <T as {}>::{} but the module's trait is {}", a.literal, a.traits[0], a.fn_names[0], s.traits[0]));
            }
            if t.arc_self != Some(a.inner_by_value[0]) {
                return Some(format!("arm {:?} passes {} but trait method {} takes {:?} (Some(true) = Arc<Self>)", a.literal, if a.inner_by_value[0] { "inner" } else { "&inner" }, t.name, t.arc_self));
            }
            // the handler's response type is the arm's Response / ResponseStream
            let fits = match (&t.resp_ty, &a.response_stream) {
                (Resp::Plain(r), None) => r == &a.resp,
                (Resp::Assoc(x), Some(Resp::Assoc(y))) => x == y && t.assoc.as_ref() == Some(&(x.clone(), a.resp.clone())),
                (Resp::Boxed(r), Some(Resp::Boxed(r2))) => r == r2 && r == &a.resp,
                _ => false,
            };
            if !fits {
                return Some(format!("arm {:?}: Response {} / ResponseStream {:?} does not fit the handler's return type {:?} (declared stream type {:?})", a.literal, a.resp, a.response_stream, t.resp_ty, t.assoc));
            }
            if unique_routes && s.arms[..i].iter().any(|b| b.literal == a.literal) {
                return Some(format!("arm {:?} is shadowed by an earlier identical arm", a.literal));
            }
        }
    }
    if let (Some(c), Some(s)) = (c, s) {
        if c.fns.len() != s.arms.len() {
            return Some(format!("{} client methods but {} server arms", c.fns.len(), s.arms.len()));
        }
        for (f, a) in c.fns.iter().zip(&s.arms) {
            if f.paths[0] != a.literal {
                return Some(format!("client {} sends {:?} but the server dispatches on {:?}", f.fn_name, f.paths[0], a.literal));
            }
            if f.calls[0] != a.grpc_calls[0] {
                return Some(format!("{:?}: client is {} but server is {}", a.literal, f.calls[0], a.grpc_calls[0]));
            }
            if f.req != a.req || f.resp != a.resp {
                return Some(format!("{:?}: client types ({} -> {}) differ from server types ({} -> {})", a.literal, f.req, f.resp, a.req, a.resp));
            }
            if f.fn_name != a.fn_names[0] {
                return Some(format!("{:?}: client fn {} vs trait fn {}", a.literal, f.fn_name, a.fn_names[0]));
            }
            if Some(&f.grpc_methods[0].0) != s.service_name.as_ref() {
                return Some(format!("{:?}: GrpcMethod service {:?} is not SERVICE_NAME {:?}", a.literal, f.grpc_methods[0].0, s.service_name));
            }
        }
    }
    None
}
/// the property, read off the generated code against the service definition: every call goes to
/// /package.Service/Method with the definition's streaming shape, the advertised name is the prefix
fn spec_check(sp: &Spec, emit_package: bool, c: Option<&ClientMod>, s: Option<&ServerMod>) -> Option<String> {
    let want_name = if emit_package && !sp.package.is_empty() { format!("{}.{}", sp.package, sp.ident) } else { sp.ident.clone() };
    if let Some(c) = c {
        if c.fns.len() != sp.methods.len() {
            return Some(format!("{} client methods, the definition has {}", c.fns.len(), sp.methods.len()));
        }
        for (f, (route, mcs, mss)) in c.fns.iter().zip(&sp.methods) {
            let want = format!("/{}/{}", want_name, route);
            if f.paths.first() != Some(&want) {
                return Some(format!("client {} sends {:?}, the definition says {:?}", f.fn_name, f.paths, want));
            }
            let shape = shape_of(*mcs, *mss);
            if f.calls.first().map(|x| x.as_str()) != Some(shape) || f.sig_shape != shape {
                return Some(format!("client {} is {:?} / signature {}, the definition says {}", f.fn_name, f.calls, f.sig_shape, shape));
            }
            if f.grpc_methods.first() != Some(&(want_name.clone(), route.clone())) {
                return Some(format!("client {}: GrpcMethod {:?}, the definition says ({:?}, {:?})", f.fn_name, f.grpc_methods, want_name, route));
            }
        }
    }
    if let Some(s) = s {
        if s.service_name.as_ref() != Some(&want_name) || s.named_value.as_ref() != Some(&want_name) {
            return Some(format!("SERVICE_NAME {:?} / NamedService::NAME {:?}, the definition says {:?}", s.service_name, s.named_value, want_name));
        }
        if s.arms.len() != sp.methods.len() || s.trait_fns.len() != sp.methods.len() {
            return Some(format!("{} arms and {} trait methods, the definition has {} methods", s.arms.len(), s.trait_fns.len(), sp.methods.len()));
        }
        for (i, (route, mcs, mss)) in sp.methods.iter().enumerate() {
            let a = &s.arms[i];
            let t = &s.trait_fns[i];
            let want = format!("/{}/{}", want_name, route);
            let shape = shape_of(*mcs, *mss);
            if a.literal != want {
                return Some(format!("arm {:?}, the definition says {:?}", a.literal, want));
            }
            if a.kinds.first().map(|x| x.as_str()) != Some(shape) || a.grpc_calls.first().map(|x| x.as_str()) != Some(shape) || t.shape != shape {
                return Some(format!("arm {:?}: {:?} service, grpc.{:?}, handler signature {}; the definition says {}", a.literal, a.kinds, a.grpc_calls, t.shape, shape));
            }
        }
    }
    None
}

// ------------------------------------------------------------------ generators of descriptors
const PACKAGES: &[&str] = &["", "pkg", "a.b.c", "my_pkg.v1", "grpc.health.v1", "x", "pkg.Svc", "P", "a1.b2", "foo_bar", "google.rpc", "r#type"];
const SVC_NAMES: &[&str] = &["Svc", "SvcX", "svc", "my_service", "Svc2", "S", "HTTPServer", "Health", "A_B", "a1", "ServerReflection", "Type", "XMLHttpAPI", "r#type", "_Svc"];
const FN_NAMES: &[&str] = &[
    "get", "get_x", "r#type", "r#match", "r#async", "r#fn", "r#move", "list", "get2", "get_2", "g", "GET", "server_reflection_info", "check",
    "self_", "super_", "r#struct", "r#await", "r#dyn", "r#try", "say_hello", "watch", "_x", "r#gen",
];
const ROUTES: &[&str] = &[
    "Get", "GetX", "Ge", "get", "GET", "type", "match", "async", "fn", "Move", "List", "Get2", "get_2", "g", "ServerReflectionInfo", "Check",
    "self", "Self", "Super", "struct", "await", "dyn", "try", "SayHello", "Watch", "get_x", "Get_X", "G3t", "_", "crate", "r#type",
];
// type strings as a user writes them (white space is not significant)
const TYPES: &[&str] = &[
    "crate::In", "crate::Out", "super::Out", "Msg", "crate::a::B", "::prost::alloc::string::String", "Vec<u8>", "super::super::In", "crate::r#type::In",
    "crate :: In", "Vec < u8 >", " super::Out ", "std::collections::HashMap<String, Vec<u8>>",
];
// ---- the malformed stream: names that are not identifiers, bare keywords, types that are not paths
const BAD_NAMES: &[&str] = &["", "1abc", "123", "get-x", "a b", "get.x", "r#", "r#self", "r#_", "r#crate", "r#Self", "r#super", "r#1", "a/b#"];
const KEYWORD_NAMES: &[&str] = &["type", "self", "Self", "_", "match", "fn", "async", "try", "crate", "super", "yield", "dyn", "union", "auto", "default", "gen", "raw"];
const BAD_TYPES: &[&str] = &["", "()", "Vec<", "a b", "&str", "[u8]", "crate::", "fn()"];

fn gen_sdesc(r: &mut Rng, malformed: bool) -> SDesc {
    let n = match r.below(10) {
        0 => 0,
        1..=3 => 1,
        4..=7 => r.range(2, 4),
        _ => r.range(5, 9),
    };
    let mut methods: Vec<MDesc> = vec![];
    for _ in 0..n {
        let mut name = r.pick(FN_NAMES).to_string();
        let mut route = r.pick(ROUTES).to_string();
        let mut input = r.pick(TYPES).to_string();
        let mut output = r.pick(TYPES).to_string();
        let mut codec = "crate::Codec".to_string();
        if malformed && r.chance(1, 3) {
            match r.below(6) {
                0 => name = r.pick(BAD_NAMES).to_string(),
                1 => name = r.pick(KEYWORD_NAMES).to_string(),
                2 => route = r.pick(BAD_NAMES).to_string(),
                3 => input = r.pick(BAD_TYPES).to_string(),
                4 => output = r.pick(BAD_TYPES).to_string(),
                _ => codec = r.pick(BAD_TYPES).to_string(),
            }
        }
        if methods.iter().any(|m| m.name == name || m.route == route) {
            continue;
        }
        methods.push(MDesc { name, route, cs: r.chance(1, 2), ss: r.chance(1, 2), input, output, codec });
    }
    let mut name = r.pick(SVC_NAMES).to_string();
    if malformed && r.chance(1, 3) {
        name = if r.chance(1, 2) { r.pick(BAD_NAMES).to_string() } else { r.pick(KEYWORD_NAMES).to_string() };
    }
    SDesc { name, package: r.pick(PACKAGES).to_string(), methods }
}
fn gen_opts(r: &mut Rng, both_bias: bool) -> Opts {
    let (bc, bs) = match r.below(if both_bias { 8 } else { 3 }) {
        0 => (true, false),
        1 => (false, true),
        _ => (true, true),
    };
    Opts {
        emit_package: r.chance(2, 3),
        use_arc_self: r.chance(1, 3),
        default_stubs: r.chance(1, 3),
        build_client: bc,
        build_server: bs,
        build_transport: r.chance(1, 2),
        cwkt: false,
        proto_path: "super".into(),
    }
}

// ------------------------------------------------------------------ .proto level descriptors (prost kinds)
#[derive(Clone, Copy, Debug, PartialEq)]
enum TyRef {
    In,        // message In of the same file
    Out,       // message Out of the same file
    Nested,    // message Outer.Inner of the same file
    Empty,     // google.protobuf.Empty
    Timestamp, // google.protobuf.Timestamp
    Dep,       // message dep.v1.Msg of an imported file
    Ext,       // message dep.v1.Ext, mapped by extern_path
}
const TYREFS: &[TyRef] = &[TyRef::In, TyRef::Out, TyRef::In, TyRef::Out, TyRef::Nested, TyRef::Empty, TyRef::Timestamp, TyRef::Dep, TyRef::Ext];
impl TyRef {
    fn proto(&self) -> &'static str {
        match self {
            TyRef::In => "In",
            TyRef::Out => "Out",
            TyRef::Nested => "Outer.Inner",
            TyRef::Empty => "google.protobuf.Empty",
            TyRef::Timestamp => "google.protobuf.Timestamp",
            TyRef::Dep => "dep.v1.Msg",
            TyRef::Ext => "dep.v1.Ext",
        }
    }
}
#[derive(Clone, Debug)]
struct PMeth {
    route: String,
    cs: bool,
    ss: bool,
    input: TyRef,
    output: TyRef,
}
#[derive(Clone, Debug)]
struct PSvc {
    ident: String,
    methods: Vec<PMeth>,
}
#[derive(Clone, Debug)]
struct PFile {
    package: String,
    services: Vec<PSvc>,
    /// extern_path(".dep.v1.Ext", <this>)
    ext_rust: String,
}
impl PFile {
    fn text(&self) -> String {
        let mut s = String::from("syntax = \"proto3\";\n");
        if !self.package.is_empty() {
            s += &format!("package {};\n", self.package);
        }
        s += "import \"google/protobuf/empty.proto\";\nimport \"google/protobuf/timestamp.proto\";\nimport \"dep.proto\";\n";
        s += "message In {}\nmessage Out {}\nmessage Outer { message Inner {} }\n";
        for sv in &self.services {
            s += &format!("// service {}\nservice {} {{\n", sv.ident, sv.ident);
            for m in &sv.methods {
                s += &format!(
                    "  rpc {} ({}{}) returns ({}{});\n",
                    m.route,
                    if m.cs { "stream " } else { "" },
                    m.input.proto(),
                    if m.ss { "stream " } else { "" },
                    m.output.proto()
                );
            }
            s += "}\n";
        }
        s
    }
    fn json(&self) -> Value {
        json!({"package": self.package, "extern_path": [".dep.v1.Ext", self.ext_rust], "proto": self.text()})
    }
    fn spec(&self, i: usize) -> Spec {
        let sv = &self.services[i];
        Spec { package: self.package.clone(), ident: sv.ident.clone(), methods: sv.methods.iter().map(|m| (m.route.clone(), m.cs, m.ss)).collect() }
    }
    /// writes t.proto and dep.proto into `dir`
    fn write(&self, dir: &Path) -> PathBuf {
        std::fs::write(dir.join("dep.proto"), "syntax = \"proto3\";\npackage dep.v1;\nmessage Msg {}\nmessage Ext {}\n").unwrap();
        let p = dir.join("t.proto");
        std::fs::write(&p, self.text()).unwrap();
        p
    }
}
const PROTO_SVC_NAMES: &[&str] = &["Svc", "SvcX", "svc", "my_service", "Svc2", "S", "HTTPServer", "Health", "A_B", "a1", "ServerReflection", "Type", "XMLHttpAPI", "_Svc", "Self", "self", "echo_service", "Svc_"];
const PROTO_ROUTES: &[&str] = &[
    "Get", "GetX", "Ge", "get", "GET", "type", "match", "async", "fn", "Move", "List", "Get2", "get_2", "g", "ServerReflectionInfo", "Check", "self", "Self", "Super", "struct",
    "await", "dyn", "try", "SayHello", "Watch", "get_x", "Get_X", "G3t", "crate", "HTTPGet", "getHTTP2Stream", "_get",
];
fn gen_pfile(r: &mut Rng) -> PFile {
    let package = loop {
        let p = *r.pick(PACKAGES);
        if !p.contains('#') {
            break p.to_string();
        }
    };
    let n = r.range(1, 3) as usize;
    let mut services: Vec<PSvc> = vec![];
    for _ in 0..n {
        let ident = r.pick(PROTO_SVC_NAMES).to_string();
        let k = match r.below(10) {
            0 => 0,
            1..=3 => 1,
            4..=7 => r.range(2, 4),
            _ => r.range(5, 8),
        };
        let mut methods: Vec<PMeth> = vec![];
        for _ in 0..k {
            let route = r.pick(PROTO_ROUTES).to_string();
            // proto requires distinct method names; prost's snake-casing may still merge two of them
            // into one Rust fn name (get_x / Get_X / GetX) - such code does not compile, but both
            // sides are generated and must agree
            if methods.iter().any(|m| m.route == route) {
                continue;
            }
            methods.push(PMeth { route, cs: r.chance(1, 2), ss: r.chance(1, 2), input: *r.pick(TYREFS), output: *r.pick(TYREFS) });
        }
        if services.iter().all(|x| x.ident != ident) && !["In", "Out", "Outer"].contains(&ident.as_str()) {
            services.push(PSvc { ident, methods });
        }
    }
    PFile { package, services, ext_rust: r.pick(&["::ext_crate::Ext", "crate::ext::Ext", "::ext::v1::Ext"]).to_string() }
}
fn gen_popts(r: &mut Rng) -> Opts {
    let mut o = gen_opts(r, true);
    o.cwkt = r.chance(1, 4);
    o.proto_path = r.pick(&["super", "super", "crate::pb", "super::super", "crate"]).to_string();
    o
}

/// prost_build::Service values exactly as prost-build hands them to a ServiceGenerator (captured
/// with a generator of our own - tonic-build is not involved)
struct Capture(std::sync::Arc<std::sync::Mutex<Vec<prost_build::Service>>>);
impl prost_build::ServiceGenerator for Capture {
    fn generate(&mut self, service: prost_build::Service, _buf: &mut String) {
        self.0.lock().unwrap().push(service);
    }
}
fn capture_services(fds: prost_types::FileDescriptorSet, dir: &Path, cwkt: bool, extern_paths: &[(String, String)]) -> Result<Vec<prost_build::Service>, String> {
    let got = std::sync::Arc::new(std::sync::Mutex::new(vec![]));
    let mut cfg = prost_build::Config::new();
    cfg.out_dir(dir).service_generator(Box::new(Capture(got.clone())));
    if cwkt {
        cfg.compile_well_known_types();
    }
    for (p, rp) in extern_paths {
        cfg.extern_path(p, rp);
    }
    cfg.compile_fds(fds).map_err(|e| e.to_string())?;
    let v = got.lock().unwrap().clone();
    Ok(v)
}
fn prost_service_coq(s: &prost_build::Service) -> String {
    format!(
        "(mkPS {} {} {} {})",
        cs(&s.name),
        cs(&s.proto_name),
        cs(&s.package),
        coq_list(&s.methods, |m| format!(
            "(mkPM {} {} {} {} {} {} {} {})",
            cs(&m.name),
            cs(&m.proto_name),
            cs(&m.input_type),
            cs(&m.output_type),
            cs(&m.input_proto_type),
            cs(&m.output_proto_type),
            coq_bool(m.client_streaming),
            coq_bool(m.server_streaming)
        ))
    )
}
fn prost_service_json(s: &prost_build::Service) -> Value {
    json!({"name": s.name, "proto_name": s.proto_name, "package": s.package,
           "methods": s.methods.iter().map(|m| json!({"name": m.name, "proto_name": m.proto_name, "input_type": m.input_type, "output_type": m.output_type,
               "input_proto_type": m.input_proto_type, "output_proto_type": m.output_proto_type, "client_streaming": m.client_streaming, "server_streaming": m.server_streaming})).collect::<Vec<_>>()})
}
/// all generated client / server modules of the .rs files of a directory (sorted by file name)
fn extract_dir(dir: &Path) -> Result<(Vec<ClientMod>, Vec<ServerMod>, usize), String> {
    let mut files: Vec<PathBuf> = std::fs::read_dir(dir).map_err(|e| e.to_string())?.map(|e| e.unwrap().path()).filter(|p| p.extension().map(|e| e == "rs").unwrap_or(false)).collect();
    files.sort();
    let mut cs = vec![];
    let mut ss = vec![];
    for f in &files {
        let file = syn::parse_file(&std::fs::read_to_string(f).map_err(|e| e.to_string())?).map_err(|e| format!("{}: {}", f.display(), e))?;
        let (c, s) = extract(&file);
        cs.extend(c);
        ss.extend(s);
    }
    Ok((cs, ss, files.len()))
}

struct Ctx {
    out: Out,
    scratch: PathBuf,
    n: u64,
    /// "committed sources = generator output", one entry per file (goes to summary.extra)
    regen: Vec<Value>,
    committed: Vec<Value>,
    protoc: bool,
}
/// how compile_protos is reached
#[derive(Clone, Copy, Debug, PartialEq)]
enum Via {
    Fds,         // configure()..compile_fds(fds)
    Protos,      // configure()..compile_protos(&[t.proto], &[dir])            (runs protoc)
    ProtosNoRun, // configure().skip_protoc_run().file_descriptor_set_path(f)..compile_protos(..)
    Simple,      // tonic_build::compile_protos(t.proto)  (OUT_DIR, all defaults)      (runs protoc)
}
impl Ctx {
    fn dir(&mut self, what: &str) -> PathBuf {
        self.n += 1;
        let d = self.scratch.join(format!("{}{}", what, self.n));
        std::fs::create_dir_all(&d).unwrap();
        d
    }
    fn hist_shape(&mut self, k: &str, package: &str, methods: &[(bool, bool)], o: &Opts) {
        self.out.hist(&format!("{}.package", k), if package.is_empty() { "absent" } else if package.contains('.') { "nested" } else { "single" });
        self.out.hist(&format!("{}.methods", k), methods.len());
        for (mcs, mss) in methods {
            self.out.hist(&format!("{}.streaming", k), shape_of(*mcs, *mss));
        }
        self.out.hist(&format!("{}.emit_package", k), o.emit_package);
        self.out.hist(&format!("{}.use_arc_self", k), o.use_arc_self);
        self.out.hist(&format!("{}.default_stubs", k), o.default_stubs);
        self.out.hist(&format!("{}.sides", k), match (o.build_client, o.build_server) { (true, true) => "client+server", (true, false) => "client only", _ => "server only" });
    }
    fn hist_desc(&mut self, k: &str, s: &SDesc, o: &Opts) {
        let ms: Vec<(bool, bool)> = s.methods.iter().map(|m| (m.cs, m.ss)).collect();
        self.hist_shape(k, &s.package, &ms, o);
        for m in &s.methods {
            if m.name.starts_with("r#") {
                self.out.hist(&format!("{}.method_name", k), "raw identifier (keyword)");
            } else if !usable_ident(&m.name) {
                self.out.hist(&format!("{}.method_name", k), "not usable (keyword / not an identifier)");
            } else {
                self.out.hist(&format!("{}.method_name", k), "plain");
            }
        }
        self.out.hist(&format!("{}.descriptor", k), if s.well_formed() { "well-formed" } else { "malformed (names / types)" });
    }

    /// kind gen.tokens: CodeGenBuilder straight to token streams
    fn gen_tokens(&mut self, kind: &str, s: &SDesc, o: &Opts) {
        let svc = s.manual();
        let res = catch(std::panic::AssertUnwindSafe(|| {
            let mut b = tonic_build::CodeGenBuilder::new();
            b.emit_package(o.emit_package).use_arc_self(o.use_arc_self).generate_default_stubs(o.default_stubs).build_transport(o.build_transport);
            let mut ts = proc_macro2::TokenStream::new();
            if o.build_client {
                ts.extend(b.generate_client(&svc, ""));
            }
            if o.build_server {
                ts.extend(b.generate_server(&svc, ""));
            }
            syn::parse2::<syn::File>(ts).map_err(|e| e.to_string())
        }));
        let model = format!("obs_codegen {} {} {} {}", o.cgb(), coq_bool(o.build_client), coq_bool(o.build_server), s.coq());
        self.finish_gen(kind, s, o, res, model);
    }
    /// kind gen.manual: manual::Builder::compile (always emit_package, no arc self / stubs)
    fn gen_manual_file(&mut self, kind: &str, s: &SDesc, o: &Opts) {
        let dir = self.dir("manual");
        let svc = s.manual();
        let res = catch(std::panic::AssertUnwindSafe(|| {
            manual::Builder::new().build_client(o.build_client).build_server(o.build_server).build_transport(o.build_transport).out_dir(&dir).compile(&[svc]);
            let f = dir.join(format!("{}.{}.rs", s.package, s.name));
            syn::parse_file(&std::fs::read_to_string(&f).map_err(|e| e.to_string())?).map_err(|e| e.to_string())
        }));
        let _ = std::fs::remove_dir_all(&dir);
        let model = format!("obs_manual {} {}", o.mb(), s.coq());
        self.finish_gen(kind, s, o, res, model);
    }
    fn finish_gen(&mut self, kind: &str, s: &SDesc, o: &Opts, res: Result<Result<syn::File, String>, String>, model: String) {
        let wf = s.well_formed();
        let (obs, orc) = match res {
            // outside the class of well-formed descriptors the outcome is judged by the tie only
            Err(p) => (Tr::L(vec![Tr::n(99u8)]), if wf { Some(format!("generator panicked on a well-formed descriptor: {}", p)) } else { None }),
            Ok(Err(e)) => (Tr::L(vec![Tr::n(98u8)]), if wf { Some(format!("generated code does not parse: {}", e)) } else { None }),
            Ok(Ok(file)) => {
                let (cs, ss) = extract(&file);
                let mut orc = None;
                if cs.len() != o.build_client as usize || ss.len() != o.build_server as usize {
                    orc = Some(format!("{} client and {} server modules generated, options asked for {}/{}", cs.len(), ss.len(), o.build_client as u8, o.build_server as u8));
                }
                let orc = orc.or_else(|| cross_check(cs.first(), ss.first(), true)).or_else(|| spec_check(&s.spec(), o.emit_package, cs.first(), ss.first()));
                // message types are the descriptor's, in every place (white space aside)
                let orc = orc.or_else(|| {
                    let strip = |t: &str| t.chars().filter(|c| !c.is_whitespace()).collect::<String>();
                    for (i, m) in s.methods.iter().enumerate() {
                        let (wi, wo) = (strip(&m.input), strip(&m.output));
                        if let Some(f) = cs.first().and_then(|c| c.fns.get(i)) {
                            if f.req != wi || f.resp != wo {
                                return Some(format!("client {}: types {} -> {}, the descriptor says {} -> {}", f.fn_name, f.req, f.resp, wi, wo));
                            }
                        }
                        if let Some(a) = ss.first().and_then(|s| s.arms.get(i)) {
                            if a.req != wi || a.resp != wo {
                                return Some(format!("arm {:?}: types {} -> {}, the descriptor says {} -> {}", a.literal, a.req, a.resp, wi, wo));
                            }
                        }
                    }
                    None
                });
                (gen_tr(cs.first(), ss.first()), orc)
            }
        };
        let k = kind.trim_start_matches("corpus.").to_string();
        self.hist_desc(&k, s, o);
        self.out.push(Case { kind: kind.to_string(), input: json!({"service": s.json(), "options": o.json()}), model, impl_obs: obs, oracle: orc, nontrivial: !s.methods.is_empty() });
    }

    /// kinds gen.prost / gen.protos.*: .proto text -> (protox | protoc) -> prost-build driving
    /// tonic-build's ServiceGenerator -> files -> syn -> extraction
    fn gen_prost(&mut self, kind: &str, pf: &PFile, o: &Opts, via: Via) {
        let src = self.dir("proto");
        let dir = self.dir("prost");
        let cap = self.dir("capture");
        let proto = pf.write(&src);
        let ext = vec![(".dep.v1.Ext".to_string(), pf.ext_rust.clone())];
        // descriptors: protox (pure Rust), as /repo/codegen does
        let fds = protox::compile([&proto], [&src]).map_err(|e| e.to_string());
        // the model's input: what prost-build hands to a ServiceGenerator
        // (Simple: tonic_build::compile_protos has no extern_path / options)
        let simple = via == Via::Simple;
        let captured = fds.clone().and_then(|f| capture_services(f, &cap, o.cwkt && !simple, if simple { &[] } else { &ext }));
        let o = if simple { Opts::plain(true, true) } else { o.clone() };
        let res = catch(std::panic::AssertUnwindSafe(|| -> Result<(Vec<ClientMod>, Vec<ServerMod>, usize), String> {
            if simple {
                std::env::set_var("OUT_DIR", &dir);
                let r = tonic_build::compile_protos(&proto).map_err(|e| e.to_string());
                std::env::remove_var("OUT_DIR");
                r?;
            } else {
                let mut b = tonic_build::configure()
                    .build_client(o.build_client)
                    .build_server(o.build_server)
                    .build_transport(o.build_transport)
                    .use_arc_self(o.use_arc_self)
                    .generate_default_stubs(o.default_stubs)
                    .compile_well_known_types(o.cwkt)
                    .proto_path(&o.proto_path)
                    .extern_path(&ext[0].0, &ext[0].1)
                    .emit_rerun_if_changed(false)
                    .out_dir(&dir);
                if !o.emit_package {
                    b = b.disable_package_emission();
                }
                match via {
                    Via::Fds => b.compile_fds(fds.clone()?).map_err(|e| e.to_string())?,
                    Via::Protos => b.compile_protos(&[&proto], &[&src]).map_err(|e| e.to_string())?,
                    Via::ProtosNoRun => {
                        use protox::prost::Message;
                        let f = src.join("fds.bin");
                        std::fs::write(&f, fds.clone()?.encode_to_vec()).map_err(|e| e.to_string())?;
                        b.skip_protoc_run().file_descriptor_set_path(&f).compile_protos(&[&proto], &[&src]).map_err(|e| e.to_string())?
                    }
                    Via::Simple => unreachable!(),
                }
            }
            extract_dir(&dir)
        }));
        for d in [&src, &dir, &cap] {
            let _ = std::fs::remove_dir_all(d);
        }
        let n = pf.services.len();
        for i in 0..n {
            let sv = &pf.services[i];
            let (model, cap_json) = match &captured {
                Ok(v) if v.len() == n => (format!("obs_prost {} {}", o.pb(), prost_service_coq(&v[i])), prost_service_json(&v[i])),
                Ok(v) => (format!("Nd [Nn 95; Nn {}]", v.len()), json!(null)),
                Err(e) => ("Nd [Nn 95]".to_string(), json!(e)),
            };
            let (obs, orc) = match &res {
                Err(p) => (Tr::L(vec![Tr::n(99u8)]), Some(format!("generator panicked on a valid .proto: {}", p))),
                Ok(Err(e)) => (Tr::L(vec![Tr::n(98u8)]), Some(format!("generation failed on a valid .proto: {}", e))),
                Ok(Ok((cs, ss, _files))) => {
                    let mut orc = None;
                    if cs.len() != if o.build_client { n } else { 0 } || ss.len() != if o.build_server { n } else { 0 } {
                        orc = Some(format!("{} client and {} server modules for {} services", cs.len(), ss.len(), n));
                    }
                    if captured.as_ref().map(|v| v.len()).ok() != Some(n) {
                        orc = orc.or(Some(format!("prost-build did not hand over {} services: {:?}", n, captured.as_ref().map(|v| v.len()))));
                    }
                    let orc = orc.or_else(|| cross_check(cs.get(i), ss.get(i), true)).or_else(|| spec_check(&pf.spec(i), o.emit_package, cs.get(i), ss.get(i)));
                    (gen_tr(cs.get(i), ss.get(i)), orc)
                }
            };
            let k = kind.trim_start_matches("corpus.").to_string();
            let ms: Vec<(bool, bool)> = sv.methods.iter().map(|m| (m.cs, m.ss)).collect();
            self.hist_shape(&k, &pf.package, &ms, &o);
            self.out.hist(&format!("{}.services_in_file", k), n);
            self.out.hist(&format!("{}.compile_well_known_types", k), o.cwkt);
            self.out.hist(&format!("{}.proto_path", k), &o.proto_path);
            for m in &sv.methods {
                self.out.hist(&format!("{}.message_types", k), format!("{:?}", m.input));
                self.out.hist(&format!("{}.message_types", k), format!("{:?}", m.output));
            }
            if let Ok(v) = &captured {
                if let Some(c) = v.get(i) {
                    self.out.hist(&format!("{}.service_name_recased_by_prost", k), c.name != c.proto_name);
                    for m in &c.methods {
                        self.out.hist(&format!("{}.method_name_mangled", k), if m.name.starts_with("r#") { "raw identifier" } else if m.name.ends_with('_') && !m.proto_name.ends_with('_') { "underscore suffix" } else { "snake case" });
                    }
                }
            }
            self.out.push(Case {
                kind: kind.to_string(),
                input: json!({"file": pf.json(), "service": sv.ident, "index": i, "options": o.json(), "via": format!("{:?}", via), "prost_service": cap_json}),
                model,
                impl_obs: obs,
                oracle: orc,
                nontrivial: !sv.methods.is_empty(),
            });
        }
    }
}

// ------------------------------------------------------------------ .proto reading (tiny)
fn proto_tokens(src: &str) -> Vec<String> {
    // strip comments
    let mut s = String::new();
    let b: Vec<char> = src.chars().collect();
    let mut i = 0;
    while i < b.len() {
        if b[i] == '/' && i + 1 < b.len() && b[i + 1] == '/' {
            while i < b.len() && b[i] != '\n' {
                i += 1;
            }
        } else if b[i] == '/' && i + 1 < b.len() && b[i + 1] == '*' {
            i += 2;
            while i + 1 < b.len() && !(b[i] == '*' && b[i + 1] == '/') {
                i += 1;
            }
            i += 2;
        } else if b[i] == '"' {
            s.push(' ');
            i += 1;
            while i < b.len() && b[i] != '"' {
                if b[i] == '\\' {
                    i += 1;
                }
                i += 1;
            }
            i += 1;
            s.push_str(" \"\" ");
        } else {
            s.push(b[i]);
            i += 1;
        }
    }
    let mut out = vec![];
    let mut cur = String::new();
    for c in s.chars() {
        if c.is_alphanumeric() || c == '_' || c == '.' {
            cur.push(c);
        } else {
            if !cur.is_empty() {
                out.push(std::mem::take(&mut cur));
            }
            if !c.is_whitespace() {
                out.push(c.to_string());
            }
        }
    }
    if !cur.is_empty() {
        out.push(cur);
    }
    out
}
/// (package, services) of one .proto file; services only at top level (brace depth 0)
fn read_proto(path: &Path) -> (String, Vec<Spec>) {
    let t = proto_tokens(&std::fs::read_to_string(path).unwrap());
    let mut package = String::new();
    let mut services = vec![];
    let mut depth = 0i32;
    let mut i = 0;
    while i < t.len() {
        match t[i].as_str() {
            "{" => depth += 1,
            "}" => depth -= 1,
            "package" if depth == 0 => {
                package = t[i + 1].clone();
                i += 1;
            }
            "service" if depth == 0 && t.get(i + 2).map(|x| x == "{").unwrap_or(false) => {
                let name = t[i + 1].clone();
                let mut methods = vec![];
                let mut j = i + 3;
                let mut d = 1;
                while j < t.len() && d > 0 {
                    match t[j].as_str() {
                        "{" => d += 1,
                        "}" => d -= 1,
                        "rpc" if d == 1 => {
                            // rpc Name ( [stream] In ) returns ( [stream] Out )
                            let route = t[j + 1].clone();
                            let mut k = j + 3;
                            let cs = t[k] == "stream";
                            if cs {
                                k += 1;
                            }
                            k += 2; // <input> ")" "returns"
                            assert_eq!(t[k], "returns");
                            k += 2;
                            let ss = t[k] == "stream";
                            if ss {
                                k += 1;
                            }
                            methods.push((route, cs, ss));
                            j = k;
                        }
                        _ => {}
                    }
                    j += 1;
                }
                services.push(Spec { package: String::new(), ident: name, methods });
                i = j - 1;
            }
            _ => {}
        }
        i += 1;
    }
    for s in &mut services {
        s.package = package.clone();
    }
    (package, services)
}

// ------------------------------------------------------------------ /repo/codegen/src/main.rs: the argument table of `main`
#[derive(Debug, Clone)]
struct BootCall {
    crate_dir: String,
    iface_files: Vec<String>,
    include_dirs: Vec<String>,
    out_dir: String,
    fds_path: String,
    build_client: bool,
    build_server: bool,
}
fn bootstrap_table() -> Result<Vec<BootCall>, String> {
    use syn::visit::Visit;
    let src = std::fs::read_to_string("/repo/codegen/src/main.rs").map_err(|e| e.to_string())?;
    let file = syn::parse_file(&src).map_err(|e| e.to_string())?;
    #[derive(Default)]
    struct Strs(Vec<String>);
    impl<'a> Visit<'a> for Strs {
        fn visit_lit_str(&mut self, l: &'a syn::LitStr) {
            self.0.push(l.value());
        }
    }
    let strs = |e: &syn::Expr| {
        let mut s = Strs::default();
        s.visit_expr(e);
        s.0
    };
    let boolean = |e: &syn::Expr| match e {
        syn::Expr::Lit(syn::ExprLit { lit: syn::Lit::Bool(b), .. }) => Ok(b.value),
        _ => Err("codegen(..): bool literal expected".to_string()),
    };
    let mut out = vec![];
    for it in &file.items {
        if let syn::Item::Fn(f) = it {
            if f.sig.ident != "main" {
                continue;
            }
            for st in &f.block.stmts {
                if let syn::Stmt::Expr(syn::Expr::Call(c), _) = st {
                    if toks(&c.func) != "codegen" {
                        return Err(format!("main: unexpected call {}", toks(&c.func)));
                    }
                    if c.args.len() != 7 {
                        return Err("codegen(..): 7 arguments expected".into());
                    }
                    let one = |e: &syn::Expr| {
                        let v = strs(e);
                        if v.len() == 1 { Ok(v[0].clone()) } else { Err(format!("one string literal expected in {}", toks(e))) }
                    };
                    out.push(BootCall {
                        crate_dir: one(&c.args[0])?,
                        iface_files: strs(&c.args[1]),
                        include_dirs: strs(&c.args[2]),
                        out_dir: one(&c.args[3])?,
                        fds_path: one(&c.args[4])?,
                        build_client: boolean(&c.args[5])?,
                        build_server: boolean(&c.args[6])?,
                    });
                } else {
                    return Err(format!("main: unexpected statement {}", toks(st)));
                }
            }
        }
    }
    if out.is_empty() {
        return Err("no codegen(..) calls found in main".into());
    }
    Ok(out)
}
fn copy_dir(from: &Path, to: &Path) {
    std::fs::create_dir_all(to).unwrap();
    for e in std::fs::read_dir(from).unwrap() {
        let e = e.unwrap();
        let p = e.path();
        if p.is_dir() {
            copy_dir(&p, &to.join(e.file_name()));
        } else {
            std::fs::copy(&p, to.join(e.file_name())).unwrap();
        }
    }
}

fn committed_and_regen(ctx: &mut Ctx) {
    let table = match bootstrap_table() {
        Ok(t) => t,
        Err(e) => {
            ctx.out.push(Case {
                kind: "regen.table".into(),
                input: json!({"file": "/repo/codegen/src/main.rs"}),
                model: "obs_regen".into(),
                impl_obs: Tr::L(vec![Tr::n(0u8)]),
                oracle: Some(format!("cannot read the bootstrap generator's argument table: {}", e)),
                nontrivial: true,
            });
            return;
        }
    };
    let root = ctx.dir("regen");
    // group by crate: every call of one crate writes into the same out dir
    let mut crates: Vec<String> = vec![];
    for c in &table {
        if !crates.contains(&c.crate_dir) {
            crates.push(c.crate_dir.clone());
        }
    }
    for cr in &crates {
        let calls: Vec<&BootCall> = table.iter().filter(|c| &c.crate_dir == cr).collect();
        let repo_crate = Path::new("/repo").join(cr);
        let tmp_crate = root.join(cr);
        // the generator's inputs: the include dirs (proto files); nothing else is copied
        for c in &calls {
            for inc in &c.include_dirs {
                copy_dir(&repo_crate.join(inc), &tmp_crate.join(inc));
            }
            std::fs::create_dir_all(tmp_crate.join(&c.out_dir)).unwrap();
        }
        let mut run_err = None;
        for c in &calls {
            let files: Vec<&str> = c.iface_files.iter().map(|s| s.as_str()).collect();
            let incs: Vec<&str> = c.include_dirs.iter().map(|s| s.as_str()).collect();
            let r = catch(std::panic::AssertUnwindSafe(|| {
                bootstrap::run(&tmp_crate, &files, &incs, Path::new(&c.out_dir), Path::new(&c.fds_path), c.build_client, c.build_server)
            }));
            if let Err(p) = r {
                run_err = Some(format!("bootstrap codegen({}, {:?}) panicked: {}", cr, c.iface_files, p));
            }
        }
        // ---- regen.*: byte comparison, both directions
        let out_rel = calls[0].out_dir.clone();
        let mut names: Vec<String> = vec![];
        for d in [repo_crate.join(&out_rel), tmp_crate.join(&out_rel)] {
            if let Ok(rd) = std::fs::read_dir(&d) {
                for e in rd {
                    let n = e.unwrap().file_name().to_string_lossy().to_string();
                    if !names.contains(&n) {
                        names.push(n);
                    }
                }
            }
        }
        names.sort();
        for n in &names {
            let committed = std::fs::read(repo_crate.join(&out_rel).join(n)).ok();
            let regenerated = std::fs::read(tmp_crate.join(&out_rel).join(n)).ok();
            let (obs, orc) = match (&committed, &regenerated) {
                (Some(a), Some(b)) if a == b => (Tr::L(vec![Tr::n(1u8)]), None),
                (Some(a), Some(b)) => {
                    let off = a.iter().zip(b.iter()).position(|(x, y)| x != y).unwrap_or(a.len().min(b.len()));
                    let line = a[..off.min(a.len())].iter().filter(|c| **c == b'\n').count() + 1;
                    (
                        Tr::L(vec![Tr::n(0u8), Tr::n(off as u64)]),
                        Some(format!("committed {}/{}/{} differs from the generator's output at byte {} (line {}): committed {} bytes, generated {} bytes", cr, out_rel, n, off, line, a.len(), b.len())),
                    )
                }
                (Some(_), None) => (Tr::L(vec![Tr::n(0u8), Tr::n(1u8)]), Some(run_err.clone().unwrap_or(format!("committed {}/{}/{} is not produced by the generator (stale file)", cr, out_rel, n)))),
                (None, Some(_)) => (Tr::L(vec![Tr::n(0u8), Tr::n(2u8)]), Some(format!("the generator produces {}/{}/{} which is not committed", cr, out_rel, n))),
                (None, None) => unreachable!(),
            };
            ctx.out.hist("regen", if orc.is_none() { "identical" } else { "differs" });
            // visible in the evidence (distribution): one line per committed file
            ctx.out.hist(&format!("regen.file.{}/{}/{}", cr, out_rel, n), if orc.is_none() { "byte-identical to generator output" } else { "DIFFERS from generator output" });
            ctx.regen.push(json!({"crate": cr, "file": format!("{}/{}", out_rel, n), "committed_bytes": committed.as_ref().map(|c| c.len()),
                "regenerated_bytes": regenerated.as_ref().map(|c| c.len()), "byte_identical": orc.is_none(), "detail": orc}));
            ctx.out.push(Case {
                kind: format!("regen.{}", n),
                input: json!({"crate": cr, "file": format!("{}/{}", out_rel, n), "bytes": committed.as_ref().map(|c| c.len()), "protos": calls.iter().flat_map(|c| c.iface_files.clone()).collect::<Vec<_>>()}),
                model: "obs_regen".into(),
                impl_obs: obs,
                oracle: orc,
                nontrivial: true,
            });
        }
        // ---- committed.*: extraction from the committed sources vs. the .proto services
        // expected: per package (= per generated file) the services of the interface files;
        // `specs` by our own reading of the .proto text (for the direct check), `prost` as
        // prost-build hands them to a ServiceGenerator (the model's input)
        let mut per_pkg: Vec<(String, Vec<Spec>, Vec<prost_build::Service>, Option<String>, bool, bool)> = vec![];
        for c in &calls {
            let files: Vec<PathBuf> = c.iface_files.iter().map(|f| repo_crate.join(f)).collect();
            let incs: Vec<PathBuf> = c.include_dirs.iter().map(|d| repo_crate.join(d)).collect();
            let cap = ctx.dir("capture");
            let captured = protox::compile(&files, &incs).map_err(|e| e.to_string()).and_then(|fds| capture_services(fds, &cap, false, &[]));
            let _ = std::fs::remove_dir_all(&cap);
            for f in &c.iface_files {
                let (pkg, svcs) = read_proto(&repo_crate.join(f));
                let (mine, err) = match &captured {
                    Ok(v) => (v.iter().filter(|s| s.package == pkg && svcs.iter().any(|x| x.ident == s.proto_name)).cloned().collect::<Vec<_>>(), None),
                    Err(e) => (vec![], Some(e.clone())),
                };
                match per_pkg.iter_mut().find(|p| p.0 == pkg) {
                    Some(p) => {
                        p.1.extend(svcs);
                        p.2.extend(mine);
                        p.3 = p.3.take().or(err);
                    }
                    None => per_pkg.push((pkg, svcs, mine, err, c.build_client, c.build_server)),
                }
            }
        }
        for (pkg, svcs, prost, cap_err, bc, bs) in per_pkg {
            let fname = format!("{}.rs", pkg.replace('.', "_"));
            let path = repo_crate.join(&out_rel).join(&fname);
            let o = Opts::plain(bc, bs);
            let model = format!("Nd {}", coq_list(&prost, |s| format!("obs_prost {} {}", o.pb(), prost_service_coq(s))));
            let parsed = std::fs::read_to_string(&path).map_err(|e| e.to_string()).and_then(|s| syn::parse_file(&s).map_err(|e| e.to_string()));
            let (obs, orc) = match parsed {
                Err(e) => (Tr::L(vec![Tr::n(98u8)]), Some(format!("{}: {}", path.display(), e))),
                Ok(file) => {
                    let (cs, ss) = extract(&file);
                    let want_c = if bc { svcs.len() } else { 0 };
                    let want_s = if bs { svcs.len() } else { 0 };
                    let mut orc = cap_err.map(|e| format!("cannot compile the .proto files of {}: {}", fname, e));
                    if cs.len() != want_c || ss.len() != want_s {
                        orc = orc.or(Some(format!("{}: {} client / {} server modules, the .proto files define {} services (client: {}, server: {})", fname, cs.len(), ss.len(), svcs.len(), bc, bs)));
                    }
                    if prost.len() != svcs.len() {
                        orc = orc.or(Some(format!("{}: prost-build hands over {} services, the .proto text has {}", fname, prost.len(), svcs.len())));
                    }
                    for (i, s) in svcs.iter().enumerate() {
                        let mut s = s.clone();
                        s.package = pkg.clone();
                        // client against server, and the committed code against the .proto, directly
                        orc = orc.or_else(|| cross_check(if bc { cs.get(i) } else { None }, if bs { ss.get(i) } else { None }, true)).or_else(|| spec_check(&s, true, cs.get(i), ss.get(i)));
                    }
                    (Tr::L((0..svcs.len().max(cs.len()).max(ss.len())).map(|i| gen_tr(cs.get(i), ss.get(i))).collect()), orc)
                }
            };
            let rpcs = svcs.iter().map(|s| s.methods.len()).sum::<usize>();
            ctx.out.hist("committed.services_in_file", svcs.len());
            ctx.out.hist(&format!("committed.file.{}/{}/{}", cr, out_rel, fname), if orc.is_none() { "extraction agrees with the .proto services" } else { "DISAGREES with the .proto services" });
            ctx.committed.push(json!({"crate": cr, "file": format!("{}/{}", out_rel, fname), "package": pkg, "services": svcs.iter().map(|s| s.ident.clone()).collect::<Vec<_>>(),
                "rpcs": rpcs, "agrees": orc.is_none(), "detail": orc}));
            ctx.out.push(Case {
                kind: format!("committed.{}", fname),
                input: json!({"file": path.display().to_string(), "package": pkg, "services": prost.iter().map(prost_service_json).collect::<Vec<_>>(), "build_client": bc, "build_server": bs}),
                model,
                impl_obs: obs,
                oracle: orc,
                // a file without services (google_rpc.rs: messages only) says nothing about clients and servers
                nontrivial: rpcs > 0,
            });
        }
    }
    let _ = std::fs::remove_dir_all(&root);
}

// ------------------------------------------------------------------ e2e through the h_router fixture
mod e2e {
    use super::*;
    use h_router::*;
    use tonic::service::Routes;

    const N: usize = 200_000;
    pub fn add(routes: Routes, k: usize, rec: &Rec) -> Routes {
        match k {
            0 => routes.add_service(pkg_svc::svc_server::SvcServer::new(rec.clone())),
            1 => routes.add_service(pkg_svcx::svc_x_server::SvcXServer::new(rec.clone())),
            2 => routes.add_service(nopkg_svc::svc_server::SvcServer::new(rec.clone())),
            _ => routes.add_service(pkg_svc_inner::inner_server::InnerServer::new(rec.clone())),
        }
    }
    fn one() -> Msg {
        Msg(vec![7])
    }
    fn many() -> tokio_stream::Iter<std::vec::IntoIter<Msg>> {
        tokio_stream::iter(vec![Msg(vec![7]), Msg(vec![8])])
    }
    type R = Result<Result<(), tonic::Status>, ()>;
    fn done<T>(r: Result<Result<tonic::Response<T>, tonic::Status>, ()>) -> R {
        r.map(|x| x.map(|_| ()))
    }
    /// calls generated client method (k, j); the argument / result types fix the client-side shape
    /// at compile time, which is why it is passed back as a constant
    fn call(routes: Routes, k: usize, j: usize) -> (R, &'static str) {
        match (k, j) {
            (0, 0) => (done(spin(pkg_svc::svc_client::SvcClient::new(routes).get(one()), N)), "unary"),
            (0, 1) => (done(spin(pkg_svc::svc_client::SvcClient::new(routes).list(one()), N)), "server_streaming"),
            (0, 2) => (done(spin(pkg_svc::svc_client::SvcClient::new(routes).put(many()), N)), "client_streaming"),
            (0, 3) => (done(spin(pkg_svc::svc_client::SvcClient::new(routes).chat(many()), N)), "streaming"),
            (1, 0) => (done(spin(pkg_svcx::svc_x_client::SvcXClient::new(routes).get(one()), N)), "unary"),
            (1, 1) => (done(spin(pkg_svcx::svc_x_client::SvcXClient::new(routes).get_x(one()), N)), "unary"),
            (1, 2) => (done(spin(pkg_svcx::svc_x_client::SvcXClient::new(routes).ge(one()), N)), "unary"),
            (2, 0) => (done(spin(nopkg_svc::svc_client::SvcClient::new(routes).get(one()), N)), "unary"),
            (2, 1) => (done(spin(nopkg_svc::svc_client::SvcClient::new(routes).get_lower(one()), N)), "unary"),
            (2, 2) => (done(spin(nopkg_svc::svc_client::SvcClient::new(routes).get_upper(one()), N)), "server_streaming"),
            (3, 0) => (done(spin(pkg_svc_inner::inner_client::InnerClient::new(routes).get(many()), N)), "streaming"),
            (3, 1) => (done(spin(pkg_svc_inner::inner_client::InnerClient::new(routes).r#type(one()), N)), "unary"),
            _ => panic!("no such fixture method"),
        }
    }
    const FN_NAMES: [&[&str]; 4] = [&["get", "list", "put", "chat"], &["get", "get_x", "ge"], &["get", "get_lower", "get_upper"], &["get", "r#type"]];
    const PKG: [(&str, &str); 4] = [("pkg", "Svc"), ("pkg", "SvcX"), ("", "Svc"), ("pkg.Svc", "Inner")];
    pub fn sdesc(k: usize) -> SDesc {
        let (pkg, name) = PKG[k];
        SDesc {
            name: name.into(),
            package: pkg.into(),
            methods: FIXTURE[k]
                .1
                .iter()
                .enumerate()
                .map(|(j, (route, shape))| MDesc {
                    name: FN_NAMES[k][j].into(),
                    route: route.to_string(),
                    cs: *shape == "client_streaming" || *shape == "streaming",
                    ss: *shape == "server_streaming" || *shape == "streaming",
                    input: "crate::Msg".into(),
                    output: "crate::Msg".into(),
                    codec: "crate::RawCodec".into(),
                })
                .collect(),
        }
    }
    pub fn run(ctx: &mut Ctx, r: &mut Rng, rounds: usize) {
        let o = Opts { build_transport: false, ..Opts::plain(true, true) };
        for round in 0..rounds {
            for k in 0..4usize {
                for j in 0..FIXTURE[k].1.len() {
                    // the target plus a random subset of the others, in random order
                    let mut regs = vec![k];
                    for other in 0..4 {
                        if other != k && (round == 0 || r.chance(1, 2)) {
                            regs.push(other);
                        }
                    }
                    for i in (1..regs.len()).rev() {
                        let x = r.below(i as u64 + 1) as usize;
                        regs.swap(i, x);
                    }
                    let rec = Rec::default();
                    let mut routes = Routes::default();
                    for g in &regs {
                        routes = add(routes, *g, &rec);
                    }
                    let res = catch(std::panic::AssertUnwindSafe(|| call(routes, k, j)));
                    let hits = rec.hits.lock().unwrap().clone();
                    let (want_route, want_shape) = FIXTURE[k].1[j];
                    let (obs, orc) = match res {
                        Err(p) => (Tr::L(vec![Tr::n(99u8)]), Some(format!("panic: {}", p))),
                        Ok((Err(()), _)) => (Tr::L(vec![Tr::n(97u8)]), Some("client call did not complete".into())),
                        Ok((Ok(status), client_shape)) => {
                            let outcome = if hits.len() == 1 {
                                Tr::L(vec![Tr::L(vec![Tr::n(0u8), Tr::s(&hits[0].0), Tr::s(&hits[0].1)]), Tr::L(vec![Tr::n(0u8)])])
                            } else {
                                let code = match &status {
                                    Err(s) => s.code() as i32 as u32,
                                    Ok(()) => 0,
                                };
                                Tr::L(vec![Tr::L(vec![Tr::n(if hits.is_empty() { 2u8 } else { 98u8 })]), Tr::L(vec![Tr::n(code)])])
                            };
                            let server_shape = hits.first().map(|h| h.2).unwrap_or("none");
                            let mut orc = None;
                            if hits != vec![(FIXTURE[k].0.to_string(), want_route.to_string(), want_shape)] {
                                orc = Some(format!("generated client {}::{} reached handlers {:?}, expected {}/{} ({})", FIXTURE[k].0, FN_NAMES[k][j], hits, FIXTURE[k].0, want_route, want_shape));
                            } else if client_shape != server_shape {
                                orc = Some(format!("client side is {}, server side is {}", client_shape, server_shape));
                            } else if let Err(s) = &status {
                                orc = Some(format!("call failed: {:?} {}", s.code(), s.message()));
                            }
                            (Tr::L(vec![outcome, Tr::n(shape_code(client_shape)), Tr::n(shape_code(server_shape))]), orc)
                        }
                    };
                    let regs_d: Vec<SDesc> = regs.iter().map(|g| sdesc(*g)).collect();
                    let s = sdesc(k);
                    let model = format!("obs_e2e {} {} {}", coq_list(&regs_d, |d| d.coq()), s.coq(), j);
                    ctx.out.hist("e2e.registered", regs.len());
                    ctx.out.hist("e2e.shape", want_shape);
                    ctx.out.push(Case {
                        kind: "e2e".into(),
                        input: json!({"service": FIXTURE[k].0, "client_fn": FN_NAMES[k][j], "registered": regs.iter().map(|g| FIXTURE[*g].0).collect::<Vec<_>>()}),
                        model,
                        impl_obs: obs,
                        oracle: orc,
                        nontrivial: true,
                    });
                }
            }
        }
        // the fixture sources are what the generator emits for these descriptors (same extraction)
        for k in 0..4 {
            let s = sdesc(k);
            let parsed = syn::parse_file(GENERATED[k].1).map_err(|e| e.to_string());
            let model = format!("obs_manual {} {}", o.mb(), s.coq());
            ctx.finish_gen("gen.fixture", &s, &o, Ok(parsed), model);
        }
    }
}

// ------------------------------------------------------------------ e2e through the prost path, with options
/// fixture generated by build.rs: fixture/demo.proto through configure()..compile_fds,
/// once with default options, once with disable_package_emission + use_arc_self + default stubs
#[cfg(feature = "fixture")]
#[allow(non_camel_case_types, dead_code, clippy::all)]
mod fx_default {
    include!(concat!(env!("OUT_DIR"), "/fx_default/demo.v1.rs"));
}
#[cfg(feature = "fixture")]
#[allow(non_camel_case_types, dead_code, clippy::all)]
mod fx_opts {
    include!(concat!(env!("OUT_DIR"), "/fx_opts/demo.v1.rs"));
}
// The compiled fixture is behind the (default) feature `fixture`: when a change of the generator
// makes the generated code stop fitting the hand-written implementation below, ./check rebuilds
// this harness without it so that the token-level cases still run and name a failing input.
#[cfg(feature = "fixture")]
mod e2e_prost {
    use super::*;
    use std::sync::Arc;
    use tonic::codegen::BoxStream;
    use tonic::service::Routes;
    use tonic::{Request, Response, Status, Streaming};

    const PROTO: &str = include_str!("../fixture/demo.proto");
    const GENERATED: [&str; 2] = [include_str!(concat!(env!("OUT_DIR"), "/fx_default/demo.v1.rs")), include_str!(concat!(env!("OUT_DIR"), "/fx_opts/demo.v1.rs"))];
    const N: usize = 200_000;

    #[derive(Clone, Default)]
    pub struct Rec2 {
        pub hits: h_router::Hits,
    }
    impl Rec2 {
        fn hit(&self, s: &str, m: &str, shape: &'static str) {
            self.hits.lock().unwrap().push((s.to_string(), m.to_string(), shape));
        }
    }
    type S1 = tokio_stream::Iter<std::vec::IntoIter<Result<fx_default::Msg, Status>>>;
    #[tonic::async_trait]
    impl fx_default::http_echo_service_server::HttpEchoService for Rec2 {
        async fn say(&self, _r: Request<fx_default::Msg>) -> Result<Response<fx_default::Msg>, Status> {
            self.hit("demo.v1.HTTPEcho_service", "Say", "unary");
            Ok(Response::new(fx_default::Msg { data: vec![1] }))
        }
        type SayManyStream = S1;
        async fn say_many(&self, _r: Request<fx_default::Msg>) -> Result<Response<S1>, Status> {
            self.hit("demo.v1.HTTPEcho_service", "SayMany", "server_streaming");
            Ok(Response::new(tokio_stream::iter(vec![Ok(fx_default::Msg { data: vec![1] })])))
        }
        async fn collect(&self, _r: Request<Streaming<fx_default::Msg>>) -> Result<Response<fx_default::Msg>, Status> {
            self.hit("demo.v1.HTTPEcho_service", "Collect", "client_streaming");
            Ok(Response::new(fx_default::Msg { data: vec![1] }))
        }
        type typeStream = S1;
        async fn r#type(&self, _r: Request<Streaming<fx_default::Msg>>) -> Result<Response<S1>, Status> {
            self.hit("demo.v1.HTTPEcho_service", "type", "streaming");
            Ok(Response::new(tokio_stream::iter(vec![Ok(fx_default::Msg { data: vec![1] })])))
        }
    }
    /// Arc<Self> receivers; SayMany and Collect are NOT overridden: the generated default bodies answer
    #[tonic::async_trait]
    impl fx_opts::http_echo_service_server::HttpEchoService for Rec2 {
        async fn say(self: Arc<Self>, _r: Request<fx_opts::Msg>) -> Result<Response<fx_opts::Msg>, Status> {
            self.hit("HTTPEcho_service", "Say", "unary");
            Ok(Response::new(fx_opts::Msg { data: vec![1] }))
        }
        async fn r#type(self: Arc<Self>, _r: Request<Streaming<fx_opts::Msg>>) -> Result<Response<BoxStream<fx_opts::Msg>>, Status> {
            self.hit("HTTPEcho_service", "type", "streaming");
            Ok(Response::new(Box::pin(tokio_stream::iter(vec![Ok(fx_opts::Msg { data: vec![1] })]))))
        }
    }
    const OVERRIDDEN: [[bool; 4]; 2] = [[true, true, true, true], [true, false, false, true]];
    const ROUTE: [(&str, &str); 4] = [("Say", "unary"), ("SayMany", "server_streaming"), ("Collect", "client_streaming"), ("type", "streaming")];
    const NAME: [&str; 2] = ["demo.v1.HTTPEcho_service", "HTTPEcho_service"];

    type R = Result<Result<(), Status>, ()>;
    fn done<T>(r: Result<Result<Response<T>, Status>, ()>) -> R {
        r.map(|x| x.map(|_| ()))
    }
    fn call(routes: Routes, v: usize, j: usize) -> (R, &'static str) {
        use fx_default::http_echo_service_client::HttpEchoServiceClient as C0;
        use fx_opts::http_echo_service_client::HttpEchoServiceClient as C1;
        let m0 = || fx_default::Msg { data: vec![7] };
        let m1 = || fx_opts::Msg { data: vec![7] };
        match (v, j) {
            (0, 0) => (done(spin(C0::new(routes).say(m0()), N)), "unary"),
            (0, 1) => (done(spin(C0::new(routes).say_many(m0()), N)), "server_streaming"),
            (0, 2) => (done(spin(C0::new(routes).collect(tokio_stream::iter(vec![m0(), m0()])), N)), "client_streaming"),
            (0, 3) => (done(spin(C0::new(routes).r#type(tokio_stream::iter(vec![m0(), m0()])), N)), "streaming"),
            (1, 0) => (done(spin(C1::new(routes).say(m1()), N)), "unary"),
            (1, 1) => (done(spin(C1::new(routes).say_many(m1()), N)), "server_streaming"),
            (1, 2) => (done(spin(C1::new(routes).collect(tokio_stream::iter(vec![m1(), m1()])), N)), "client_streaming"),
            (1, 3) => (done(spin(C1::new(routes).r#type(tokio_stream::iter(vec![m1(), m1()])), N)), "streaming"),
            _ => panic!("no such fixture method"),
        }
    }
    fn opts(v: usize) -> Opts {
        if v == 0 {
            Opts { build_transport: false, ..Opts::plain(true, true) }
        } else {
            Opts { emit_package: false, use_arc_self: true, default_stubs: true, build_transport: false, ..Opts::plain(true, true) }
        }
    }
    pub fn run(ctx: &mut Ctx, r: &mut Rng, rounds: usize) {
        // the model's input: the prost_build::Service of the fixture .proto
        let src = ctx.dir("fxproto");
        let cap = ctx.dir("fxcap");
        std::fs::write(src.join("demo.proto"), PROTO).unwrap();
        let svc = protox::compile([src.join("demo.proto")], [&src]).map_err(|e| e.to_string()).and_then(|f| capture_services(f, &cap, false, &[]));
        let _ = std::fs::remove_dir_all(&src);
        let _ = std::fs::remove_dir_all(&cap);
        let svc = match svc {
            Ok(v) if v.len() == 1 => v[0].clone(),
            other => {
                ctx.out.push(Case { kind: "e2e.prost".into(), input: json!({"proto": PROTO}), model: "Nd [Nn 95]".into(), impl_obs: Tr::L(vec![Tr::n(0u8)]), oracle: Some(format!("cannot read the fixture .proto: {:?}", other.map(|v| v.len()))), nontrivial: true });
                return;
            }
        };
        let reg_coq = |g: &Reg| match g {
            Reg::Fx(v) => format!("(RegProst {} {})", opts(*v).pb(), prost_service_coq(&svc)),
            Reg::Router(k) => format!("(RegManual {})", e2e::sdesc(*k).coq()),
        };
        for round in 0..rounds {
            for v in 0..2usize {
                for j in 0..4usize {
                    // the target, the other variant and a random subset of the h_router fixture servers, in random order
                    let mut regs = vec![Reg::Fx(v)];
                    if round == 0 || r.chance(1, 2) {
                        regs.push(Reg::Fx(1 - v));
                    }
                    for k in 0..4 {
                        if round > 0 && r.chance(1, 3) {
                            regs.push(Reg::Router(k));
                        }
                    }
                    for i in (1..regs.len()).rev() {
                        let x = r.below(i as u64 + 1) as usize;
                        regs.swap(i, x);
                    }
                    let rec = Rec2::default();
                    let rrec = h_router::Rec::default();
                    // registering may panic (two generated servers that advertise the same NAME are a
                    // route conflict in axum): that is a verdict about the generated code, not a crash
                    let built = catch(std::panic::AssertUnwindSafe(|| {
                        let mut routes = Routes::default();
                        for g in &regs {
                            routes = match g {
                                Reg::Fx(0) => routes.add_service(fx_default::http_echo_service_server::HttpEchoServiceServer::new(rec.clone())),
                                Reg::Fx(_) => routes.add_service(fx_opts::http_echo_service_server::HttpEchoServiceServer::new(rec.clone())),
                                Reg::Router(k) => e2e::add(routes, *k, &rrec),
                            };
                        }
                        routes
                    }));
                    let res = match built {
                        Ok(routes) => catch(std::panic::AssertUnwindSafe(|| call(routes, v, j))),
                        Err(p) => Err(format!("registering the generated servers: {}", p)),
                    };
                    let mut hits = rec.hits.lock().unwrap().clone();
                    hits.extend(rrec.hits.lock().unwrap().clone());
                    let (want_route, want_shape) = ROUTE[j];
                    let overridden = OVERRIDDEN[v][j];
                    let (obs, orc) = match res {
                        Err(p) => (Tr::L(vec![Tr::n(99u8)]), Some(format!("panic: {}", p))),
                        Ok((Err(()), _)) => (Tr::L(vec![Tr::n(97u8)]), Some("client call did not complete".into())),
                        Ok((Ok(status), client_shape)) => {
                            let code = match &status {
                                Err(s) => s.code() as i32 as u32,
                                Ok(()) => 0,
                            };
                            let stub_answer = matches!(&status, Err(s) if s.code() == tonic::Code::Unimplemented && s.message() == "Not yet implemented");
                            let who = if hits.len() == 1 {
                                Tr::L(vec![Tr::n(0u8), Tr::s(&hits[0].0), Tr::s(&hits[0].1)])
                            } else if hits.is_empty() && stub_answer {
                                Tr::L(vec![Tr::n(3u8)])
                            } else {
                                Tr::L(vec![Tr::n(98u8), Tr::n(hits.len() as u64)])
                            };
                            let server_shape = hits.first().map(|h| h.2).unwrap_or("none");
                            let orc = if overridden {
                                if hits != vec![(NAME[v].to_string(), want_route.to_string(), want_shape)] {
                                    Some(format!("generated client of {} method {} reached handlers {:?}, expected {}/{} ({})", NAME[v], want_route, hits, NAME[v], want_route, want_shape))
                                } else if client_shape != server_shape {
                                    Some(format!("client side is {}, server side is {}", client_shape, server_shape))
                                } else if let Err(s) = &status {
                                    Some(format!("call failed: {:?} {}", s.code(), s.message()))
                                } else {
                                    None
                                }
                            } else if !hits.is_empty() || !stub_answer {
                                // the trait method is not overridden: the generated default body must answer, which
                                // means the client's path reached this method's arm
                                Some(format!("method {} is not overridden: expected the generated default body (UNIMPLEMENTED \"Not yet implemented\"), got handlers {:?}, status {:?}", want_route, hits, status))
                            } else {
                                None
                            };
                            (Tr::L(vec![who, Tr::n(shape_code(client_shape)), Tr::n(shape_code(server_shape)), Tr::n(code)]), orc)
                        }
                    };
                    let model = format!("obs_e2e_prost {} {} {} {} {}", coq_list(&regs, reg_coq), opts(v).pb(), prost_service_coq(&svc), j, coq_bool(overridden));
                    ctx.out.hist("e2e.prost.registered", regs.len());
                    ctx.out.hist("e2e.prost.variant", if v == 0 { "default options" } else { "no package emission + Arc<Self> + default stubs" });
                    ctx.out.hist("e2e.prost.answered_by", if overridden { "the implementation's handler" } else { "the generated default body" });
                    ctx.out.push(Case {
                        kind: "e2e.prost".into(),
                        input: json!({"variant": v, "service": NAME[v], "method": want_route, "overridden": overridden, "registered": regs.iter().map(|g| format!("{:?}", g)).collect::<Vec<_>>(), "options": opts(v).json()}),
                        model,
                        impl_obs: obs,
                        oracle: orc,
                        nontrivial: true,
                    });
                }
            }
        }
        // the fixture sources are what the model says the generator emits for this .proto
        for v in 0..2 {
            let o = opts(v);
            let parsed = syn::parse_file(GENERATED[v]).map_err(|e| e.to_string());
            let (obs, orc) = match parsed {
                Err(e) => (Tr::L(vec![Tr::n(98u8)]), Some(e)),
                Ok(f) => {
                    let (cs, ss) = extract(&f);
                    let sp = Spec { package: "demo.v1".into(), ident: "HTTPEcho_service".into(), methods: vec![("Say".into(), false, false), ("SayMany".into(), false, true), ("Collect".into(), true, false), ("type".into(), true, true)] };
                    (gen_tr(cs.first(), ss.first()), cross_check(cs.first(), ss.first(), true).or_else(|| spec_check(&sp, o.emit_package, cs.first(), ss.first())))
                }
            };
            ctx.out.push(Case { kind: "gen.fixture.prost".into(), input: json!({"variant": v, "options": o.json(), "prost_service": prost_service_json(&svc)}), model: format!("obs_prost {} {}", o.pb(), prost_service_coq(&svc)), impl_obs: obs, oracle: orc, nontrivial: true });
        }
    }
    #[derive(Clone, Copy, Debug)]
    pub enum Reg {
        Fx(usize),
        Router(usize),
    }
}

fn main() {
    let a = args();
    let scratch = PathBuf::from(format!("/tmp/codegen/{}", std::process::id()));
    let _ = std::fs::remove_dir_all(&scratch);
    std::fs::create_dir_all(&scratch).unwrap();
    // compile_protos needs protoc (prost-build: $PROTOC or `protoc` on PATH); without it the two
    // kinds that run it are skipped and the skip is recorded
    let protoc = std::process::Command::new(std::env::var_os("PROTOC").unwrap_or("protoc".into())).arg("--version").output().map(|o| o.status.success()).unwrap_or(false);
    let mut ctx = Ctx { out: Out::new(&a.out), scratch: scratch.clone(), n: 0, regen: vec![], committed: vec![], protoc };
    let mut r = Rng::new(a.seed);
    ctx.out.hist("protoc", if protoc { "available: gen.protos.protoc / gen.protos.simple run" } else { "NOT available: gen.protos.protoc / gen.protos.simple skipped" });

    // ---- corpus: committed sources, regeneration, hand-picked descriptors ----
    committed_and_regen(&mut ctx);
    let t = |n: &str, rt: &str, c: bool, s: bool| MDesc { name: n.into(), route: rt.into(), cs: c, ss: s, input: "crate::In".into(), output: "crate :: Out".into(), codec: "crate::Codec".into() };
    let four = vec![t("get", "Get", false, false), t("list", "List", false, true), t("put", "Put", true, false), t("r#type", "type", true, true)];
    let pt = |rt: &str, c: bool, s: bool, i: TyRef, o: TyRef| PMeth { route: rt.into(), cs: c, ss: s, input: i, output: o };
    let pfour = vec![
        pt("Get", false, false, TyRef::In, TyRef::Out),
        pt("List", false, true, TyRef::Empty, TyRef::Nested),
        pt("Put", true, false, TyRef::Dep, TyRef::Timestamp),
        pt("type", true, true, TyRef::Ext, TyRef::Out),
    ];
    for pkg in ["", "pkg", "a.b.c"] {
        for (bc, bs) in [(true, true), (true, false), (false, true)] {
            for emit in [true, false] {
                for (arc, stubs) in [(false, false), (true, false), (false, true), (true, true)] {
                    let s = SDesc { name: "Svc".into(), package: pkg.into(), methods: four.clone() };
                    let o = Opts { emit_package: emit, use_arc_self: arc, default_stubs: stubs, ..Opts::plain(bc, bs) };
                    ctx.gen_tokens("corpus.gen.tokens", &s, &o);
                    if emit && !arc && !stubs {
                        ctx.gen_manual_file("corpus.gen.manual", &s, &o);
                    }
                    // names that prost-build re-cases: the wire path keeps the .proto spelling
                    let pf = PFile { package: pkg.into(), services: vec![PSvc { ident: "HTTPEcho_service".into(), methods: pfour.clone() }], ext_rust: "::ext_crate::Ext".into() };
                    let po = Opts { cwkt: arc && stubs && bs, proto_path: if arc { "crate::pb".into() } else { "super".into() }, ..o.clone() };
                    ctx.gen_prost("corpus.gen.prost", &pf, &po, Via::Fds);
                }
            }
        }
    }
    // every reserved word and every non-identifier, as service name and as method name, on either side
    for (bc, bs) in [(true, false), (false, true)] {
        for bad in RUST_KEYWORDS.iter().chain(BAD_NAMES).chain(KEYWORD_NAMES) {
            let o = Opts::plain(bc, bs);
            let mut s = SDesc { name: "Svc".into(), package: "pkg".into(), methods: four.clone() };
            s.methods[1].name = bad.to_string();
            ctx.gen_tokens("corpus.names.tokens", &s, &o);
            let mut s = SDesc { name: bad.to_string(), package: "pkg".into(), methods: four.clone() };
            ctx.gen_tokens("corpus.names.tokens", &s, &o);
            s.methods.truncate(1);
            if !bad.contains('/') {
                ctx.gen_manual_file("corpus.names.manual", &s, &o);
            }
            let mut s = SDesc { name: "Svc".into(), package: "pkg".into(), methods: four.clone() };
            s.methods[3].route = bad.to_string();
            ctx.gen_tokens("corpus.names.tokens", &s, &Opts { default_stubs: bc, ..o.clone() });
        }
        for bad in BAD_TYPES {
            for which in 0..3 {
                let mut s = SDesc { name: "Svc".into(), package: "pkg".into(), methods: four.clone() };
                match which {
                    0 => s.methods[2].input = bad.to_string(),
                    1 => s.methods[2].output = bad.to_string(),
                    _ => s.methods[2].codec = bad.to_string(),
                }
                ctx.gen_tokens("corpus.names.tokens", &s, &Opts::plain(bc, bs));
            }
        }
    }
    // compile_protos, the three ways it is reached
    for pkg in ["", "pkg", "a.b.c"] {
        let pf = PFile { package: pkg.into(), services: vec![PSvc { ident: "Svc".into(), methods: pfour.clone() }, PSvc { ident: "echo_service".into(), methods: pfour[..2].to_vec() }], ext_rust: "crate::ext::Ext".into() };
        for (emit, arc, stubs) in [(true, false, false), (false, true, true)] {
            let o = Opts { emit_package: emit, use_arc_self: arc, default_stubs: stubs, ..Opts::plain(true, true) };
            ctx.gen_prost("corpus.gen.protos.fds_file", &pf, &o, Via::ProtosNoRun);
            if protoc {
                ctx.gen_prost("corpus.gen.protos.protoc", &pf, &o, Via::Protos);
            }
        }
        if protoc {
            ctx.gen_prost("corpus.gen.protos.simple", &pf, &Opts::plain(true, true), Via::Simple);
        }
    }
    e2e::run(&mut ctx, &mut r, if a.thorough { 40 } else { 6 });
    #[cfg(feature = "fixture")]
    e2e_prost::run(&mut ctx, &mut r, if a.thorough { 40 } else { 8 });
    #[cfg(not(feature = "fixture"))]
    ctx.out.push(Case { kind: "e2e.prost".into(), input: json!({"fixture": "fixture/demo.proto, default options and no-package + Arc<Self> + default stubs"}), model: "Nd []".into(), impl_obs: Tr::L(vec![]), oracle: Some("the code generated for the e2e fixture no longer compiles against an implementation of its service trait written for the unchanged generator (method signatures / associated types changed)".into()), nontrivial: true });

    // ---- generated ----
    let (n_tok, n_bad, n_man, n_prost, n_protos) = if a.thorough { (6000, 1500, 800, 900, 240) } else { (600, 200, 100, 120, 30) };
    for i in 0..n_tok + n_bad {
        let malformed = i >= n_tok;
        let s = gen_sdesc(&mut r, malformed);
        let o = gen_opts(&mut r, true);
        ctx.gen_tokens(if malformed { "gen.tokens.malformed" } else { "gen.tokens" }, &s, &o);
    }
    for i in 0..n_man {
        let malformed = i % 5 == 4;
        let mut s = gen_sdesc(&mut r, malformed);
        if s.name.contains('/') || s.package.contains('/') {
            s.name = "Svc".into(); // compile() writes "<package>.<name>.rs"
        }
        let mut o = gen_opts(&mut r, false);
        o.emit_package = true;
        o.use_arc_self = false;
        o.default_stubs = false;
        ctx.gen_manual_file(if malformed { "gen.manual.malformed" } else { "gen.manual" }, &s, &o);
    }
    for _ in 0..n_prost {
        let pf = gen_pfile(&mut r);
        let o = gen_popts(&mut r);
        ctx.gen_prost("gen.prost", &pf, &o, Via::Fds);
    }
    for i in 0..n_protos {
        let pf = gen_pfile(&mut r);
        let o = gen_popts(&mut r);
        match i % 3 {
            0 => ctx.gen_prost("gen.protos.fds_file", &pf, &o, Via::ProtosNoRun),
            1 if protoc => ctx.gen_prost("gen.protos.protoc", &pf, &o, Via::Protos),
            2 if protoc => ctx.gen_prost("gen.protos.simple", &pf, &o, Via::Simple),
            _ => {}
        }
    }

    let _ = std::fs::remove_dir_all(&scratch);
    let regen = std::mem::take(&mut ctx.regen);
    let committed = std::mem::take(&mut ctx.committed);
    let _ = std::fs::remove_dir("/tmp/codegen"); // only if no other run is using it
    ctx.out.finish(
        IMPORTS,
        "gen.tokens / gen.manual: random tonic_build::manual descriptors (package absent / single / nested, CamelCase / snake / digit / acronym identifiers, Rust keywords as raw method names, 0..9 methods over the four streaming kinds, type strings with insignificant white space) x options (emit_package, use_arc_self, generate_default_stubs, client only / server only / both) through CodeGenBuilder / manual::Builder::compile; *.malformed and corpus.names.*: the same with names that are not identifiers, bare reserved words, types and codec paths that are not paths (outcome: generated / panic / unparsable; the oracle judges only well-formed descriptors, the tie judges all); gen.prost: random .proto files (1..3 services, names that prost-build re-cases or mangles, message types: same file, nested, google.protobuf.Empty / Timestamp, imported package, extern_path) compiled by protox and fed to tonic_build::configure()..compile_fds with emit_package / arc self / default stubs / compile_well_known_types / proto_path / sides varied; gen.protos.*: the same through compile_protos (protoc), compile_protos with skip_protoc_run + file_descriptor_set_path, and tonic_build::compile_protos; committed.*: the committed generated sources against their .proto files; regen.*: byte comparison with a fresh run of /repo/codegen's own codegen(); e2e: generated clients called through Routes carrying generated servers. Non-trivial = at least one method. Distinct = distinct (kind, model expression).",
        json!({"committed_sources_equal_generator_output": regen, "committed_sources_vs_proto": committed,
               "bootstrap_generator": "/repo/codegen/src/main.rs `codegen` (included verbatim), argument table parsed from its `main`",
               "protoc_available": protoc}),
    );
}
