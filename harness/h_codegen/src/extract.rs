//! syn-based extraction of what the property speaks about from generated client / server code
//! (token streams of the real generators, files written by them, files committed in /repo).
use quote::ToTokens;
use syn::visit::Visit;

pub const SHAPES: [&str; 4] = ["unary", "server_streaming", "client_streaming", "streaming"];
pub fn shape_code(s: &str) -> u32 {
    SHAPES.iter().position(|x| *x == s).map(|i| i as u32).unwrap_or(9)
}
pub fn shape_of(cs: bool, ss: bool) -> &'static str {
    match (cs, ss) {
        (false, false) => "unary",
        (false, true) => "server_streaming",
        (true, false) => "client_streaming",
        (true, true) => "streaming",
    }
}
/// token text without any white space
pub fn toks<T: ToTokens>(t: &T) -> String {
    t.to_token_stream().to_string().chars().filter(|c| !c.is_whitespace()).collect()
}

#[derive(Clone, Debug, Default, PartialEq)]
pub struct ClientFn {
    pub fn_name: String,
    pub paths: Vec<String>,                 // PathAndQuery::from_static("..") literals (expected: 1)
    pub calls: Vec<String>,                 // self.inner.<shape>(..) (expected: 1)
    pub grpc_methods: Vec<(String, String)>, // GrpcMethod::new("..", "..") (expected: 1)
    pub sig_shape: String,                  // from the signature: IntoRequest / IntoStreamingRequest, Streaming<..>
    pub req_streaming: bool,                // request: impl IntoStreamingRequest<Message = Req>
    pub resp_streaming: bool,               // -> Result<Response<Streaming<Resp>>, Status>
    pub req: String,
    pub resp: String,
}
#[derive(Clone, Debug, Default, PartialEq)]
pub struct ClientMod {
    pub mod_name: String,
    pub structs: Vec<String>, // pub struct <Name>Client<T> (expected: 1)
    pub fns: Vec<ClientFn>,
    pub has_connect: bool,
}
#[derive(Clone, Debug, Default, PartialEq)]
pub struct Arm {
    pub literal: String,
    pub kinds: Vec<String>,      // impl tonic::server::<Kind>Service<Req> (expected: 1), as a shape
    pub grpc_calls: Vec<String>, // grpc.<shape>(method, req) (expected: 1)
    pub fn_names: Vec<String>,   // <T as Trait>::<fn>(..) (expected: 1)
    pub traits: Vec<String>,     // <T as <Trait>>::fn(..) (expected: 1)
    pub inner_by_value: Vec<bool>, // receiver argument of that call: by value (true) / by reference (false) (expected: 1)
    pub req: String,
    pub resp: String,
    pub response_stream: Option<Resp>, // type ResponseStream = T::<X>Stream | BoxStream<Resp>
    pub call_req_streaming: Vec<bool>, // fn call(&mut self, request: Request<Streaming<Req>>) (expected: 1)
}
/// what is inside tonic::Response<..>
#[derive(Clone, Debug, PartialEq)]
pub enum Resp {
    Plain(String),
    Assoc(String), // Self::<X>Stream / T::<X>Stream
    Boxed(String), // BoxStream<Resp>
}
impl Default for Resp {
    fn default() -> Self {
        Resp::Plain(String::new())
    }
}
impl Resp {
    pub fn is_stream(&self) -> bool {
        !matches!(self, Resp::Plain(_))
    }
}
#[derive(Clone, Debug, Default, PartialEq)]
pub struct TraitFn {
    pub name: String,
    pub shape: String,
    pub req: String,
    pub resp: String, // "" when the response is an associated stream type (no default stubs)
    pub assoc: Option<(String, String)>, // `type <X>Stream: Stream<Item = Result<Resp, Status>>` right before the fn
    pub arc_self: Option<bool>,          // self: Arc<Self> (true) / &self (false); None: something else
    pub req_streaming: bool,
    pub resp_ty: Resp,
    pub default_body: bool,
}
#[derive(Clone, Debug, Default, PartialEq)]
pub struct ServerMod {
    pub mod_name: String,
    pub traits: Vec<String>,  // pub trait <Name> (expected: 1)
    pub structs: Vec<String>, // pub struct <Name>Server<T> (expected: 1)
    pub service_name: Option<String>,
    pub named_is_service_name: bool,
    pub named_value: Option<String>, // NamedService::NAME resolved to a string (a literal, or SERVICE_NAME's literal)
    pub arms: Vec<Arm>,
    pub default_arms: usize,
    pub default_unimplemented: bool,
    pub trait_fns: Vec<TraitFn>,
    pub non_literal_arms: usize,
}

fn last_two(p: &syn::Path) -> (String, String) {
    let n = p.segments.len();
    let l = p.segments.last().map(|s| s.ident.to_string()).unwrap_or_default();
    let k = if n >= 2 { p.segments[n - 2].ident.to_string() } else { String::new() };
    (k, l)
}
fn lit_str(e: &syn::Expr) -> Option<String> {
    match e {
        syn::Expr::Lit(syn::ExprLit { lit: syn::Lit::Str(s), .. }) => Some(s.value()),
        _ => None,
    }
}
/// first generic type argument of the last path segment: `a::B<T, ..>` -> T
fn first_type_arg(t: &syn::Type) -> Option<syn::Type> {
    if let syn::Type::Path(tp) = t {
        if let Some(seg) = tp.path.segments.last() {
            if let syn::PathArguments::AngleBracketed(ab) = &seg.arguments {
                for a in &ab.args {
                    if let syn::GenericArgument::Type(t) = a {
                        return Some(t.clone());
                    }
                }
            }
        }
    }
    None
}
fn last_ident(t: &syn::Type) -> String {
    match t {
        syn::Type::Path(tp) => tp.path.segments.last().map(|s| s.ident.to_string()).unwrap_or_default(),
        _ => String::new(),
    }
}
/// `Result<tonic::Response<X>, tonic::Status>` -> X
fn result_response_inner(out: &syn::ReturnType) -> Option<syn::Type> {
    if let syn::ReturnType::Type(_, t) = out {
        if last_ident(t) == "Result" {
            if let Some(resp) = first_type_arg(t) {
                if last_ident(&resp) == "Response" {
                    return first_type_arg(&resp);
                }
            }
        }
    }
    None
}

// ------------------------------------------------------------------ client
#[derive(Default)]
struct ClientBody {
    paths: Vec<String>,
    calls: Vec<String>,
    grpc_methods: Vec<(String, String)>,
}
impl<'a> Visit<'a> for ClientBody {
    fn visit_expr_call(&mut self, c: &'a syn::ExprCall) {
        if let syn::Expr::Path(p) = &*c.func {
            let (k, l) = last_two(&p.path);
            if k == "PathAndQuery" && l == "from_static" {
                if let Some(s) = c.args.first().and_then(lit_str) {
                    self.paths.push(s);
                }
            }
            if k == "GrpcMethod" && l == "new" && c.args.len() == 2 {
                if let (Some(a), Some(b)) = (lit_str(&c.args[0]), lit_str(&c.args[1])) {
                    self.grpc_methods.push((a, b));
                }
            }
        }
        syn::visit::visit_expr_call(self, c);
    }
    fn visit_expr_method_call(&mut self, m: &'a syn::ExprMethodCall) {
        let name = m.method.to_string();
        if SHAPES.contains(&name.as_str()) && m.args.len() == 3 {
            self.calls.push(name);
        }
        syn::visit::visit_expr_method_call(self, m);
    }
}
fn client_fn(f: &syn::ImplItemFn) -> Option<ClientFn> {
    let mut b = ClientBody::default();
    b.visit_block(&f.block);
    if b.paths.is_empty() && b.calls.is_empty() && b.grpc_methods.is_empty() {
        return None; // new / with_origin / send_compressed / ...
    }
    // signature
    let mut cs = false;
    let mut req = String::new();
    if let Some(syn::FnArg::Typed(pt)) = f.sig.inputs.iter().nth(1) {
        if let syn::Type::ImplTrait(it) = &*pt.ty {
            if let Some(syn::TypeParamBound::Trait(tb)) = it.bounds.first() {
                if let Some(seg) = tb.path.segments.last() {
                    cs = seg.ident == "IntoStreamingRequest";
                    if let syn::PathArguments::AngleBracketed(ab) = &seg.arguments {
                        for a in &ab.args {
                            match a {
                                syn::GenericArgument::Type(t) => req = toks(t),
                                syn::GenericArgument::AssocType(at) => req = toks(&at.ty),
                                _ => {}
                            }
                        }
                    }
                }
            }
        }
    }
    let mut ss = false;
    let mut resp = String::new();
    if let Some(inner) = result_response_inner(&f.sig.output) {
        if last_ident(&inner) == "Streaming" {
            ss = true;
            resp = first_type_arg(&inner).map(|t| toks(&t)).unwrap_or_default();
        } else {
            resp = toks(&inner);
        }
    }
    Some(ClientFn {
        fn_name: f.sig.ident.to_string(),
        paths: b.paths,
        calls: b.calls,
        grpc_methods: b.grpc_methods,
        sig_shape: shape_of(cs, ss).to_string(),
        req_streaming: cs,
        resp_streaming: ss,
        req,
        resp,
    })
}
fn client_mod(m: &syn::ItemMod) -> Option<ClientMod> {
    let (_, items) = m.content.as_ref()?;
    let mut out = ClientMod { mod_name: m.ident.to_string(), ..Default::default() };
    for it in items {
        if let syn::Item::Struct(st) = it {
            out.structs.push(st.ident.to_string());
        }
        if let syn::Item::Impl(im) = it {
            if im.trait_.is_some() {
                continue;
            }
            for ii in &im.items {
                if let syn::ImplItem::Fn(f) = ii {
                    if f.sig.ident == "connect" {
                        out.has_connect = true;
                    }
                    if let Some(cf) = client_fn(f) {
                        out.fns.push(cf);
                    }
                }
            }
        }
    }
    Some(out)
}

// ------------------------------------------------------------------ server
#[derive(Default)]
struct ArmBody {
    kinds: Vec<String>,
    grpc_calls: Vec<String>,
    fn_names: Vec<String>,
    traits: Vec<String>,
    inner_by_value: Vec<bool>,
    req: String,
    resp: String,
    response_stream: Option<Resp>,
    call_req_streaming: Vec<bool>,
}
/// `T::<X>Stream` / `Self::<X>Stream` -> Assoc(X Stream), `BoxStream<R>` -> Boxed(R), else Plain
fn resp_of(t: &syn::Type) -> Resp {
    if let syn::Type::Path(tp) = t {
        if tp.qself.is_none() && tp.path.segments.len() == 2 {
            let first = tp.path.segments[0].ident.to_string();
            if first == "T" || first == "Self" {
                return Resp::Assoc(tp.path.segments[1].ident.to_string());
            }
        }
    }
    if last_ident(t) == "BoxStream" {
        return Resp::Boxed(first_type_arg(t).map(|t| toks(&t)).unwrap_or_default());
    }
    Resp::Plain(toks(t))
}
impl<'a> Visit<'a> for ArmBody {
    fn visit_item_impl(&mut self, im: &'a syn::ItemImpl) {
        if let Some((_, p, _)) = &im.trait_ {
            if let Some(seg) = p.segments.last() {
                let kind = match seg.ident.to_string().as_str() {
                    "UnaryService" => Some("unary"),
                    "ServerStreamingService" => Some("server_streaming"),
                    "ClientStreamingService" => Some("client_streaming"),
                    "StreamingService" => Some("streaming"),
                    _ => None,
                };
                if let Some(k) = kind {
                    self.kinds.push(k.to_string());
                    if let syn::PathArguments::AngleBracketed(ab) = &seg.arguments {
                        if let Some(syn::GenericArgument::Type(t)) = ab.args.first() {
                            self.req = toks(t);
                        }
                    }
                    for ii in &im.items {
                        if let syn::ImplItem::Type(ty) = ii {
                            if ty.ident == "Response" {
                                self.resp = toks(&ty.ty);
                            }
                            if ty.ident == "ResponseStream" {
                                self.response_stream = Some(resp_of(&ty.ty));
                            }
                        }
                        if let syn::ImplItem::Fn(f) = ii {
                            if f.sig.ident == "call" {
                                // request: tonic::Request<Req> / tonic::Request<tonic::Streaming<Req>>
                                if let Some(syn::FnArg::Typed(pt)) = f.sig.inputs.iter().nth(1) {
                                    let inner = first_type_arg(&pt.ty);
                                    self.call_req_streaming.push(inner.map(|t| last_ident(&t) == "Streaming").unwrap_or(false));
                                }
                            }
                        }
                    }
                }
            }
        }
        syn::visit::visit_item_impl(self, im);
    }
    fn visit_expr_call(&mut self, c: &'a syn::ExprCall) {
        if let syn::Expr::Path(p) = &*c.func {
            if p.qself.is_some() {
                if let Some(seg) = p.path.segments.last() {
                    self.fn_names.push(seg.ident.to_string());
                }
                // <T as a::Trait>::f : the trait is the segment before the last one
                let n = p.path.segments.len();
                if n >= 2 {
                    self.traits.push(p.path.segments[n - 2].ident.to_string());
                }
                // the receiver argument: passed by value (Arc<T>) or by reference (&T), whatever it is called
                if let Some(a0) = c.args.first() {
                    self.inner_by_value.push(!matches!(a0, syn::Expr::Reference(_)));
                }
            }
        }
        syn::visit::visit_expr_call(self, c);
    }
    fn visit_expr_method_call(&mut self, m: &'a syn::ExprMethodCall) {
        let name = m.method.to_string();
        if SHAPES.contains(&name.as_str()) && m.args.len() == 2 {
            self.grpc_calls.push(name);
        }
        syn::visit::visit_expr_method_call(self, m);
    }
}
struct FindMatch<'a> {
    found: Vec<&'a syn::ExprMatch>,
}
impl<'a> Visit<'a> for FindMatch<'a> {
    fn visit_expr_match(&mut self, m: &'a syn::ExprMatch) {
        if toks(&m.expr).ends_with(".uri().path()") {
            self.found.push(m);
        }
        syn::visit::visit_expr_match(self, m);
    }
}
fn server_mod(m: &syn::ItemMod) -> Option<ServerMod> {
    let (_, items) = m.content.as_ref()?;
    let mut out = ServerMod { mod_name: m.ident.to_string(), ..Default::default() };
    for it in items {
        match it {
            syn::Item::Const(c) if c.ident == "SERVICE_NAME" => {
                out.service_name = lit_str(&c.expr);
            }
            syn::Item::Struct(st) => out.structs.push(st.ident.to_string()),
            syn::Item::Trait(t) => {
                out.traits.push(t.ident.to_string());
                let mut pending: Option<(String, String)> = None;
                for ti in &t.items {
                    if let syn::TraitItem::Type(ty) = ti {
                        // type <X>Stream: Stream<Item = Result<Resp, Status>> + Send + 'static
                        let mut item = String::new();
                        for bnd in &ty.bounds {
                            if let syn::TypeParamBound::Trait(tb) = bnd {
                                if let Some(seg) = tb.path.segments.last() {
                                    if let syn::PathArguments::AngleBracketed(ab) = &seg.arguments {
                                        for a in &ab.args {
                                            if let syn::GenericArgument::AssocType(at) = a {
                                                if at.ident == "Item" {
                                                    item = first_type_arg(&at.ty).map(|t| toks(&t)).unwrap_or_default();
                                                }
                                            }
                                        }
                                    }
                                }
                            }
                        }
                        pending = Some((ty.ident.to_string(), item));
                    }
                    if let syn::TraitItem::Fn(f) = ti {
                        let mut cs = false;
                        let mut req = String::new();
                        if let Some(syn::FnArg::Typed(pt)) = f.sig.inputs.iter().nth(1) {
                            if let Some(inner) = first_type_arg(&pt.ty) {
                                if last_ident(&inner) == "Streaming" {
                                    cs = true;
                                    req = first_type_arg(&inner).map(|t| toks(&t)).unwrap_or_default();
                                } else {
                                    req = toks(&inner);
                                }
                            }
                        }
                        let mut ss = false;
                        let mut resp = String::new();
                        let mut resp_ty = Resp::default();
                        if let Some(inner) = result_response_inner(&f.sig.output) {
                            let s = toks(&inner);
                            resp_ty = resp_of(&inner);
                            if s.starts_with("Self::") {
                                ss = true;
                            } else if last_ident(&inner) == "BoxStream" {
                                ss = true;
                                resp = first_type_arg(&inner).map(|t| toks(&t)).unwrap_or_default();
                            } else {
                                resp = s;
                            }
                        }
                        let arc_self = match f.sig.inputs.first() {
                            Some(syn::FnArg::Receiver(r)) => match (r.colon_token.is_some(), r.reference.is_some(), r.mutability.is_some()) {
                                (false, true, false) => Some(false),
                                (true, false, false) if toks(&r.ty) == "std::sync::Arc<Self>" => Some(true),
                                _ => None,
                            },
                            _ => None,
                        };
                        out.trait_fns.push(TraitFn {
                            name: f.sig.ident.to_string(),
                            shape: shape_of(cs, ss).to_string(),
                            req,
                            resp,
                            assoc: pending.take(),
                            arc_self,
                            req_streaming: cs,
                            resp_ty,
                            default_body: f.default.is_some(),
                        });
                    }
                }
            }
            syn::Item::Impl(im) => {
                let tr = im.trait_.as_ref().and_then(|(_, p, _)| p.segments.last().map(|s| s.ident.to_string()));
                match tr.as_deref() {
                    Some("NamedService") => {
                        for ii in &im.items {
                            if let syn::ImplItem::Const(c) = ii {
                                if c.ident == "NAME" {
                                    out.named_is_service_name = toks(&c.expr) == "SERVICE_NAME";
                                    out.named_value = lit_str(&c.expr);
                                }
                            }
                        }
                    }
                    Some("Service") => {
                        let mut fm = FindMatch { found: vec![] };
                        fm.visit_item_impl(im);
                        for mt in fm.found {
                            for arm in &mt.arms {
                                match &arm.pat {
                                    syn::Pat::Lit(l) => {
                                        if let syn::Lit::Str(s) = &l.lit {
                                            let mut b = ArmBody::default();
                                            b.visit_expr(&arm.body);
                                            out.arms.push(Arm {
                                                literal: s.value(),
                                                kinds: b.kinds,
                                                grpc_calls: b.grpc_calls,
                                                fn_names: b.fn_names,
                                                traits: b.traits,
                                                inner_by_value: b.inner_by_value,
                                                req: b.req,
                                                resp: b.resp,
                                                response_stream: b.response_stream,
                                                call_req_streaming: b.call_req_streaming,
                                            });
                                        } else {
                                            out.non_literal_arms += 1;
                                        }
                                    }
                                    syn::Pat::Wild(_) => {
                                        out.default_arms += 1;
                                        let t = toks(&arm.body);
                                        out.default_unimplemented = t.contains("tonic::Code::Unimplemented")
                                            && t.contains("tonic::Status::GRPC_STATUS")
                                            && arm.guard.is_none();
                                    }
                                    _ => out.non_literal_arms += 1,
                                }
                                if arm.guard.is_some() {
                                    out.non_literal_arms += 1;
                                }
                            }
                        }
                    }
                    _ => {}
                }
            }
            _ => {}
        }
    }
    if out.named_is_service_name {
        out.named_value = out.service_name.clone();
    }
    Some(out)
}

/// all generated client / server modules of a file, in order of appearance
pub fn extract(file: &syn::File) -> (Vec<ClientMod>, Vec<ServerMod>) {
    let mut cs = vec![];
    let mut ss = vec![];
    fn walk(items: &[syn::Item], cs: &mut Vec<ClientMod>, ss: &mut Vec<ServerMod>) {
        for it in items {
            if let syn::Item::Mod(m) = it {
                let name = m.ident.to_string();
                if name.ends_with("_client") {
                    if let Some(c) = client_mod(m) {
                        if !c.fns.is_empty() || m.content.as_ref().map(|c| toks(&c.1.first()).contains("tonic::codegen")).unwrap_or(false) {
                            cs.push(c);
                            continue;
                        }
                    }
                }
                if name.ends_with("_server") {
                    if let Some(s) = server_mod(m) {
                        if s.service_name.is_some() {
                            ss.push(s);
                            continue;
                        }
                    }
                }
                if let Some((_, items)) = &m.content {
                    walk(items, cs, ss);
                }
            }
        }
    }
    walk(&file.items, &mut cs, &mut ss);
    (cs, ss)
}
