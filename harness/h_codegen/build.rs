//! e2e fixture: REAL clients and servers generated at build time by /repo's tonic-build through
//! the prost path (protox -> tonic_build::configure()..compile_fds), once with default options and
//! once with disable_package_emission + use_arc_self + generate_default_stubs.
use std::path::PathBuf;

fn main() {
    if std::env::var("CARGO_FEATURE_FIXTURE").is_err() {
        return;
    }
    let out = PathBuf::from(std::env::var("OUT_DIR").unwrap());
    let src = PathBuf::from(std::env::var("CARGO_MANIFEST_DIR").unwrap()).join("fixture");
    let fds = protox::compile([src.join("demo.proto")], [&src]).unwrap();
    for (dir, opts) in [("fx_default", false), ("fx_opts", true)] {
        let d = out.join(dir);
        std::fs::create_dir_all(&d).unwrap();
        let mut b = tonic_build::configure().build_transport(false).emit_rerun_if_changed(false).out_dir(&d);
        if opts {
            b = b.disable_package_emission().use_arc_self(true).generate_default_stubs(true);
        }
        b.compile_fds(fds.clone()).unwrap();
    }
    println!("cargo:rerun-if-changed=build.rs");
    println!("cargo:rerun-if-changed=fixture/demo.proto");
    println!("cargo:rerun-if-changed=/repo/tonic-build/src");
}
