//! Thorough tier, kind `h2.*`: the same call scripts over a REAL hyper HTTP/2 client connection
//! and a REAL hyper HTTP/2 server connection joined by `tokio::io::duplex(256)`, with small flow
//! control windows so that bodies are fragmented and interleaved by h2 itself.  The schedule is
//! not controlled, therefore only the final observables are compared with the model
//! (`obs_call_h2`), and metadata maps are compared on the names the case itself uses (hyper adds
//! `date`, `content-length`, ... of its own).
use crate::*;
use hyper_util::rt::{TokioExecutor, TokioIo};
use std::time::Duration;

struct H2Svc(hyper::client::conn::http2::SendRequest<tonic::body::Body>);
impl tower_service::Service<http::Request<tonic::body::Body>> for H2Svc {
    type Response = http::Response<hyper::body::Incoming>;
    type Error = hyper::Error;
    type Future = Pin<Box<dyn Future<Output = Result<Self::Response, hyper::Error>> + Send>>;
    fn poll_ready(&mut self, cx: &mut Context<'_>) -> Poll<Result<(), hyper::Error>> {
        self.0.poll_ready(cx)
    }
    fn call(&mut self, req: http::Request<tonic::body::Body>) -> Self::Future {
        Box::pin(self.0.send_request(req))
    }
}

async fn one_call(c: &CallCase, h: H) -> Result<ClientResult, String> {
    let (cio, sio) = tokio::io::duplex(256);
    let shape = c.shape;
    let server = tokio::spawn(async move {
        let svc = hyper::service::service_fn(move |req: http::Request<hyper::body::Incoming>| {
            let h = h.clone();
            async move { Ok::<_, std::convert::Infallible>(serve(shape, h, req).await) }
        });
        let _ = hyper::server::conn::http2::Builder::new(TokioExecutor::new())
            .max_frame_size(16384)
            .initial_stream_window_size(61)
            .initial_connection_window_size(127)
            .serve_connection(TokioIo::new(sio), svc)
            .await;
    });
    let (send, conn) = hyper::client::conn::http2::Builder::new(TokioExecutor::new())
        .initial_stream_window_size(53)
        .initial_connection_window_size(101)
        .handshake::<_, tonic::body::Body>(TokioIo::new(cio))
        .await
        .map_err(|e| format!("handshake: {}", e))?;
    let conn = tokio::spawn(async move {
        let _ = conn.await;
    });
    let r = client_side_origin(c, H2Svc(send), Some(http::Uri::from_static("http://verif.test"))).await;
    conn.abort();
    server.abort();
    Ok(r)
}

fn user_keys(c: &CallCase) -> Vec<String> {
    let mut ks: Vec<String> = vec![];
    let mut add = |md: &Md| {
        for (k, _) in md {
            if !RESERVED.contains(&k.as_str()) && !ks.contains(k) {
                ks.push(k.clone());
            }
        }
    };
    add(&c.md);
    match &c.handler {
        Handler::Err(s) => add(&s.md),
        Handler::Ok(md, items) => {
            add(md);
            for i in items {
                if let Item::Err(s) = i {
                    add(&s.md);
                }
            }
        }
    }
    ks
}
fn restrict(m: &HeaderMap, keys: &[String]) -> HeaderMap {
    let mut out = HeaderMap::new();
    for (k, v) in m.iter() {
        if keys.iter().any(|x| x == k.as_str()) {
            out.append(k.clone(), v.clone());
        }
    }
    out
}
fn restrict_status(s: &Status, keys: &[String]) -> Status {
    Status::with_details_and_metadata(s.code(), s.message().to_string(), Bytes::copy_from_slice(s.details()), MetadataMap::from_headers(restrict(&s.metadata().clone().into_headers(), keys)))
}
fn restrict_end(e: &End, keys: &[String]) -> End {
    match e {
        End::Ok => End::Ok,
        End::Unread => End::Unread,
        End::Err(s) => End::Err(restrict_status(s, keys)),
    }
}

pub fn run_case(out: &mut Out, kind: &str, c: &CallCase) {
    let seen = Arc::new(Mutex::new(Seen::NotCalled));
    let h = H { handler: Arc::new(c.handler.clone()), seen: seen.clone(), reads: c.reads, sv: Arc::new(c.sv.clone()) };
    POLLED_AFTER_END.store(0, std::sync::atomic::Ordering::SeqCst);
    STRICT_PANICS.store(false, std::sync::atomic::Ordering::SeqCst);
    let rt = tokio::runtime::Builder::new_current_thread().enable_time().build().unwrap();
    let res = rt.block_on(async { tokio::time::timeout(Duration::from_secs(20), one_call(c, h)).await });
    drop(rt);
    let seen = seen.lock().unwrap().clone();
    let keys = user_keys(c);
    let fuel = 16 + c.req.len() + match &c.handler { Handler::Ok(_, i) => i.len(), _ => 0 };
    let model = format!(
        "obs_call_h2 {} {} {} {} {} {} {} {}",
        coq_list(&keys, |k| coq_bytes(k.as_bytes())),
        sides_expr(c),
        c.shape,
        coq_md(&c.md),
        req_expr(c),
        coq_opt(&c.reads, |n| n.to_string()),
        handler_expr(c),
        fuel
    );
    let (obs, oracle) = match res {
        Err(_) => (Tr::L(vec![Tr::L(vec![Tr::n(8u8)]), Tr::L(vec![Tr::n(8u8)])]), Some("the call over h2 did not complete within 20 s".to_string())),
        Ok(Err(e)) => (Tr::L(vec![Tr::L(vec![Tr::n(9u8)]), Tr::L(vec![Tr::n(9u8)])]), Some(e)),
        Ok(Ok(r)) => {
            let o = if in_domain(c) { judge(c, &r, &seen) } else { None };
            let n = POLLED_AFTER_END.load(std::sync::atomic::Ordering::SeqCst);
            let o = if o.is_none() && n > 0 { Some(format!("a message stream was polled {} time(s) after it had returned None", n)) } else { o };
            // F-C06b (known finding): ONLY inside its class - client role, real h2, a request
            // message strictly over the client's max_encoding_message_size.  What is guaranteed /
            // observed inside the class is still checked (and reported untagged); the tag goes on
            // the one verdict the finding is about: the caller does not see OUT_OF_RANGE.
            let in_class = c.cl.max_enc.map(|l| c.req.iter().any(|i| matches!(i, Item::Ok(m) if m.len() > l))).unwrap_or(false) && c.cl.is_plain();
            let o = if in_class { judge_reset_class(c, &r, &seen, n) } else { o };
            let rr = match &r {
                ClientResult::Err(s) => ClientResult::Err(restrict_status(s, &keys)),
                ClientResult::Unary(md, m) => ClientResult::Unary(restrict(md, &keys), m.clone()),
                ClientResult::Stream(md, ms, e) => ClientResult::Stream(restrict(md, &keys), ms.clone(), restrict_end(e, &keys)),
            };
            let ss = match &seen {
                Seen::NotCalled => Seen::NotCalled,
                Seen::Unary(md, m) => Seen::Unary(restrict(md, &keys), m.clone()),
                Seen::Stream(md, ms, e) => Seen::Stream(restrict(md, &keys), ms.clone(), restrict_end(e, &keys)),
            };
            let rejected = if matches!(seen, Seen::NotCalled) { reject_code(&r) } else { None };
            (Tr::L(vec![result_tr_pub(&rr), seen_tr_code(&ss, rejected), Tr::n(n as u64)]), o)
        }
    };
    describe(out, "h2", c);
    out.push(vcommon::Case { kind: kind.to_string(), input: case_json(c), model, impl_obs: obs, oracle, nontrivial: true });
}

/// inside the class of F-C06b: the checks that must still hold, then the known verdict
fn judge_reset_class(c: &CallCase, r: &ClientResult, seen: &Seen, polled_after_end: usize) -> Option<String> {
    let l = c.cl.max_enc.unwrap();
    let sent: Vec<Vec<u8>> = c.req.iter().filter_map(|i| if let Item::Ok(m) = i { Some(m.clone()) } else { None }).collect();
    let first_over = sent.iter().position(|m| m.len() > l).unwrap();
    if polled_after_end > 0 {
        return Some(format!("a message stream was polled {} time(s) after it had returned None", polled_after_end));
    }
    let got = match r {
        ClientResult::Err(s) => s,
        _ => return Some("a request message is over max_encoding_message_size but the call SUCCEEDED".into()),
    };
    match seen {
        Seen::NotCalled => {
            if c.req_streaming() {
                return Some("the handler of a streaming-request shape was not called".into());
            }
        }
        Seen::Unary(..) => return Some("the handler of a unary request was called although the request message was never sent".into()),
        Seen::Stream(_, ms, e) => {
            // nothing of the oversized message or after it; an error, never a clean end
            if ms.len() > first_over || ms.iter().zip(sent.iter()).any(|(a, b)| a != b) {
                return Some("the handler received the oversized message or something after it".into());
            }
            match e {
                End::Err(_) => {}
                End::Unread if c.reads.map(|j| j <= ms.len()).unwrap_or(false) => {}
                _ => return Some(format!("the handler's request stream ended with {:?} although the request body failed", e)),
            }
        }
    }
    if got.code() == Code::OutOfRange {
        return None; // the property holds (the finding does not reproduce: the driver will say so)
    }
    if got.code() != Code::Internal {
        return Some(format!("the caller got {:?}: neither OUT_OF_RANGE nor the INTERNAL that Status::from_error derives from the stream reset", got.code()));
    }
    Some(format!("F-C06b: over a real HTTP/2 connection a request message of {} bytes over max_encoding_message_size({}) ends the call with {:?} {:?}, expected OUT_OF_RANGE", sent[first_over].len(), l, got.code(), got.message()))
}
/// when the handler was not called the server answered with a status of its own: its code is
/// what the client got
fn reject_code(r: &ClientResult) -> Option<u32> {
    match r {
        ClientResult::Err(s) => Some(s.code() as i32 as u32),
        _ => None,
    }
}
pub fn run_all(out: &mut Out, r: &mut Rng, thorough: bool) {
    // the quick tier runs a small subset so that the committed evidence contains h2 cases
    let codes: Vec<u32> = if thorough { (1..17).collect() } else { vec![3, 5, 14] };
    for shape in 0..4u8 {
        for &code in &codes {
            run_case(out, "h2.early", &plain(gen_case(r, shape, 0, Some((0, code)), true, false)));
            if shape >= 2 {
                for k in if thorough { vec![0usize, 1, 3, 5] } else { vec![0usize, 3] } {
                    let p = (code as usize + k) % (k + 1);
                    run_case(out, "h2.stream_err", &plain(gen_case(r, shape, k, Some((p, code)), false, false)));
                }
            }
        }
        for k in 0..6usize {
            for _ in 0..(if thorough { 8 } else { 1 }) {
                run_case(out, "h2.ok", &plain(gen_case(r, shape, k, None, false, false)));
            }
        }
        // larger payloads, so that h2 flow control really cuts the bodies
        for _ in 0..(if thorough { 10 } else { 2 }) {
            let mut c = plain(gen_case(r, shape, 3, None, false, false));
            for i in c.req.iter_mut() {
                if let Item::Ok(m) = i {
                    *m = r.bytes(700);
                }
            }
            if let Handler::Ok(_, items) = &mut c.handler {
                for i in items.iter_mut() {
                    if let Item::Ok(m) = i {
                        *m = r.bytes(900);
                    }
                }
            }
            run_case(out, "h2.big", &c);
        }
        // limits configured on the two Grpc's: server side limits and the client's receiving limit
        limits_for_shape(out, r, shape, thorough, false);
        // compression over h2
        for _ in 0..(if thorough { 12 } else { 2 }) {
            run_case(out, "h2.compress", &plain(gen_compress_case(r, shape)));
        }
    }
    // the handler answers before it has read its request stream
    for _ in 0..(if thorough { 120 } else { 12 }) {
        let shape = if r.chance(1, 2) { 1 } else { 3 };
        let err = r.chance(1, 2);
        run_case(out, "h2.interleave", &plain(gen_interleave_case(r, shape, err)));
    }
}
fn limits_for_shape(out: &mut Out, r: &mut Rng, shape: u8, thorough: bool, client_enc: bool) {
    // which = 1 (the client's max_encoding_message_size over a real connection) is the KNOWN
    // finding F-C06b: the caller gets INTERNAL "h2 protocol error" instead of OUT_OF_RANGE; it is
    // registered for C06 and therefore runs under ./check C06 (--limits-only) only
    for which in [0u8, 1, 2, 3] {
        if which == 1 && !client_enc {
            continue;
        }
        for (l, len) in [(5usize, 5usize), (5, 6), (100, 101)] {
            if !thorough && l == 100 {
                continue;
            }
            let c = plain(gen_limit_case(r, shape, which, l, len, 1));
            run_case(out, &format!("h2.{}", limit_kind(which, shape)), &c);
        }
    }
}
pub fn run_limits(out: &mut Out, r: &mut Rng, thorough: bool) {
    // corpus witness of F-C06b first: max_encoding_message_size(5), one 6-byte unary request
    let mut w = plain(gen_limit_case(&mut Rng::new(7), 0, 1, 5, 6, 0));
    w.md = vec![];
    w.handler = Handler::Ok(vec![], vec![Item::Ok(vec![])]);
    w.sv.via_apply = false;
    run_case(out, "corpus.h2.limit.client_max_encoding", &w);
    for _ in 0..(if thorough { 6 } else { 1 }) {
        for shape in 0..4u8 {
            limits_for_shape(out, r, shape, true, true);
        }
    }
}
/// the in-process cut / pending lists have no meaning over a real connection
fn plain(mut c: CallCase) -> CallCase {
    c.qcuts = vec![];
    c.qpend = vec![];
    c.pcuts = vec![];
    c.ppend = vec![];
    c
}
