//! the same scripts over a real hyper/h2 connection (filled in below)
use crate::*;
pub fn run_case(_out: &mut Out, _kind: &str, _c: &CallCase) {}
pub fn run_all(_out: &mut Out, _r: &mut Rng) {}
