//! Thorough tier, kind `h2.*`: the same call scripts over a REAL hyper HTTP/2 client connection
//! and a REAL hyper HTTP/2 server connection joined by `tokio::io::duplex(256)`, with small flow
//! control windows so that bodies are fragmented and interleaved by h2 itself.  The schedule is
//! not controlled, therefore only the final observables are compared with the model
//! (`obs_call_h2`), and metadata maps are compared on the names the case itself uses (hyper adds
//! `date`, `content-length`, ... of its own).
use crate::*;
use hyper_util::rt::{TokioExecutor, TokioIo};
use std::time::Duration;

struct H2Svc(hyper::client::conn::http2::SendRequest<tonic::body::Body>);
impl tower_service::Service<http::Request<tonic::body::Body>> for H2Svc {
    type Response = http::Response<hyper::body::Incoming>;
    type Error = hyper::Error;
    type Future = Pin<Box<dyn Future<Output = Result<Self::Response, hyper::Error>> + Send>>;
    fn poll_ready(&mut self, cx: &mut Context<'_>) -> Poll<Result<(), hyper::Error>> {
        self.0.poll_ready(cx)
    }
    fn call(&mut self, req: http::Request<tonic::body::Body>) -> Self::Future {
        Box::pin(self.0.send_request(req))
    }
}

async fn one_call(c: &CallCase, h: H) -> Result<ClientResult, String> {
    let (cio, sio) = tokio::io::duplex(256);
    let shape = c.shape;
    let server = tokio::spawn(async move {
        let svc = hyper::service::service_fn(move |req: http::Request<hyper::body::Incoming>| {
            let h = h.clone();
            async move { Ok::<_, std::convert::Infallible>(serve(shape, h, req).await) }
        });
        let _ = hyper::server::conn::http2::Builder::new(TokioExecutor::new())
            .max_frame_size(16384)
            .initial_stream_window_size(61)
            .initial_connection_window_size(127)
            .serve_connection(TokioIo::new(sio), svc)
            .await;
    });
    let (send, conn) = hyper::client::conn::http2::Builder::new(TokioExecutor::new())
        .initial_stream_window_size(53)
        .initial_connection_window_size(101)
        .handshake::<_, tonic::body::Body>(TokioIo::new(cio))
        .await
        .map_err(|e| format!("handshake: {}", e))?;
    let conn = tokio::spawn(async move {
        let _ = conn.await;
    });
    let r = client_side_origin(c, H2Svc(send), Some(http::Uri::from_static("http://verif.test"))).await;
    conn.abort();
    server.abort();
    Ok(r)
}

fn user_keys(c: &CallCase) -> Vec<String> {
    let mut ks: Vec<String> = vec![];
    let mut add = |md: &Md| {
        for (k, _) in md {
            if !RESERVED.contains(&k.as_str()) && !ks.contains(k) {
                ks.push(k.clone());
            }
        }
    };
    add(&c.md);
    match &c.handler {
        Handler::Err(s) => add(&s.md),
        Handler::Ok(md, items) => {
            add(md);
            for i in items {
                if let Item::Err(s) = i {
                    add(&s.md);
                }
            }
        }
    }
    ks
}
fn restrict(m: &HeaderMap, keys: &[String]) -> HeaderMap {
    let mut out = HeaderMap::new();
    for (k, v) in m.iter() {
        if keys.iter().any(|x| x == k.as_str()) {
            out.append(k.clone(), v.clone());
        }
    }
    out
}
fn restrict_status(s: &Status, keys: &[String]) -> Status {
    Status::with_details_and_metadata(s.code(), s.message().to_string(), Bytes::copy_from_slice(s.details()), MetadataMap::from_headers(restrict(&s.metadata().clone().into_headers(), keys)))
}
fn restrict_end(e: &End, keys: &[String]) -> End {
    match e {
        End::Ok => End::Ok,
        End::Err(s) => End::Err(restrict_status(s, keys)),
    }
}

pub fn run_case(out: &mut Out, kind: &str, c: &CallCase) {
    let seen = Arc::new(Mutex::new(Seen::NotCalled));
    let h = H { handler: Arc::new(c.handler.clone()), seen: seen.clone() };
    let rt = tokio::runtime::Builder::new_current_thread().enable_time().build().unwrap();
    let res = rt.block_on(async { tokio::time::timeout(Duration::from_secs(20), one_call(c, h)).await });
    drop(rt);
    let seen = seen.lock().unwrap().clone();
    let keys = user_keys(c);
    let fuel = 16 + c.req.len() + match &c.handler { Handler::Ok(_, i) => i.len(), _ => 0 };
    let hexpr = match &c.handler {
        Handler::Ok(md, items) => format!("(inl ({}, {}))", coq_hm(&metadata_of(md).into_headers()), coq_list(items, |i| item_coq(i))),
        Handler::Err(s) => format!("(inr {})", st_coq(s)),
    };
    let req: Vec<Item> = if c.req_streaming() { c.req.clone() } else { vec![Item::Ok(first_req_msg(c))] };
    let model = format!(
        "obs_call_h2 {} {} {} {} {} {}",
        coq_list(&keys, |k| coq_bytes(k.as_bytes())),
        c.shape,
        coq_hm(&metadata_of(&c.md).into_headers()),
        coq_list(&req, |i| item_coq(i)),
        hexpr,
        fuel
    );
    let (obs, oracle) = match res {
        Err(_) => (Tr::L(vec![Tr::L(vec![Tr::n(8u8)]), Tr::L(vec![Tr::n(8u8)])]), Some("the call over h2 did not complete within 20 s".to_string())),
        Ok(Err(e)) => (Tr::L(vec![Tr::L(vec![Tr::n(9u8)]), Tr::L(vec![Tr::n(9u8)])]), Some(e)),
        Ok(Ok(r)) => {
            let o = if in_domain(c) { judge(c, &r, &seen) } else { None };
            let rr = match &r {
                ClientResult::Err(s) => ClientResult::Err(restrict_status(s, &keys)),
                ClientResult::Unary(md, m) => ClientResult::Unary(restrict(md, &keys), m.clone()),
                ClientResult::Stream(md, ms, e) => ClientResult::Stream(restrict(md, &keys), ms.clone(), restrict_end(e, &keys)),
            };
            let ss = match &seen {
                Seen::NotCalled => Seen::NotCalled,
                Seen::Unary(md, m) => Seen::Unary(restrict(md, &keys), m.clone()),
                Seen::Stream(md, ms, e) => Seen::Stream(restrict(md, &keys), ms.clone(), restrict_end(e, &keys)),
            };
            (Tr::L(vec![result_tr_pub(&rr), seen_tr_pub(&ss)]), o)
        }
    };
    describe(out, "h2", c);
    out.push(vcommon::Case { kind: kind.to_string(), input: case_json(c), model, impl_obs: obs, oracle, nontrivial: true });
}

pub fn run_all(out: &mut Out, r: &mut Rng) {
    for shape in 0..4u8 {
        for code in 1..17u32 {
            run_case(out, "h2.early", &plain(gen_case(r, shape, 0, Some((0, code)), true, false)));
            if shape >= 2 {
                for k in [0usize, 1, 3, 5] {
                    let p = (code as usize + k) % (k + 1);
                    run_case(out, "h2.stream_err", &plain(gen_case(r, shape, k, Some((p, code)), false, false)));
                }
            }
        }
        for k in 0..6usize {
            for _ in 0..8 {
                run_case(out, "h2.ok", &plain(gen_case(r, shape, k, None, false, false)));
            }
        }
        // larger payloads, so that h2 flow control really cuts the bodies
        for _ in 0..10 {
            let mut c = plain(gen_case(r, shape, 3, None, false, false));
            for i in c.req.iter_mut() {
                if let Item::Ok(m) = i {
                    *m = r.bytes(700);
                }
            }
            if let Handler::Ok(_, items) = &mut c.handler {
                for i in items.iter_mut() {
                    if let Item::Ok(m) = i {
                        *m = r.bytes(900);
                    }
                }
            }
            run_case(out, "h2.big", &c);
        }
    }
}
/// the in-process cut / pending lists have no meaning over a real connection
fn plain(mut c: CallCase) -> CallCase {
    c.qcuts = vec![];
    c.qpend = vec![];
    c.pcuts = vec![];
    c.ppend = vec![];
    c
}
