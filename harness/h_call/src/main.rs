//! C02 correspondence harness: one whole call, client API to handler and back.
//!
//! Deterministic, in process: the REAL `tonic::client::Grpc::{unary, client_streaming,
//! server_streaming, streaming}` over a tower service (`Wire`) that hands the request to the
//! REAL `tonic::server::Grpc::{unary, server_streaming, client_streaming, streaming}` with a
//! scripted handler.  `Wire` is the transport: it collects the frames of the request body and of
//! the response body, re-cuts the DATA bytes at the cut points of the case, inserts the case's
//! Pending answers and keeps the trailers frame last.
//! Thorough tier, kind `h2.*`: the same scripts over a real hyper/h2 connection on
//! `tokio::io::duplex` with a small buffer (final observables only).
//!
//! Model side: `obs_call` (Model/Call.v) = client model |> transport |> server model |> scripted
//! handler |> server model |> transport |> client model.
//!
//! ORACLE (model independent): the client API yields the script's messages in order (the prefix
//! up to the error), succeeds iff the script ended OK, otherwise fails with the handler's code,
//! message and details and with every non-reserved metadata entry the handler attached (initial
//! metadata on Ok paths, status metadata on Err paths); the handler saw exactly the caller's
//! messages and every non-reserved caller metadata entry.
use bytes::{Buf, BufMut, Bytes};
use http::HeaderMap;
use http_body::Body as HttpBody;
use serde_json::{json, Value};
use std::collections::VecDeque;
use std::future::Future;
use std::pin::Pin;
use std::sync::{Arc, Mutex};
use std::task::{Context, Poll};
use tokio_stream::Stream;
use tonic::codec::{BufferSettings, Codec, CompressionEncoding, DecodeBuf, Decoder, EncodeBody, EncodeBuf, Encoder};
use tonic::metadata::{MetadataKey, MetadataMap, MetadataValue};
use tonic::{Code, Request, Response, Status, Streaming};
use vcommon::body::{spin, Ev, ScriptBody};
use vcommon::*;

mod h2run;

const IMPORTS: &str =
    "From Verif Require Import Lib.Bytes Lib.Obs Lib.HeaderMap Model.Status Model.Decoder Model.Codec Model.Call.";
pub const RESERVED: [&str; 6] = ["te", "user-agent", "content-type", "grpc-message", "grpc-message-type", "grpc-status"];
/// header names that are not reserved but that tonic itself interprets (audit M1).  The
/// theorems of Props/C02.v have exactly one premise about them - no `grpc-encoding` entry in
/// any metadata - and the oracle's domain (`in_domain`) is exactly that; the other names are
/// ordinary metadata for the oracle.  `grpc-status-details-bin` in STATUS metadata is inside the
/// domain since fix ed827503 of F-C04e: code, message and DETAILS of the error must be the
/// handler's in every case; only the delivery of that one entry is excused (the reader strips the
/// name, it can never arrive) - `status_matches` requires it to be absent.
const PROTOCOL: [&str; 4] = ["grpc-encoding", "grpc-accept-encoding", "grpc-timeout", "grpc-status-details-bin"];
const MSG_PREFIX: &str = "Error deserializing status message header: ";
const DET_PREFIX: &str = "Error deserializing status details header: ";
const HTTP_PREFIX: &str = "grpc-status header missing, mapped from HTTP status code ";
const UNSUPPORTED_PREFIX: &str = "Content is compressed with `";

// ------------------------------------------------------------------ raw codec
#[derive(Clone, Copy, Debug, Default)]
pub struct RawCodec;
pub struct RawEnc;
impl Encoder for RawEnc {
    type Item = Vec<u8>;
    type Error = Status;
    fn encode(&mut self, item: Vec<u8>, dst: &mut EncodeBuf<'_>) -> Result<(), Status> {
        dst.put_slice(&item);
        Ok(())
    }
    fn buffer_settings(&self) -> BufferSettings {
        BufferSettings::default()
    }
}
pub struct RawDec;
impl Decoder for RawDec {
    type Item = Vec<u8>;
    type Error = Status;
    fn decode(&mut self, src: &mut DecodeBuf<'_>) -> Result<Option<Vec<u8>>, Status> {
        let n = src.remaining();
        Ok(Some(src.copy_to_bytes(n).to_vec()))
    }
}
impl Codec for RawCodec {
    type Encode = Vec<u8>;
    type Decode = Vec<u8>;
    type Encoder = RawEnc;
    type Decoder = RawDec;
    fn encoder(&mut self) -> RawEnc {
        RawEnc
    }
    fn decoder(&mut self) -> RawDec {
        RawDec
    }
}

// ------------------------------------------------------------------ case data
pub type Md = Vec<(String, Vec<u8>)>;
pub fn metadata_of(md: &Md) -> MetadataMap {
    let mut m = MetadataMap::new();
    for (k, v) in md {
        if k.ends_with("-bin") {
            m.append_bin(MetadataKey::from_bytes(k.as_bytes()).unwrap(), MetadataValue::from_bytes(v));
        } else if let Ok(val) = std::str::from_utf8(v).unwrap_or("").parse::<MetadataValue<_>>() {
            m.append(MetadataKey::from_bytes(k.as_bytes()).unwrap(), val);
        }
    }
    m
}
fn md_json(md: &Md) -> Value {
    Value::Array(md.iter().map(|(k, v)| json!([k, hex(v)])).collect())
}
fn md_from_json(v: &Value) -> Md {
    v.as_array().unwrap().iter().map(|e| (e[0].as_str().unwrap().to_string(), unhex(e[1].as_str().unwrap()))).collect()
}
#[derive(Clone, Debug)]
pub struct StSpec {
    pub code: u32,
    pub msg: String,
    pub details: Vec<u8>,
    pub md: Md,
}
impl StSpec {
    pub fn status(&self) -> Status {
        Status::with_details_and_metadata(Code::from_i32(self.code as i32), self.msg.clone(), Bytes::copy_from_slice(&self.details), metadata_of(&self.md))
    }
    fn coq(&self) -> String {
        format!("(mkStatus {} {} {} {})", self.code, coq_bytes(self.msg.as_bytes()), coq_bytes(&self.details), coq_hm(&metadata_of(&self.md).into_headers()))
    }
    fn json(&self) -> Value {
        json!({"code": self.code, "msg": self.msg, "details": hex(&self.details), "md": md_json(&self.md)})
    }
    fn from_json(v: &Value) -> StSpec {
        StSpec { code: v["code"].as_u64().unwrap() as u32, msg: v["msg"].as_str().unwrap().to_string(), details: unhex(v["details"].as_str().unwrap()), md: md_from_json(&v["md"]) }
    }
}
#[derive(Clone, Debug)]
pub enum Item {
    Pending,
    Ok(Vec<u8>),
    Err(StSpec),
}
impl Item {
    fn coq(&self) -> String {
        match self {
            Item::Pending => "(inl None)".into(),
            Item::Ok(m) => format!("(inl (Some {}))", coq_bytes(m)),
            Item::Err(s) => format!("(inr {})", s.coq()),
        }
    }
    fn json(&self) -> Value {
        match self {
            Item::Pending => json!("P"),
            Item::Ok(m) => json!({"ok": hex(m)}),
            Item::Err(s) => json!({"err": s.json()}),
        }
    }
    fn from_json(v: &Value) -> Item {
        if v.as_str() == Some("P") {
            Item::Pending
        } else if let Some(m) = v.get("ok") {
            Item::Ok(unhex(m.as_str().unwrap()))
        } else {
            Item::Err(StSpec::from_json(&v["err"]))
        }
    }
}
#[derive(Clone, Debug)]
pub enum Handler {
    /// Ok(Response { metadata, message | stream }); the unary response shapes use the first item
    Ok(Md, Vec<Item>),
    Err(StSpec),
}
#[derive(Clone, Copy, Debug, PartialEq, Eq)]
pub enum Enc {
    Gzip,
    Deflate,
    Zstd,
}
pub const ENCS: [Enc; 3] = [Enc::Gzip, Enc::Deflate, Enc::Zstd];
impl Enc {
    pub fn num(self) -> u8 {
        match self {
            Enc::Gzip => 0,
            Enc::Deflate => 1,
            Enc::Zstd => 2,
        }
    }
    pub fn from_num(n: u64) -> Enc {
        ENCS[(n % 3) as usize]
    }
    pub fn tonic(self) -> CompressionEncoding {
        match self {
            Enc::Gzip => CompressionEncoding::Gzip,
            Enc::Deflate => CompressionEncoding::Deflate,
            Enc::Zstd => CompressionEncoding::Zstd,
        }
    }
}
/// the configuration of a client::Grpc / server::Grpc
#[derive(Clone, Debug, Default)]
pub struct SideCfg {
    pub max_enc: Option<usize>,
    pub max_dec: Option<usize>,
    /// client: send_compressed
    pub send: Option<Enc>,
    /// accept_compressed, in call order
    pub accept: Vec<Enc>,
    /// server: send_compressed, in call order
    pub send_set: Vec<Enc>,
    /// server: limits set through apply_max_message_size_config instead of the two setters
    pub via_apply: bool,
}
impl SideCfg {
    fn coq(&self) -> String {
        format!(
            "(mk_side {} {} {} {} {})",
            coq_opt(&self.max_enc, |n| n.to_string()),
            coq_opt(&self.max_dec, |n| n.to_string()),
            coq_opt(&self.send, |e| e.num().to_string()),
            coq_list(&self.accept, |e| e.num().to_string()),
            coq_list(&self.send_set, |e| e.num().to_string())
        )
    }
    fn json(&self) -> Value {
        json!({"max_enc": self.max_enc, "max_dec": self.max_dec, "send": self.send.map(|e| e.num()),
               "accept": self.accept.iter().map(|e| e.num()).collect::<Vec<_>>(),
               "send_set": self.send_set.iter().map(|e| e.num()).collect::<Vec<_>>(), "via_apply": self.via_apply})
    }
    fn from_json(v: &Value) -> SideCfg {
        if v.is_null() {
            return SideCfg::default();
        }
        let es = |x: &Value| x.as_array().map(|a| a.iter().map(|y| Enc::from_num(y.as_u64().unwrap())).collect::<Vec<_>>()).unwrap_or_default();
        SideCfg {
            max_enc: v["max_enc"].as_u64().map(|x| x as usize),
            max_dec: v["max_dec"].as_u64().map(|x| x as usize),
            send: v["send"].as_u64().map(Enc::from_num),
            accept: es(&v["accept"]),
            send_set: es(&v["send_set"]),
            via_apply: v["via_apply"].as_bool().unwrap_or(false),
        }
    }
    pub fn is_plain(&self) -> bool {
        self.send.is_none() && self.accept.is_empty() && self.send_set.is_empty()
    }
    pub fn has_limits(&self) -> bool {
        self.max_enc.is_some() || self.max_dec.is_some()
    }
}
#[derive(Clone, Debug)]
pub struct CallCase {
    pub cl: SideCfg,
    pub sv: SideCfg,
    /// how often the handler of a streaming-request shape calls message() before it answers
    /// (None = until the request stream ends)
    pub reads: Option<usize>,
    /// 0 unary, 1 client streaming, 2 server streaming, 3 bidirectional
    pub shape: u8,
    pub md: Md,
    /// the caller's request stream (Ok / Pending only); one Ok for the unary request shapes
    pub req: Vec<Item>,
    pub qcuts: Vec<usize>,
    pub qpend: Vec<usize>,
    pub handler: Handler,
    pub pcuts: Vec<usize>,
    pub ppend: Vec<usize>,
}
impl CallCase {
    pub fn req_streaming(&self) -> bool {
        self.shape == 1 || self.shape == 3
    }
    pub fn resp_streaming(&self) -> bool {
        self.shape == 2 || self.shape == 3
    }
    fn json(&self) -> Value {
        json!({"cl": self.cl.json(), "sv": self.sv.json(), "reads": self.reads,
               "shape": self.shape, "md": md_json(&self.md), "req": self.req.iter().map(|i| i.json()).collect::<Vec<_>>(),
               "qcuts": self.qcuts, "qpend": self.qpend,
               "handler": match &self.handler {
                   Handler::Ok(md, items) => json!({"ok": {"md": md_json(md), "items": items.iter().map(|i| i.json()).collect::<Vec<_>>()}}),
                   Handler::Err(s) => json!({"err": s.json()}),
               },
               "pcuts": self.pcuts, "ppend": self.ppend})
    }
    fn from_json(v: &Value) -> CallCase {
        let us = |x: &Value| x.as_array().unwrap().iter().map(|y| y.as_u64().unwrap() as usize).collect::<Vec<_>>();
        let h = &v["handler"];
        CallCase {
            cl: SideCfg::from_json(&v["cl"]),
            sv: SideCfg::from_json(&v["sv"]),
            reads: v["reads"].as_u64().map(|x| x as usize),
            shape: v["shape"].as_u64().unwrap() as u8,
            md: md_from_json(&v["md"]),
            req: v["req"].as_array().unwrap().iter().map(Item::from_json).collect(),
            qcuts: us(&v["qcuts"]),
            qpend: us(&v["qpend"]),
            handler: if let Some(o) = h.get("ok") { Handler::Ok(md_from_json(&o["md"]), o["items"].as_array().unwrap().iter().map(Item::from_json).collect()) } else { Handler::Err(StSpec::from_json(&h["err"])) },
            pcuts: us(&v["pcuts"]),
            ppend: us(&v["ppend"]),
        }
    }
}

// ------------------------------------------------------------------ scripted streams
// STRICT streams: once they have answered Ready(None) they must not be polled again (a legal
// stream may panic then or produce further items).  Polls after the end are counted and answered
// with a poison message or, in panic mode (in-process kinds), with a panic.
pub static POLLED_AFTER_END: std::sync::atomic::AtomicUsize = std::sync::atomic::AtomicUsize::new(0);
pub static STRICT_PANICS: std::sync::atomic::AtomicBool = std::sync::atomic::AtomicBool::new(false);
const POISON: &[u8] = b"POISON: stream polled after its end";
/// None = stop feeding poison (the run must end so that the verdict can be written)
fn after_end() -> Option<Vec<u8>> {
    let n = POLLED_AFTER_END.fetch_add(1, std::sync::atomic::Ordering::SeqCst);
    if STRICT_PANICS.load(std::sync::atomic::Ordering::SeqCst) {
        panic!("a message stream was polled again after it had returned None");
    }
    if n >= 8 {
        None
    } else {
        Some(POISON.to_vec())
    }
}
pub struct ReqStream(VecDeque<Item>, bool);
impl ReqStream {
    pub fn new(items: &[Item]) -> ReqStream {
        ReqStream(items.iter().cloned().collect(), false)
    }
}
impl Stream for ReqStream {
    type Item = Vec<u8>;
    fn poll_next(mut self: Pin<&mut Self>, cx: &mut Context<'_>) -> Poll<Option<Vec<u8>>> {
        if self.1 {
            return Poll::Ready(after_end());
        }
        loop {
            match self.0.pop_front() {
                Some(Item::Pending) => {
                    cx.waker().wake_by_ref();
                    return Poll::Pending;
                }
                Some(Item::Ok(m)) => return Poll::Ready(Some(m)),
                Some(Item::Err(_)) => continue,
                None => {
                    self.1 = true;
                    return Poll::Ready(None);
                }
            }
        }
    }
}
pub struct RespStream(VecDeque<Item>, bool);
impl RespStream {
    pub fn new(items: &[Item]) -> RespStream {
        RespStream(items.iter().cloned().collect(), false)
    }
}
impl Stream for RespStream {
    type Item = Result<Vec<u8>, Status>;
    fn poll_next(mut self: Pin<&mut Self>, cx: &mut Context<'_>) -> Poll<Option<Self::Item>> {
        if self.1 {
            return Poll::Ready(after_end().map(Ok));
        }
        match self.0.pop_front() {
            Some(Item::Pending) => {
                cx.waker().wake_by_ref();
                Poll::Pending
            }
            Some(Item::Ok(m)) => Poll::Ready(Some(Ok(m))),
            Some(Item::Err(s)) => Poll::Ready(Some(Err(s.status()))),
            None => {
                self.1 = true;
                Poll::Ready(None)
            }
        }
    }
}

// ------------------------------------------------------------------ what was observed
#[derive(Clone, Debug)]
pub enum End {
    Ok,
    Err(Status),
    /// the handler stopped calling message()
    Unread,
}
#[derive(Clone, Debug)]
pub enum Seen {
    NotCalled,
    Unary(HeaderMap, Vec<u8>),
    Stream(HeaderMap, Vec<Vec<u8>>, End),
}
#[derive(Clone, Debug)]
pub enum ClientResult {
    Err(Status),
    Unary(HeaderMap, Vec<u8>),
    Stream(HeaderMap, Vec<Vec<u8>>, End),
}
fn canon_msg(m: &str) -> Vec<u8> {
    if m.starts_with("Error, decoded message length too large: ") {
        // the decoder model carries only the code of the statuses the decoder makes itself
        return vec![];
    }
    for p in [UNSUPPORTED_PREFIX, "h2 protocol error: ", MSG_PREFIX, DET_PREFIX, HTTP_PREFIX] {
        if m.starts_with(p) {
            return p.as_bytes().to_vec();
        }
    }
    m.as_bytes().to_vec()
}
fn status_tr(st: &Status) -> Tr {
    Tr::L(vec![Tr::n(st.code() as i32 as u32), Tr::B(canon_msg(st.message())), Tr::b(st.details()), hm_tr(&st.metadata().clone().into_headers())])
}
fn end_tr(e: &End) -> Tr {
    match e {
        End::Ok => Tr::L(vec![Tr::n(0u8)]),
        End::Err(s) => Tr::L(vec![Tr::n(1u8), status_tr(s)]),
        End::Unread => Tr::L(vec![Tr::n(2u8)]),
    }
}
fn result_tr(r: &ClientResult) -> Tr {
    match r {
        ClientResult::Err(s) => Tr::L(vec![Tr::n(0u8), status_tr(s)]),
        ClientResult::Unary(md, m) => Tr::L(vec![Tr::n(1u8), hm_tr(md), Tr::b(m)]),
        ClientResult::Stream(md, ms, e) => Tr::L(vec![Tr::n(2u8), hm_tr(md), Tr::L(ms.iter().map(|m| Tr::b(m)).collect()), end_tr(e)]),
    }
}
fn seen_tr(s: &Seen, rejected_code: Option<u32>) -> Tr {
    match s {
        Seen::NotCalled => Tr::L(vec![Tr::n(0u8), Tr::n(rejected_code.unwrap_or(999))]),
        Seen::Unary(md, m) => Tr::L(vec![Tr::n(1u8), hm_tr(md), Tr::b(m)]),
        Seen::Stream(md, ms, e) => Tr::L(vec![Tr::n(2u8), hm_tr(md), Tr::L(ms.iter().map(|m| Tr::b(m)).collect()), end_tr(e)]),
    }
}

// ------------------------------------------------------------------ scripted handlers
#[derive(Clone)]
pub struct H {
    pub handler: Arc<Handler>,
    pub seen: Arc<Mutex<Seen>>,
    pub reads: Option<usize>,
    pub sv: Arc<SideCfg>,
}
fn unary_answer(h: &Handler) -> Result<Response<Vec<u8>>, Status> {
    match h {
        Handler::Err(s) => Err(s.status()),
        Handler::Ok(md, items) => {
            let m = items.iter().find_map(|i| if let Item::Ok(m) = i { Some(m.clone()) } else { None }).unwrap_or_default();
            let mut r = Response::new(m);
            *r.metadata_mut() = metadata_of(md);
            Ok(r)
        }
    }
}
fn stream_answer(h: &Handler) -> Result<Response<RespStream>, Status> {
    match h {
        Handler::Err(s) => Err(s.status()),
        Handler::Ok(md, items) => {
            let mut r = Response::new(RespStream::new(items));
            *r.metadata_mut() = metadata_of(md);
            Ok(r)
        }
    }
}
async fn drain_request(mut s: Streaming<Vec<u8>>, reads: Option<usize>) -> (Vec<Vec<u8>>, End) {
    let mut ms = vec![];
    loop {
        if reads == Some(ms.len()) {
            // answer now; the rest of the request stream is dropped unread
            return (ms, End::Unread);
        }
        match s.message().await {
            Ok(Some(m)) => ms.push(m),
            Ok(None) => return (ms, End::Ok),
            Err(e) => return (ms, End::Err(e)),
        }
    }
}
pub struct UnaryH(pub H);
impl tower_service::Service<Request<Vec<u8>>> for UnaryH {
    type Response = Response<Vec<u8>>;
    type Error = Status;
    type Future = std::future::Ready<Result<Self::Response, Status>>;
    fn poll_ready(&mut self, _: &mut Context<'_>) -> Poll<Result<(), Status>> {
        Poll::Ready(Ok(()))
    }
    fn call(&mut self, req: Request<Vec<u8>>) -> Self::Future {
        let (md, _, m) = req.into_parts();
        *self.0.seen.lock().unwrap() = Seen::Unary(md.into_headers(), m);
        std::future::ready(unary_answer(&self.0.handler))
    }
}
pub struct SStreamH(pub H);
impl tower_service::Service<Request<Vec<u8>>> for SStreamH {
    type Response = Response<RespStream>;
    type Error = Status;
    type Future = std::future::Ready<Result<Self::Response, Status>>;
    fn poll_ready(&mut self, _: &mut Context<'_>) -> Poll<Result<(), Status>> {
        Poll::Ready(Ok(()))
    }
    fn call(&mut self, req: Request<Vec<u8>>) -> Self::Future {
        let (md, _, m) = req.into_parts();
        *self.0.seen.lock().unwrap() = Seen::Unary(md.into_headers(), m);
        std::future::ready(stream_answer(&self.0.handler))
    }
}
pub struct CStreamH(pub H);
impl tower_service::Service<Request<Streaming<Vec<u8>>>> for CStreamH {
    type Response = Response<Vec<u8>>;
    type Error = Status;
    type Future = Pin<Box<dyn Future<Output = Result<Self::Response, Status>> + Send>>;
    fn poll_ready(&mut self, _: &mut Context<'_>) -> Poll<Result<(), Status>> {
        Poll::Ready(Ok(()))
    }
    fn call(&mut self, req: Request<Streaming<Vec<u8>>>) -> Self::Future {
        let h = self.0.clone();
        Box::pin(async move {
            let (md, _, s) = req.into_parts();
            let (ms, e) = drain_request(s, h.reads).await;
            *h.seen.lock().unwrap() = Seen::Stream(md.into_headers(), ms, e);
            unary_answer(&h.handler)
        })
    }
}
pub struct BidiH(pub H);
impl tower_service::Service<Request<Streaming<Vec<u8>>>> for BidiH {
    type Response = Response<RespStream>;
    type Error = Status;
    type Future = Pin<Box<dyn Future<Output = Result<Self::Response, Status>> + Send>>;
    fn poll_ready(&mut self, _: &mut Context<'_>) -> Poll<Result<(), Status>> {
        Poll::Ready(Ok(()))
    }
    fn call(&mut self, req: Request<Streaming<Vec<u8>>>) -> Self::Future {
        let h = self.0.clone();
        Box::pin(async move {
            let (md, _, s) = req.into_parts();
            let (ms, e) = drain_request(s, h.reads).await;
            *h.seen.lock().unwrap() = Seen::Stream(md.into_headers(), ms, e);
            stream_answer(&h.handler)
        })
    }
}
/// the real server::Grpc for one request
pub async fn serve<B>(shape: u8, h: H, req: http::Request<B>) -> http::Response<tonic::body::Body>
where
    B: HttpBody + Send + 'static,
    B::Error: Into<Box<dyn std::error::Error + Send + Sync>> + Send,
{
    let mut grpc = tonic::server::Grpc::new(RawCodec);
    let sv = h.sv.clone();
    for e in &sv.accept {
        grpc = grpc.accept_compressed(e.tonic());
    }
    for e in &sv.send_set {
        grpc = grpc.send_compressed(e.tonic());
    }
    if sv.via_apply {
        grpc = grpc.apply_max_message_size_config(sv.max_dec, sv.max_enc);
    } else {
        if let Some(l) = sv.max_dec {
            grpc = grpc.max_decoding_message_size(l);
        }
        if let Some(l) = sv.max_enc {
            grpc = grpc.max_encoding_message_size(l);
        }
    }
    match shape {
        0 => grpc.unary(UnaryH(h), req).await,
        1 => grpc.client_streaming(CStreamH(h), req).await,
        2 => grpc.server_streaming(SStreamH(h), req).await,
        _ => grpc.streaming(BidiH(h), req).await,
    }
}

// ------------------------------------------------------------------ the in-process transport
#[derive(Clone, Debug)]
enum Fr {
    Data(Vec<u8>),
    Trailers(HeaderMap),
    Err(Status),
}
async fn collect_frames<B>(body: B) -> Vec<Fr>
where
    B: HttpBody<Data = Bytes>,
    B::Error: Into<Box<dyn std::error::Error + Send + Sync>>,
{
    let mut body = Box::pin(body);
    let mut out = vec![];
    loop {
        // like hyper: a body that reports end-of-stream is not polled again (whatever it would
        // still have produced - trailers! - is lost)
        if body.is_end_stream() {
            return out;
        }
        match std::future::poll_fn(|cx| body.as_mut().poll_frame(cx)).await {
            None => return out,
            Some(Err(e)) => {
                out.push(Fr::Err(Status::from_error(e.into())));
                return out;
            }
            Some(Ok(f)) => match f.into_data() {
                Ok(d) => out.push(Fr::Data(d.to_vec())),
                Err(f) => {
                    if let Ok(t) = f.into_trailers() {
                        out.push(Fr::Trailers(t))
                    }
                }
            },
        }
    }
}
fn cut_chunks(cuts: &[usize], data: &[u8]) -> Vec<Vec<u8>> {
    let mut rest = data;
    let mut out = vec![];
    for &n in cuts {
        let k = n.min(rest.len());
        out.push(rest[..k].to_vec());
        rest = &rest[k..];
    }
    if !rest.is_empty() {
        out.push(rest.to_vec());
    }
    out
}
fn recut(frames: &[Fr], cuts: &[usize], pend: &[usize]) -> Vec<Ev<Status>> {
    let mut data = vec![];
    let mut tail = vec![];
    for f in frames {
        match f {
            Fr::Data(d) => data.extend_from_slice(d),
            Fr::Trailers(t) => tail.push(Ev::Trailers(t.clone())),
            Fr::Err(s) => tail.push(Ev::Err(s.clone())),
        }
    }
    let mut evs: Vec<Ev<Status>> = cut_chunks(cuts, &data).into_iter().map(Ev::Data).collect();
    evs.extend(tail);
    let mut out = vec![];
    for (i, e) in evs.into_iter().enumerate() {
        for _ in 0..pend.get(i).copied().unwrap_or(0) {
            out.push(Ev::Pending);
        }
        out.push(e);
    }
    out
}
#[derive(Clone)]
struct Wire {
    case: Arc<CallCase>,
    h: H,
    /// grpc-status of a response produced without calling the handler
    resp_status: Arc<Mutex<Option<u32>>>,
    sizes: Arc<Mutex<(usize, usize)>>,
}
impl tower_service::Service<http::Request<tonic::body::Body>> for Wire {
    type Response = http::Response<ScriptBody<Status>>;
    type Error = Status;
    type Future = Pin<Box<dyn Future<Output = Result<Self::Response, Status>>>>;
    fn poll_ready(&mut self, _: &mut Context<'_>) -> Poll<Result<(), Status>> {
        Poll::Ready(Ok(()))
    }
    fn call(&mut self, req: http::Request<tonic::body::Body>) -> Self::Future {
        let w = self.clone();
        Box::pin(async move {
            let (parts, body) = req.into_parts();
            let qframes = collect_frames(body).await;
            let qn: usize = qframes.iter().map(|f| if let Fr::Data(d) = f { d.len() } else { 0 }).sum();
            let (qbody, _) = ScriptBody::new(recut(&qframes, &w.case.qcuts, &w.case.qpend));
            let resp = serve(w.case.shape, w.h.clone(), http::Request::from_parts(parts, qbody)).await;
            let (parts, body) = resp.into_parts();
            *w.resp_status.lock().unwrap() = parts.headers.get("grpc-status").and_then(|v| v.to_str().ok()).and_then(|s| s.parse().ok());
            let pframes = collect_frames(body).await;
            let pn: usize = pframes.iter().map(|f| if let Fr::Data(d) = f { d.len() } else { 0 }).sum();
            *w.sizes.lock().unwrap() = (qn, pn);
            let (pbody, _) = ScriptBody::new(recut(&pframes, &w.case.pcuts, &w.case.ppend));
            Ok(http::Response::from_parts(parts, pbody))
        })
    }
}

// ------------------------------------------------------------------ the client side of one call
pub fn request_md(c: &CallCase) -> MetadataMap {
    metadata_of(&c.md)
}
pub fn first_req_msg(c: &CallCase) -> Vec<u8> {
    c.req.iter().find_map(|i| if let Item::Ok(m) = i { Some(m.clone()) } else { None }).unwrap_or_default()
}
pub async fn drain_response(mut s: Streaming<Vec<u8>>) -> (Vec<Vec<u8>>, End) {
    let mut ms = vec![];
    loop {
        match s.message().await {
            Ok(Some(m)) => ms.push(m),
            Ok(None) => return (ms, End::Ok),
            Err(e) => return (ms, End::Err(e)),
        }
    }
}
pub async fn client_side<T>(c: &CallCase, svc: T) -> ClientResult
where
    T: tonic::client::GrpcService<tonic::body::Body>,
    T::ResponseBody: HttpBody + Send + 'static,
    <T::ResponseBody as HttpBody>::Error: Into<Box<dyn std::error::Error + Send + Sync>>,
{
    client_side_origin(c, svc, None).await
}
pub fn item_coq(i: &Item) -> String {
    i.coq()
}
pub fn st_coq(s: &StSpec) -> String {
    s.coq()
}
pub fn case_json(c: &CallCase) -> Value {
    c.json()
}
pub fn result_tr_pub(r: &ClientResult) -> Tr {
    result_tr(r)
}
pub fn seen_tr_pub(s: &Seen) -> Tr {
    seen_tr(s, None)
}
pub fn seen_tr_code(s: &Seen, code: Option<u32>) -> Tr {
    seen_tr(s, code)
}
pub async fn client_side_origin<T>(c: &CallCase, svc: T, origin: Option<http::Uri>) -> ClientResult
where
    T: tonic::client::GrpcService<tonic::body::Body>,
    T::ResponseBody: HttpBody + Send + 'static,
    <T::ResponseBody as HttpBody>::Error: Into<Box<dyn std::error::Error + Send + Sync>>,
{
    let mut client = match origin {
        Some(o) => tonic::client::Grpc::with_origin(svc, o),
        None => tonic::client::Grpc::new(svc),
    };
    if let Some(e) = c.cl.send {
        client = client.send_compressed(e.tonic());
    }
    for e in &c.cl.accept {
        client = client.accept_compressed(e.tonic());
    }
    if let Some(l) = c.cl.max_dec {
        client = client.max_decoding_message_size(l);
    }
    if let Some(l) = c.cl.max_enc {
        client = client.max_encoding_message_size(l);
    }
    let path = http::uri::PathAndQuery::from_static("/verif.Call/Method");
    let md = request_md(c);
    match c.shape {
        0 => {
            let mut rq = Request::new(first_req_msg(c));
            *rq.metadata_mut() = md;
            match client.unary(rq, path, RawCodec).await {
                Err(s) => ClientResult::Err(s),
                Ok(r) => {
                    let (md, m, _) = r.into_parts();
                    ClientResult::Unary(md.into_headers(), m)
                }
            }
        }
        1 => {
            let mut rq = Request::new(ReqStream::new(&c.req));
            *rq.metadata_mut() = md;
            match client.client_streaming(rq, path, RawCodec).await {
                Err(s) => ClientResult::Err(s),
                Ok(r) => {
                    let (md, m, _) = r.into_parts();
                    ClientResult::Unary(md.into_headers(), m)
                }
            }
        }
        2 => {
            let mut rq = Request::new(first_req_msg(c));
            *rq.metadata_mut() = md;
            match client.server_streaming(rq, path, RawCodec).await {
                Err(s) => ClientResult::Err(s),
                Ok(r) => {
                    let (md, s, _) = r.into_parts();
                    let (ms, e) = drain_response(s).await;
                    ClientResult::Stream(md.into_headers(), ms, e)
                }
            }
        }
        _ => {
            let mut rq = Request::new(ReqStream::new(&c.req));
            *rq.metadata_mut() = md;
            match client.streaming(rq, path, RawCodec).await {
                Err(s) => ClientResult::Err(s),
                Ok(r) => {
                    let (md, s, _) = r.into_parts();
                    let (ms, e) = drain_response(s).await;
                    ClientResult::Stream(md.into_headers(), ms, e)
                }
            }
        }
    }
}

// ------------------------------------------------------------------ the property's direct verdict
fn is_reserved(k: &str) -> bool {
    RESERVED.contains(&k)
}
/// every non-reserved entry of `want` is in `got` with the same values in the same order
fn md_contains(got: &HeaderMap, want: &Md, what: &str) -> Option<String> {
    let w = metadata_of(want).into_headers();
    for k in w.keys() {
        if is_reserved(k.as_str()) {
            continue;
        }
        let a: Vec<&[u8]> = w.get_all(k).iter().map(|v| v.as_bytes()).collect();
        let b: Vec<&[u8]> = got.get_all(k).iter().map(|v| v.as_bytes()).collect();
        if a != b {
            return Some(format!("{}: metadata entry {:?} has values {:?}, attached were {:?}", what, k.as_str(), b.iter().map(|x| hex(x)).collect::<Vec<_>>(), a.iter().map(|x| hex(x)).collect::<Vec<_>>()));
        }
    }
    None
}
fn status_matches(got: &Status, want: &StSpec) -> Option<String> {
    if got.code() as i32 as u32 != want.code {
        return Some(format!("error code {} instead of the handler's {}", got.code() as i32, want.code));
    }
    if got.message() != want.msg {
        return Some(format!("error message {:?} instead of the handler's {:?}", got.message(), want.msg));
    }
    // strict, also when the handler's status metadata holds an entry named grpc-status-details-bin
    // (F-C04e, fixed by ed827503: with empty details that entry used to be read as the details)
    if got.details() != &want.details[..] {
        return Some("error details differ from the handler's".into());
    }
    let gm = got.metadata().clone().into_headers();
    if gm.contains_key("grpc-status-details-bin") {
        return Some("error status: an entry named grpc-status-details-bin is in the received metadata".into());
    }
    let deliverable: Md = want.md.iter().filter(|(k, _)| k != "grpc-status-details-bin").cloned().collect();
    md_contains(&gm, &deliverable, "error status")
}
/// does the case lie in the domain of the theorems (Props/C02.v premises, checks/C02.json):
/// no grpc-encoding entry in any metadata, error statuses have a code other than OK (a
/// grpc-status-details-bin entry in status metadata is INSIDE the domain since fix ed827503)
pub fn in_domain(c: &CallCase) -> bool {
    let has = |md: &Md, k: &str| md.iter().any(|(x, _)| x == k);
    let st_ok = |s: &StSpec| s.code != 0 && !has(&s.md, "grpc-encoding");
    if has(&c.md, "grpc-encoding") {
        return false;
    }
    // the theorems are stated for sides without compression; with compression configured the
    // negotiation also reads grpc-accept-encoding (audit2 N-C02-4: caller metadata
    // grpc-accept-encoding: gzip + a server that may send gzip + a client that does not accept
    // it => UNIMPLEMENTED): such cases are compared with the model only
    if !(c.cl.is_plain() && c.sv.is_plain()) && has(&c.md, "grpc-accept-encoding") {
        return false;
    }
    match &c.handler {
        Handler::Err(s) => st_ok(s),
        Handler::Ok(md, items) => !has(md, "grpc-encoding") && items.iter().all(|i| if let Item::Err(s) = i { st_ok(s) } else { true }),
    }
}
const DEFAULT_DEC_LIMIT: usize = 4 * 1024 * 1024;
/// what the limits allow of the request: (messages that reach the handler's stream, Some(()) if
/// the stream then fails with OUT_OF_RANGE)
fn request_allowed(c: &CallCase) -> (Vec<Vec<u8>>, bool) {
    let l = c.cl.max_enc.unwrap_or(usize::MAX).min(c.sv.max_dec.unwrap_or(DEFAULT_DEC_LIMIT));
    let sent: Vec<Vec<u8>> = c.req.iter().filter_map(|i| if let Item::Ok(m) = i { Some(m.clone()) } else { None }).collect();
    match sent.iter().position(|m| m.len() > l) {
        Some(i) => (sent[..i].to_vec(), true),
        None => (sent, false),
    }
}
pub fn judge(c: &CallCase, res: &ClientResult, seen: &Seen) -> Option<String> {
    // ---- the handler's view
    let (allowed, refused) = request_allowed(c);
    let resp_limit = c.sv.max_enc.unwrap_or(usize::MAX).min(c.cl.max_dec.unwrap_or(DEFAULT_DEC_LIMIT));
    if !c.req_streaming() && refused && allowed.is_empty() {
        // the only request message is over a limit: OUT_OF_RANGE, the handler is not called
        if !matches!(seen, Seen::NotCalled) {
            return Some("the handler was called although the request message is over the limit".into());
        }
        return match res {
            ClientResult::Err(s) if s.code() == Code::OutOfRange => None,
            ClientResult::Err(s) => Some(format!("request over the limit: the call failed with {:?}, expected OUT_OF_RANGE", s.code())),
            _ => Some("request over the limit but the call succeeded".into()),
        };
    }
    match seen {
        Seen::NotCalled => return Some("the handler was not called".into()),
        Seen::Unary(md, m) => {
            if c.req_streaming() {
                return Some("handler of a streaming-request shape got a single message".into());
            }
            if Some(m) != allowed.first() {
                return Some("the handler received a different request message".into());
            }
            if let Some(w) = md_contains(md, &c.md, "request") {
                return Some(w);
            }
        }
        Seen::Stream(md, ms, e) => {
            let j = c.reads.unwrap_or(usize::MAX);
            let want: Vec<Vec<u8>> = allowed.iter().take(j).cloned().collect();
            if *ms != want {
                return Some(format!("the handler received {} request messages (or different ones), expected the first {} of the {} that pass the limits", ms.len(), want.len(), allowed.len()));
            }
            let want_end = if j <= allowed.len() { 2 } else if refused { 1 } else { 0 };
            let ok = match (e, want_end) {
                (End::Ok, 0) => true,
                (End::Err(s), 1) => s.code() == Code::OutOfRange,
                (End::Unread, 2) => true,
                _ => false,
            };
            if !ok {
                return Some(format!("the request stream ended with {:?} at the handler, expected {}", e, ["a clean end", "Err(OUT_OF_RANGE)", "to be left unread"][want_end]));
            }
            if let Some(w) = md_contains(md, &c.md, "request") {
                return Some(w);
            }
        }
    }
    // ---- the caller's view
    match &c.handler {
        Handler::Err(s) => match res {
            ClientResult::Err(got) => status_matches(got, s),
            _ => Some("the handler failed before any message but the client API returned Ok".into()),
        },
        Handler::Ok(md, items) => {
            if !c.resp_streaming() {
                let m = items.iter().find_map(|i| if let Item::Ok(m) = i { Some(m.clone()) } else { None }).unwrap_or_default();
                if m.len() > resp_limit {
                    return match res {
                        ClientResult::Err(s) if s.code() == Code::OutOfRange => None,
                        ClientResult::Err(s) => Some(format!("response message over the limit: Err({:?}), expected OUT_OF_RANGE", s.code())),
                        _ => Some("response message over the limit but the call succeeded".into()),
                    };
                }
                return match res {
                    ClientResult::Unary(got_md, got) => {
                        if *got != m {
                            Some("the response message differs from the handler's".into())
                        } else {
                            md_contains(got_md, md, "response")
                        }
                    }
                    ClientResult::Err(s) => Some(format!("the handler succeeded but the client API returned Err({:?})", s.code())),
                    _ => Some("wrong result shape".into()),
                };
            }
            let mut want_ms = vec![];
            let mut want_end: Option<&StSpec> = None;
            let mut over = false;
            for i in items {
                match i {
                    Item::Pending => {}
                    Item::Ok(m) if m.len() > resp_limit => {
                        over = true;
                        break;
                    }
                    Item::Ok(m) => want_ms.push(m.clone()),
                    Item::Err(s) => {
                        want_end = Some(s);
                        break;
                    }
                }
            }
            match res {
                ClientResult::Stream(got_md, ms, e) => {
                    if *ms != want_ms {
                        return Some(format!("the client received {} messages (or different ones), the handler produced {} before the end", ms.len(), want_ms.len()));
                    }
                    if let Some(w) = md_contains(got_md, md, "response") {
                        return Some(w);
                    }
                    if over {
                        return match e {
                            End::Err(got) if got.code() == Code::OutOfRange => None,
                            _ => Some(format!("a response message is over the limit: the stream ended with {:?}, expected Err(OUT_OF_RANGE) after the {} earlier messages", e, want_ms.len())),
                        };
                    }
                    match (e, want_end) {
                        (End::Unread, _) => Some("unexpected end marker".into()),
                        (End::Ok, None) => None,
                        (End::Err(got), Some(s)) => status_matches(got, s),
                        (End::Ok, Some(s)) => Some(format!("the stream ended cleanly although the handler ended it with code {}", s.code)),
                        (End::Err(got), None) => Some(format!("the stream ended with Err({:?}) although the handler ended OK", got.code())),
                    }
                }
                ClientResult::Err(s) => Some(format!("the handler returned a response but the client API returned Err({:?})", s.code())),
                _ => Some("wrong result shape".into()),
            }
        }
    }
}

// ------------------------------------------------------------------ one case
pub fn coq_md(md: &Md) -> String {
    coq_hm(&metadata_of(md).into_headers())
}
/// what tonic writes behind the prefix for `m` under encoding `e` (the compress table of the model)
pub fn wire_payload(e: Enc, m: &[u8]) -> Vec<u8> {
    let body = EncodeBody::new_client(RawEnc, tokio_stream::once(Ok::<_, Status>(m.to_vec())), Some(e.tonic()), None);
    let frames = spin(collect_frames(body), 64).expect("probe");
    let mut data = vec![];
    for f in frames {
        if let Fr::Data(d) = f {
            data.extend_from_slice(&d);
        }
    }
    data[5..].to_vec()
}
pub fn compress_table(c: &CallCase) -> Vec<(Vec<u8>, Vec<u8>)> {
    let e = c.cl.send.or(c.sv.send_set.first().copied()).or(c.cl.accept.first().copied()).or(c.sv.accept.first().copied());
    let Some(e) = e else { return vec![] };
    let mut ms: Vec<Vec<u8>> = c.req.iter().filter_map(|i| if let Item::Ok(m) = i { Some(m.clone()) } else { None }).collect();
    if let Handler::Ok(_, items) = &c.handler {
        ms.extend(items.iter().filter_map(|i| if let Item::Ok(m) = i { Some(m.clone()) } else { None }));
    }
    let mut t: Vec<(Vec<u8>, Vec<u8>)> = vec![];
    for m in ms {
        if !t.iter().any(|(k, _)| *k == m) {
            let z = wire_payload(e, &m);
            t.push((m, z));
        }
    }
    t
}
pub fn handler_expr(c: &CallCase) -> String {
    match &c.handler {
        Handler::Ok(md, items) => format!("(inl ({}, {}))", coq_md(md), coq_list(items, |i| i.coq())),
        Handler::Err(s) => format!("(inr {})", s.coq()),
    }
}
pub fn req_expr(c: &CallCase) -> String {
    let req: Vec<Item> = if c.req_streaming() { c.req.clone() } else { vec![Item::Ok(first_req_msg(c))] };
    coq_list(&req, |i| i.coq())
}
pub fn sides_expr(c: &CallCase) -> String {
    format!("{} {} {}", coq_pairs(&compress_table(c)), c.cl.coq(), c.sv.coq())
}
pub fn model_expr(c: &CallCase, fuel: usize) -> String {
    format!(
        "obs_call {} {} {} {} {} {} {} {} {} {} {}",
        sides_expr(c),
        c.shape,
        coq_md(&c.md),
        req_expr(c),
        coq_list(&c.qcuts, |n| n.to_string()),
        coq_list(&c.qpend, |n| n.to_string()),
        coq_opt(&c.reads, |n| n.to_string()),
        handler_expr(c),
        coq_list(&c.pcuts, |n| n.to_string()),
        coq_list(&c.ppend, |n| n.to_string()),
        fuel
    )
}
fn bucket(n: usize) -> String {
    match n {
        0 => "0".into(),
        1 => "1".into(),
        2..=4 => "2-4".into(),
        5..=9 => "5-9".into(),
        _ => ">=10".into(),
    }
}
pub fn describe(out: &mut Out, fam: &str, c: &CallCase) {
    out.hist(&format!("{}.shape", fam), ["unary", "client-streaming", "server-streaming", "bidi"][c.shape as usize]);
    out.hist(&format!("{}.request_messages", fam), bucket(c.req.iter().filter(|i| matches!(i, Item::Ok(_))).count()));
    out.hist(&format!("{}.request_metadata_entries", fam), bucket(c.md.len()));
    match &c.handler {
        Handler::Err(s) => {
            out.hist(&format!("{}.handler", fam), "Err before any message (trailers-only)");
            out.hist(&format!("{}.code", fam), s.code);
            out.hist(&format!("{}.status_metadata_entries", fam), bucket(s.md.len()));
        }
        Handler::Ok(md, items) => {
            let k = items.iter().filter(|i| matches!(i, Item::Ok(_))).count();
            let e = items.iter().position(|i| matches!(i, Item::Err(_)));
            out.hist(&format!("{}.response_messages", fam), bucket(k));
            out.hist(&format!("{}.initial_metadata_entries", fam), bucket(md.len()));
            match e {
                None => out.hist(&format!("{}.handler", fam), "Ok to the end"),
                Some(p) => {
                    let before = items[..p].iter().filter(|i| matches!(i, Item::Ok(_))).count();
                    out.hist(&format!("{}.handler", fam), if before == 0 { "Err before the first message (headers + trailers)" } else if items[p + 1..].iter().any(|i| matches!(i, Item::Ok(_))) { "Err mid-stream" } else { "Err after the last message" });
                    if let Item::Err(s) = &items[p] {
                        out.hist(&format!("{}.code", fam), s.code);
                        out.hist(&format!("{}.status_metadata_entries", fam), bucket(s.md.len()));
                    }
                }
            }
        }
    }
}
fn run_case(out: &mut Out, kind: &str, c: &CallCase) {
    let seen = Arc::new(Mutex::new(Seen::NotCalled));
    let h = H { handler: Arc::new(c.handler.clone()), seen: seen.clone(), reads: c.reads, sv: Arc::new(c.sv.clone()) };
    let resp_status = Arc::new(Mutex::new(None));
    let sizes = Arc::new(Mutex::new((0usize, 0usize)));
    let wire = Wire { case: Arc::new(c.clone()), h, resp_status: resp_status.clone(), sizes: sizes.clone() };
    POLLED_AFTER_END.store(0, std::sync::atomic::Ordering::SeqCst);
    STRICT_PANICS.store((c.req.len() + c.qcuts.len() + c.pcuts.len() + c.shape as usize) % 2 == 1, std::sync::atomic::Ordering::SeqCst);
    let budget = 200 + 8 * (c.req.len() + c.qcuts.len() + c.pcuts.len() + c.qpend.iter().sum::<usize>() + c.ppend.iter().sum::<usize>() + match &c.handler { Handler::Ok(_, i) => i.len(), _ => 0 });
    let res = catch(std::panic::AssertUnwindSafe(|| spin(client_side(c, wire), budget)));
    let seen = seen.lock().unwrap().clone();
    let (qn, pn) = *sizes.lock().unwrap();
    let fuel = 16 + c.req.len() + c.qcuts.len() + c.pcuts.len() + c.qpend.iter().sum::<usize>() + c.ppend.iter().sum::<usize>() + match &c.handler { Handler::Ok(_, i) => i.len(), _ => 0 };
    let model = model_expr(c, fuel);
    let domain = in_domain(c);
    let (obs, oracle) = match res {
        Err(p) => (Tr::L(vec![Tr::L(vec![Tr::n(9u8)]), Tr::L(vec![Tr::n(9u8)])]), Some(format!("panic: {}", p))),
        Ok(Err(())) => (Tr::L(vec![Tr::L(vec![Tr::n(8u8)]), Tr::L(vec![Tr::n(8u8)])]), Some("the call did not complete (hang)".into())),
        Ok(Ok(r)) => {
            let o = if domain { judge(c, &r, &seen) } else { None };
            let n = POLLED_AFTER_END.load(std::sync::atomic::Ordering::SeqCst);
            let o = if o.is_none() && n > 0 { Some(format!("a message stream (caller's request stream or handler's response stream) was polled {} time(s) after it had returned None", n)) } else { o };
            (Tr::L(vec![result_tr(&r), seen_tr(&seen, *resp_status.lock().unwrap()), Tr::n(n as u64)]), o)
        }
    };
    let fam = kind.split('.').next().unwrap_or("call");
    describe(out, fam, c);
    out.hist(&format!("{}.in_oracle_domain", fam), domain);
    out.hist(&format!("{}.strict_stream_mode", fam), if STRICT_PANICS.load(std::sync::atomic::Ordering::SeqCst) { "panic after end" } else { "poison after end" });
    out.hist(&format!("{}.sides", fam), format!("{}{}", if c.cl.is_plain() && c.sv.is_plain() { "no compression" } else { "compression" }, if c.cl.has_limits() || c.sv.has_limits() { ", limits set" } else { "" }));
    out.hist(&format!("{}.handler_reads", fam), match c.reads { None => "to the end".to_string(), Some(j) => format!("{} then answers", j.min(5)) });
    out.hist(&format!("{}.request_chunks", fam), bucket(cut_chunks(&c.qcuts, &vec![0u8; qn]).len()));
    out.hist(&format!("{}.response_chunks", fam), bucket(cut_chunks(&c.pcuts, &vec![0u8; pn]).len()));
    out.hist(&format!("{}.pending_events", fam), bucket(c.qpend.iter().sum::<usize>() + c.ppend.iter().sum::<usize>()));
    let nontrivial = match &c.handler {
        Handler::Err(_) => true,
        Handler::Ok(_, items) => items.iter().filter(|i| !matches!(i, Item::Pending)).count() >= 2 || !c.pcuts.is_empty() || !c.qcuts.is_empty(),
    };
    out.push(vcommon::Case { kind: kind.to_string(), input: c.json(), model, impl_obs: obs, oracle, nontrivial });
}

// ------------------------------------------------------------------ generators
fn gen_message(r: &mut Rng) -> String {
    let pieces: &[&str] = &[
        "a", "Z", "0", " ", "%", "\"", "#", "<", ">", "?", "{", "}", "`", "\u{7f}", "\u{0}", "\n", "\t", "\u{1f}", "\u{e9}", "\u{df}", "\u{20ac}", "\u{8a9e}", "\u{1F600}", "\u{10FFFF}", "%41", "%zz", "+", "/", "=", ":", "~", "|",
    ];
    let n = match r.below(10) {
        0 => 0,
        1..=6 => r.range(1, 8),
        7 | 8 => r.range(9, 30),
        _ => r.range(60, 120),
    };
    (0..n).map(|_| *r.pick(pieces)).collect()
}
fn gen_details(r: &mut Rng) -> Vec<u8> {
    let n = match r.below(10) {
        0..=2 => 0,
        3..=7 => r.range(1, 9),
        8 => r.range(10, 40),
        _ => r.range(60, 120),
    } as usize;
    r.bytes(n)
}
const KEYS: &[&str] = &["x-a", "x-a", "x-b", "x-trace-id", "authorization", "x-payload-bin", "x-other-bin", "te", "user-agent", "content-type", "grpc-message", "grpc-message-type", "grpc-status", "accept", "x-a", "grpc-accept-encoding", "grpc-timeout"];
pub fn gen_md(r: &mut Rng, protocol_names: bool) -> Md {
    let n = match r.below(6) {
        0 => 0,
        1..=3 => r.range(1, 3),
        _ => r.range(4, 7),
    };
    let mut md = vec![];
    for _ in 0..n {
        let mut k = *r.pick(KEYS);
        if protocol_names && r.chance(1, 3) {
            k = *r.pick(&PROTOCOL);
        }
        let v: Vec<u8> = if k.ends_with("-bin") {
            let len = r.range(0, 7) as usize;
            r.bytes(len)
        } else if k == "grpc-accept-encoding" {
            r.pick(&["gzip", "identity,gzip", "zstd, deflate", ""]).as_bytes().to_vec()
        } else if k == "grpc-encoding" {
            r.pick(&["gzip", "identity", "br", ""]).as_bytes().to_vec()
        } else if k == "grpc-timeout" {
            r.pick(&["1S", "5m", "x"]).as_bytes().to_vec()
        } else {
            let len = r.range(0, 12) as usize;
            (0..len).map(|_| r.range(0x20, 0x7e) as u8).collect()
        };
        md.push((k.to_string(), v));
    }
    md
}
pub fn gen_status(r: &mut Rng, code: u32, protocol_names: bool) -> StSpec {
    StSpec { code, msg: gen_message(r), details: gen_details(r), md: gen_md(r, protocol_names) }
}
fn gen_payload(r: &mut Rng) -> Vec<u8> {
    let n = *r.pick(&[0usize, 1, 3, 5, 6, 20, 100]);
    r.bytes(n)
}
/// cut positions for a stream of frames (5 + len each): lengths of successive chunks
fn gen_cuts(r: &mut Rng, frame_lens: &[usize]) -> Vec<usize> {
    let total: usize = frame_lens.iter().sum();
    if total == 0 {
        return if r.chance(1, 4) { vec![0] } else { vec![] };
    }
    let mut pos: Vec<usize> = vec![];
    match r.below(5) {
        0 => {}
        1 => {
            let mut at = 0;
            for l in frame_lens {
                for k in 1..=5 {
                    pos.push(at + k);
                }
                at += l;
            }
        }
        2 => {
            let sz = *r.pick(&[1usize, 2, 3, 7, 16]);
            let mut p = sz;
            while p < total {
                pos.push(p);
                p += sz;
            }
        }
        _ => {
            for _ in 0..r.range(1, 6) {
                pos.push(r.range(1, total as u64) as usize);
            }
        }
    }
    pos.sort();
    pos.dedup();
    pos.retain(|p| *p < total);
    let mut out = vec![];
    let mut last = 0;
    for p in pos {
        out.push(p - last);
        last = p;
    }
    if r.chance(1, 8) {
        let i = r.below(out.len() as u64 + 1) as usize;
        out.insert(i, 0);
    }
    out
}
fn gen_pend(r: &mut Rng, n: usize) -> Vec<usize> {
    match r.below(4) {
        0 => vec![],
        1 => vec![1; n + 2],
        2 => (0..n + 2).map(|_| r.below(3) as usize).collect(),
        _ => {
            let mut v = vec![0; n + 2];
            v[n + 1] = 2;
            v
        }
    }
}
fn with_pending_items(r: &mut Rng, items: Vec<Item>) -> Vec<Item> {
    let mode = r.below(3);
    let mut out = vec![];
    for i in items {
        if mode == 1 || (mode == 2 && r.chance(1, 3)) {
            out.push(Item::Pending);
        }
        out.push(i);
    }
    if mode == 2 && r.chance(1, 3) {
        out.push(Item::Pending);
    }
    out
}
/// `k` response messages, error position: None = OK to the end, Some(p) = Err after p messages
pub fn gen_case(r: &mut Rng, shape: u8, k: usize, err: Option<(usize, u32)>, early: bool, protocol_names: bool) -> CallCase {
    let req_streaming = shape == 1 || shape == 3;
    let resp_streaming = shape == 2 || shape == 3;
    let nreq = if req_streaming { r.below(5) as usize } else { 1 };
    let reqs: Vec<Item> = (0..nreq).map(|_| Item::Ok(gen_payload(r))).collect();
    let qlens: Vec<usize> = reqs.iter().map(|i| if let Item::Ok(m) = i { 5 + m.len() } else { 0 }).collect();
    let req = if req_streaming { with_pending_items(r, reqs) } else { reqs };
    let handler = if early {
        Handler::Err(gen_status(r, err.map(|e| e.1).unwrap_or(2), protocol_names))
    } else if !resp_streaming {
        Handler::Ok(gen_md(r, protocol_names), vec![Item::Ok(gen_payload(r))])
    } else {
        let mut items: Vec<Item> = (0..k).map(|_| Item::Ok(gen_payload(r))).collect();
        if let Some((p, code)) = err {
            let p = p.min(items.len());
            items.insert(p, Item::Err(gen_status(r, code, protocol_names)));
        }
        Handler::Ok(gen_md(r, protocol_names), with_pending_items(r, items))
    };
    let plens: Vec<usize> = match &handler {
        Handler::Ok(_, items) => {
            let mut v = vec![];
            for i in items {
                match i {
                    Item::Ok(m) => v.push(5 + m.len()),
                    Item::Err(_) => break,
                    Item::Pending => {}
                }
            }
            v
        }
        Handler::Err(_) => vec![],
    };
    let qcuts = gen_cuts(r, &qlens);
    let pcuts = gen_cuts(r, &plens);
    CallCase { cl: SideCfg::default(), sv: SideCfg::default(), reads: None, shape, md: gen_md(r, protocol_names), req, qpend: gen_pend(r, qcuts.len()), qcuts, handler, ppend: gen_pend(r, pcuts.len()), pcuts }
}

/// messages larger than the codec's buffer_size (8 KiB) and around the yield threshold (32 KiB),
/// followed WITHOUT a Pending by small ones, so that the tail of a big message and the next
/// message(s) share one DATA chunk (whole body in one chunk, h2-like 16384-byte chunks, or a cut
/// a few bytes behind the big frame); constant-fill payloads keep the Coq literals small
pub fn gen_big_case(r: &mut Rng, shape: u8, err: Option<u32>) -> CallCase {
    let mut c = gen_case(r, shape, 3, None, false, false);
    let big = |r: &mut Rng| {
        let n = *r.pick(&[8188usize, 8193, 9000, 10_000, 16_379, 16_385, 20_000, 32_763, 32_769, 40_000]);
        vec![r.below(200) as u8 + 1; n]
    };
    let small = |r: &mut Rng| { let n = *r.pick(&[0usize, 1, 13, 100]); r.bytes(n) };
    let mk = |r: &mut Rng, n_after: usize| -> Vec<Item> {
        let mut v = vec![];
        if r.chance(1, 3) { v.push(Item::Ok(small(r))); }
        v.push(Item::Ok(big(r)));
        for _ in 0..n_after { v.push(Item::Ok(small(r))); }
        if r.chance(1, 4) { v.push(Item::Ok(big(r))); v.push(Item::Ok(small(r))); }
        v
    };
    let lens = |items: &[Item]| -> Vec<usize> { items.iter().filter_map(|i| if let Item::Ok(m) = i { Some(5 + m.len()) } else { None }).collect() };
    let cuts = |r: &mut Rng, l: &[usize]| -> Vec<usize> {
        let total: usize = l.iter().sum();
        match r.below(4) {
            0 => vec![],                                   // one chunk
            1 => vec![16384; total / 16384 + 1],           // HTTP/2 default frame size
            2 => { let first_big = l.iter().scan(0usize, |a, x| { *a += x; Some(*a) }).find(|e| *e > 8000).unwrap_or(total); vec![first_big + r.range(1, 9) as usize] }
            _ => vec![r.range(1, total as u64) as usize],
        }
    };
    if c.resp_streaming() {
        let na = r.range(1, 3) as usize;
        let mut items = mk(r, na);
        if let Some(code) = err { items.push(Item::Err(gen_status(r, code, false))); }
        let l = lens(&items);
        c.pcuts = cuts(r, &l);
        c.ppend = vec![];
        let md = if let Handler::Ok(md, _) = &c.handler { md.clone() } else { vec![] };
        c.handler = Handler::Ok(md, items);
    }
    if c.req_streaming() {
        let na = r.range(1, 3) as usize;
        let items = mk(r, na);
        let l = lens(&items);
        c.qcuts = cuts(r, &l);
        c.qpend = vec![];
        c.req = items;
    }
    if !c.resp_streaming() && !c.req_streaming() {
        // unary: one big request and one big response
        c.req = vec![Item::Ok(big(r))];
        c.qcuts = vec![16384; 3];
        c.qpend = vec![];
        let md = if let Handler::Ok(md, _) = &c.handler { md.clone() } else { vec![] };
        c.handler = Handler::Ok(md, vec![Item::Ok(big(r))]);
        c.pcuts = vec![16384; 3];
        c.ppend = vec![];
    }
    c
}

// ---- limits configured on client::Grpc / server::Grpc (audit H2, M16, M21)
/// which limit is set: 0 server max_decoding (request), 1 client max_encoding (request),
/// 2 server max_encoding (response), 3 client max_decoding (response)
pub fn gen_limit_case(r: &mut Rng, shape: u8, which: u8, l: usize, len: usize, pos: usize) -> CallCase {
    let mut c = gen_case(r, shape, 3, None, false, false);
    let small = |r: &mut Rng| {
        let n = (r.below(3) as usize).min(l);
        r.bytes(n)
    };
    let big = vec![0x42u8; len];
    if which <= 1 {
        // request direction
        if c.req_streaming() {
            let mut ms: Vec<Item> = (0..pos).map(|_| Item::Ok(small(r))).collect();
            ms.push(Item::Ok(big));
            ms.push(Item::Ok(small(r)));
            c.req = with_pending_items(r, ms);
        } else {
            c.req = vec![Item::Ok(big)];
        }
        let qlens: Vec<usize> = c.req.iter().filter_map(|i| if let Item::Ok(m) = i { Some(5 + m.len()) } else { None }).collect();
        c.qcuts = gen_cuts(r, &qlens);
        c.qpend = gen_pend(r, c.qcuts.len());
        // the response must not run into the same limit by accident
        if let Handler::Ok(_, items) = &mut c.handler {
            for i in items.iter_mut() {
                if let Item::Ok(m) = i {
                    m.truncate(0);
                }
            }
        }
        if which == 0 {
            c.sv.max_dec = Some(l);
        } else {
            c.cl.max_enc = Some(l);
        }
    } else {
        for i in c.req.iter_mut() {
            if let Item::Ok(m) = i {
                m.truncate(0);
            }
        }
        c.qcuts = vec![];
        let md = gen_md(r, false);
        let items: Vec<Item> = if c.resp_streaming() {
            let mut ms: Vec<Item> = (0..pos).map(|_| Item::Ok(small(r))).collect();
            ms.push(Item::Ok(big));
            ms.push(Item::Ok(small(r)));
            with_pending_items(r, ms)
        } else {
            vec![Item::Ok(big)]
        };
        let plens: Vec<usize> = items.iter().filter_map(|i| if let Item::Ok(m) = i { Some(5 + m.len()) } else { None }).collect();
        c.handler = Handler::Ok(md, items);
        c.pcuts = gen_cuts(r, &plens);
        c.ppend = gen_pend(r, c.pcuts.len());
        if which == 2 {
            c.sv.max_enc = Some(l);
        } else {
            c.cl.max_dec = Some(l);
        }
    }
    c.sv.via_apply = r.chance(1, 2);
    c
}
pub fn limit_kind(which: u8, shape: u8) -> &'static str {
    match which {
        0 => "limit.server_max_decoding",
        1 => "limit.client_max_encoding",
        2 if shape <= 1 => "limit.unary_merge",
        2 => "limit.server_max_encoding",
        _ => "limit.client_max_decoding",
    }
}
fn limit_cases(out: &mut Out, r: &mut Rng, thorough: bool) {
    for which in 0..4u8 {
        for &l in &[0usize, 1, 5, 100] {
            let lens: Vec<usize> = if l == 0 { vec![0, 1] } else { vec![l - 1, l, l + 1] };
            for &len in &lens {
                for shape in 0..4u8 {
                    for pos in 0..(if thorough { 3 } else { 2 }) {
                        let streaming = if which <= 1 { shape == 1 || shape == 3 } else { shape >= 2 };
                        if !streaming && pos > 0 {
                            continue;
                        }
                        let c = gen_limit_case(r, shape, which, l, len, pos);
                        run_case(out, limit_kind(which, shape), &c);
                    }
                }
            }
        }
    }
    // the DEFAULT decoding limit (4 MiB) of server::Grpc / client::Grpc, i.e. no limit configured
    // at all: a received message of exactly 4 MiB passes, one byte more is refused (audit-3 H1)
    for which in [0u8, 3u8] {
        for &len in &[4 * 1024 * 1024usize, 4 * 1024 * 1024 + 1] {
            let shape = if which == 0 { 1 } else { 2 };
            let mut c = gen_limit_case(r, shape, which, 4 * 1024 * 1024, len, 1);
            c.sv.max_dec = None;
            c.cl.max_dec = None;
            c.qpend = vec![];
            c.ppend = vec![];
            if which == 0 { c.qcuts = vec![65536; 4]; } else { c.pcuts = vec![65536; 4]; }
            run_case(out, &format!("{}_default", limit_kind(which, shape)), &c);
        }
    }
    // limits that do not fit a u32 (a limit stored in 32 bits wraps: 2^32 -> 0, 2^32+16 -> 16):
    // small messages around the wrapped values must all pass
    for which in 0..4u8 {
        for &l in &[u32::MAX as usize, 1usize << 32, (1 << 32) + 16, (1 << 33) + 5, 1 << 63, usize::MAX - 1, usize::MAX] {
            for &len in &[1usize, 17] {
                for shape in 0..4u8 {
                    if !thorough && (shape + which) % 2 == 1 {
                        continue;
                    }
                    let c = gen_limit_case(r, shape, which, l, len, 1);
                    run_case(out, &format!("{}_big", limit_kind(which, shape)).replace("client_max_encoding_big", "big.client_max_enc"), &c);
                }
            }
        }
    }
    // both limits of both sides at once, set through apply_max_message_size_config on the server
    for _ in 0..(if thorough { 200 } else { 30 }) {
        let shape = r.below(4) as u8;
        let mut c = gen_case(r, shape, 3, None, false, false);
        let ls = [3usize, 5, 20, 100];
        c.cl.max_enc = Some(*r.pick(&ls));
        c.cl.max_dec = Some(*r.pick(&ls));
        c.sv.max_enc = Some(*r.pick(&ls));
        c.sv.max_dec = Some(*r.pick(&ls));
        c.sv.via_apply = true;
        run_case(out, "limit.all_four", &c);
    }
}
// ---- the handler answers before it has read its request stream (audit M21)
pub fn gen_interleave_case(r: &mut Rng, shape: u8, err: bool) -> CallCase {
    let k = r.below(4) as usize;
    let e = if err { Some((r.below(3) as usize, r.range(1, 16) as u32)) } else { None };
    let early = err && shape == 1 || (err && r.chance(1, 2));
    let mut c = gen_case(r, shape, k, e, early, false);
    let n = r.range(1, 4) as usize;
    let ms: Vec<Item> = (0..n).map(|_| Item::Ok(gen_payload(r))).collect();
    let qlens: Vec<usize> = ms.iter().filter_map(|i| if let Item::Ok(m) = i { Some(5 + m.len()) } else { None }).collect();
    c.req = with_pending_items(r, ms);
    c.qcuts = gen_cuts(r, &qlens);
    c.qpend = gen_pend(r, c.qcuts.len());
    c.reads = Some(r.below(n as u64 + 1) as usize);
    c
}
// ---- compression configured (one encoding per case)
pub fn gen_compress_case(r: &mut Rng, shape: u8) -> CallCase {
    let k = r.below(4) as usize;
    let e = if r.chance(1, 3) { Some((r.below(4) as usize, r.range(1, 16) as u32)) } else { None };
    let mut c = gen_case(r, shape, k, e, false, false);
    // keep the names the negotiation reads out of the user metadata
    let clean = |md: &mut Md| md.retain(|(k, _)| !PROTOCOL.contains(&k.as_str()));
    clean(&mut c.md);
    if let Handler::Ok(md, _) = &mut c.handler {
        clean(md);
    }
    let enc = *r.pick(&ENCS);
    match r.below(3) {
        0 => {
            // both directions
            c.cl.send = Some(enc);
            c.cl.accept = vec![enc];
            c.sv.accept = vec![enc];
            c.sv.send_set = vec![enc];
        }
        1 => {
            // request only
            c.cl.send = Some(enc);
            c.sv.accept = vec![enc];
        }
        _ => {
            // response only; the server may send more than the client accepts
            c.cl.accept = vec![enc];
            c.sv.send_set = ENCS.to_vec();
        }
    }
    // compressed frames have other lengths: cut anywhere
    let total = 64;
    c.qcuts = (0..r.below(4)).map(|_| r.range(1, total) as usize).collect();
    c.pcuts = (0..r.below(4)).map(|_| r.range(1, total) as usize).collect();
    c.qpend = gen_pend(r, c.qcuts.len());
    c.ppend = gen_pend(r, c.pcuts.len());
    c
}

// ---- names present both in the response head and in the trailers (audit2 N-C02-2)
/// a response no tonic server produces, fed to the real client::Grpc: head `headers`, identity DATA
/// frames of `msgs`, then `trailers`
#[derive(Clone, Debug)]
pub struct MergeCase {
    pub shape: u8,
    pub headers: Md,
    pub msgs: Vec<Vec<u8>>,
    pub trailers: Md,
    pub pcuts: Vec<usize>,
    pub ppend: Vec<usize>,
}
fn raw_headers(md: &Md) -> HeaderMap {
    let mut m = HeaderMap::new();
    for (k, v) in md {
        if let (Ok(n), Ok(val)) = (http::HeaderName::from_bytes(k.as_bytes()), http::HeaderValue::from_bytes(v)) {
            m.append(n, val);
        }
    }
    m
}
#[derive(Clone)]
struct HandBuilt(Arc<MergeCase>);
impl tower_service::Service<http::Request<tonic::body::Body>> for HandBuilt {
    type Response = http::Response<ScriptBody<Status>>;
    type Error = Status;
    type Future = Pin<Box<dyn Future<Output = Result<Self::Response, Status>>>>;
    fn poll_ready(&mut self, _: &mut Context<'_>) -> Poll<Result<(), Status>> {
        Poll::Ready(Ok(()))
    }
    fn call(&mut self, req: http::Request<tonic::body::Body>) -> Self::Future {
        let c = self.0.clone();
        Box::pin(async move {
            let _ = collect_frames(req.into_body()).await;
            let mut frames: Vec<Fr> = c.msgs.iter().map(|m| {
                let mut d = vec![0u8];
                d.extend_from_slice(&(m.len() as u32).to_be_bytes());
                d.extend_from_slice(m);
                Fr::Data(d)
            }).collect();
            frames.push(Fr::Trailers(raw_headers(&c.trailers)));
            let (body, _) = ScriptBody::new(recut(&frames, &c.pcuts, &c.ppend));
            let mut resp = http::Response::new(body);
            *resp.headers_mut() = raw_headers(&c.headers);
            Ok(resp)
        })
    }
}
fn get_all<'a>(m: &'a HeaderMap, k: &str) -> Vec<&'a [u8]> {
    m.get_all(k).iter().map(|v| v.as_bytes()).collect()
}
fn run_merge_case(out: &mut Out, kind: &str, c: &MergeCase) {
    let call = CallCase { cl: SideCfg::default(), sv: SideCfg::default(), reads: None, shape: c.shape, md: vec![], req: vec![Item::Ok(vec![1])], qcuts: vec![], qpend: vec![], handler: Handler::Ok(vec![], vec![]), pcuts: vec![], ppend: vec![] };
    POLLED_AFTER_END.store(0, std::sync::atomic::Ordering::SeqCst);
    STRICT_PANICS.store(false, std::sync::atomic::Ordering::SeqCst);
    let budget = 400 + 8 * (c.pcuts.len() + c.ppend.iter().sum::<usize>() + c.msgs.len());
    let res = catch(std::panic::AssertUnwindSafe(|| spin(client_side(&call, HandBuilt(Arc::new(c.clone()))), budget)));
    let fuel = 16 + c.pcuts.len() + c.ppend.iter().sum::<usize>() + c.msgs.len();
    let h = raw_headers(&c.headers);
    let t = raw_headers(&c.trailers);
    let code: u32 = t.get("grpc-status").and_then(|v| v.to_str().ok()).and_then(|s| s.parse().ok()).unwrap_or(2);
    let status_names = ["grpc-status", "grpc-message", "grpc-status-details-bin"];
    let (obs, oracle) = match res {
        Err(p) => (Tr::L(vec![Tr::n(9u8)]), Some(format!("panic: {}", p))),
        Ok(Err(())) => (Tr::L(vec![Tr::n(8u8)]), Some("the call did not complete".into())),
        Ok(Ok(r)) => {
            // which side wins, name by name (Props/C08.v c08_merge_pointwise / c08_error_fold)
            let mut o = None;
            let names: Vec<String> = h.keys().chain(t.keys()).map(|k| k.as_str().to_string()).collect();
            match &r {
                ClientResult::Unary(md, m) => {
                    if code != 0 || c.msgs.first() != Some(m) {
                        o = Some("unexpected success / message".to_string());
                    }
                    for k in &names {
                        let want = if t.contains_key(k.as_str()) { get_all(&t, k) } else { get_all(&h, k) };
                        if get_all(md, k) != want {
                            o = Some(format!("unary Ok: metadata name {:?}: the trailers' values must replace the head's", k));
                        }
                    }
                }
                ClientResult::Err(s) if c.shape <= 1 && code != 0 && c.msgs.is_empty() => {
                    let md = s.metadata().clone().into_headers();
                    for k in &names {
                        let want = if h.contains_key(k.as_str()) { get_all(&h, k) } else if status_names.contains(&k.as_str()) { vec![] } else { get_all(&t, k) };
                        if get_all(&md, k) != want {
                            o = Some(format!("unary Err at the first message: status metadata name {:?}: the head's values must replace the status'", k));
                        }
                    }
                    if s.code() as i32 as u32 != code {
                        o = Some("wrong code".into());
                    }
                }
                ClientResult::Stream(md, ms, e) => {
                    if *ms != c.msgs {
                        o = Some("messages differ".into());
                    }
                    for k in &names {
                        if get_all(md, k) != get_all(&h, k) {
                            o = Some(format!("stream: response metadata name {:?} must be the head's", k));
                        }
                    }
                    match e {
                        End::Ok if code == 0 => {}
                        End::Err(s) if code != 0 => {
                            let smd = s.metadata().clone().into_headers();
                            for k in &names {
                                let want = if status_names.contains(&k.as_str()) { vec![] } else { get_all(&t, k) };
                                if get_all(&smd, k) != want {
                                    o = Some(format!("stream Err: status metadata name {:?} must be the trailers'", k));
                                }
                            }
                        }
                        _ => o = Some("wrong end of the stream".into()),
                    }
                }
                ClientResult::Err(s) => {
                    // unary client, error trailers after >= 1 message: the drain's error, no merge
                    if !(c.shape <= 1 && code != 0 && s.code() as i32 as u32 == code) {
                        o = Some(format!("unexpected Err({:?})", s.code()));
                    }
                }
            }
            (result_tr(&r), o)
        }
    };
    let model = format!(
        "obs_client_call (mk_side None None None [] []) {} 200 {} {} {} {} {} {}",
        c.shape,
        coq_hm(&h),
        coq_list(&c.msgs, |m| coq_bytes(m)),
        coq_hm(&t),
        coq_list(&c.pcuts, |n| n.to_string()),
        coq_list(&c.ppend, |n| n.to_string()),
        fuel
    );
    out.hist("merge.shape", ["unary", "client-streaming", "server-streaming", "bidi"][c.shape as usize]);
    out.hist("merge.trailers_status", code);
    out.hist("merge.shared_names", h.keys().filter(|k| t.contains_key(*k)).count());
    let input = json!({"shape": c.shape, "headers": md_json(&c.headers), "msgs": c.msgs.iter().map(|m| hex(m)).collect::<Vec<_>>(), "trailers": md_json(&c.trailers), "pcuts": c.pcuts, "ppend": c.ppend});
    out.push(vcommon::Case { kind: kind.to_string(), input, model, impl_obs: obs, oracle, nontrivial: true });
}
fn merge_case_from_json(v: &Value) -> MergeCase {
    let us = |x: &Value| x.as_array().unwrap().iter().map(|y| y.as_u64().unwrap() as usize).collect::<Vec<_>>();
    MergeCase { shape: v["shape"].as_u64().unwrap() as u8, headers: md_from_json(&v["headers"]), msgs: v["msgs"].as_array().unwrap().iter().map(|m| unhex(m.as_str().unwrap())).collect(), trailers: md_from_json(&v["trailers"]), pcuts: us(&v["pcuts"]), ppend: us(&v["ppend"]) }
}
fn merge_cases(out: &mut Out, r: &mut Rng, n: usize) {
    let names = ["x-a", "x-b", "x-both", "x-both", "x-p-bin"];
    for i in 0..n {
        let shape = (i % 4) as u8;
        let err = i % 3 != 0;
        let mut headers: Md = vec![("content-type".into(), b"application/grpc".to_vec())];
        let mut trailers: Md = vec![("grpc-status".into(), if err { r.range(1, 16).to_string().into_bytes() } else { b"0".to_vec() })];
        if err && r.chance(1, 2) {
            trailers.push(("grpc-message".into(), b"boom%20x".to_vec()));
        }
        for _ in 0..r.range(1, 4) {
            let k = *r.pick(&names);
            let v = if k.ends_with("-bin") { b"AQI".to_vec() } else { format!("h{}", r.below(9)).into_bytes() };
            headers.push((k.to_string(), v));
        }
        for _ in 0..r.range(1, 4) {
            let k = *r.pick(&names);
            let v = if k.ends_with("-bin") { b"BAU".to_vec() } else { format!("t{}", r.below(9)).into_bytes() };
            trailers.push((k.to_string(), v));
        }
        // at least one shared name
        headers.push(("x-both".into(), b"from-head".to_vec()));
        trailers.push(("x-both".into(), b"from-trailers".to_vec()));
        let msgs: Vec<Vec<u8>> = if shape <= 1 { if err && r.chance(2, 3) { vec![] } else { vec![gen_payload(r)] } } else { (0..r.below(3)).map(|_| gen_payload(r)).collect() };
        let lens: Vec<usize> = msgs.iter().map(|m| 5 + m.len()).collect();
        let pcuts = gen_cuts(r, &lens);
        let c = MergeCase { shape, headers, msgs, trailers, ppend: gen_pend(r, pcuts.len()), pcuts };
        run_merge_case(out, "merge.shared_names", &c);
    }
}

fn corpus(out: &mut Out) {
    let st = |code: u32, msg: &str, md: Md| StSpec { code, msg: msg.into(), details: vec![], md };
    let kv = |k: &str, v: &str| (k.to_string(), v.as_bytes().to_vec());
    for shape in 0..4u8 {
        let req = if shape == 1 || shape == 3 { vec![Item::Ok(vec![1]), Item::Pending, Item::Ok(vec![]), Item::Ok(vec![2, 3])] } else { vec![Item::Ok(vec![1, 2, 3])] };
        let base = CallCase { cl: SideCfg::default(), sv: SideCfg::default(), reads: None, shape, md: vec![kv("x-a", "1"), kv("x-a", "2"), kv("te", "x"), ("x-p-bin".into(), vec![0, 255, 7])], req, qcuts: vec![2, 3, 1], qpend: vec![1, 0, 1], handler: Handler::Ok(vec![kv("x-r", "v"), kv("grpc-status", "7")], vec![Item::Ok(vec![9, 9])]), pcuts: vec![1, 4], ppend: vec![0, 1, 1] };
        run_case(out, "corpus.edge", &base);
        // error before anything (trailers-only), with metadata, details and a message that needs escaping
        let e = StSpec { code: 5, msg: "not found: 100% \u{e9}\n".into(), details: vec![0, 255, 7, 9], md: vec![kv("x-e", "why"), kv("x-e", "again"), kv("content-type", "text/x"), ("x-d-bin".into(), vec![1, 2, 3])] };
        run_case(out, "corpus.early_error", &CallCase { handler: Handler::Err(e.clone()), ..base.clone() });
        // an "error" whose code is OK (outside the property's domain; the model must still agree)
        run_case(out, "corpus.ok_as_error", &CallCase { handler: Handler::Err(st(0, "fine", vec![kv("x-e", "1")])), ..base.clone() });
        if shape >= 2 {
            // headers + trailers with an error before the first message; mid-stream; after the last
            for p in 0..3usize {
                let mut items = vec![Item::Ok(vec![1]), Item::Ok(vec![2, 2])];
                items.insert(p, Item::Err(e.clone()));
                run_case(out, "corpus.stream_error", &CallCase { handler: Handler::Ok(vec![kv("x-r", "v")], items), ..base.clone() });
            }
            // the same key in the initial metadata and in the status metadata
            run_case(out, "corpus.same_key", &CallCase { handler: Handler::Ok(vec![kv("x-e", "initial")], vec![Item::Ok(vec![1]), Item::Err(e.clone())]), ..base.clone() });
            // no messages at all, OK
            run_case(out, "corpus.edge", &CallCase { handler: Handler::Ok(vec![], vec![]), pcuts: vec![0], ..base.clone() });
        }
        // protocol header names in user metadata (outside the oracle's domain)
        run_case(out, "corpus.protocol_md", &CallCase { md: vec![kv("grpc-encoding", "gzip")], ..base.clone() });
        run_case(out, "corpus.protocol_md", &CallCase { md: vec![kv("grpc-encoding", "identity"), kv("grpc-timeout", "1S")], ..base.clone() });
        run_case(out, "corpus.protocol_md", &CallCase { handler: Handler::Ok(vec![kv("grpc-encoding", "gzip")], vec![Item::Ok(vec![1])]), ..base.clone() });
        run_case(out, "corpus.protocol_md", &CallCase { handler: Handler::Err(st(7, "x", vec![kv("grpc-encoding", "br")])), ..base.clone() });
        // F-C04e (fixed by ed827503): the handler's error status has NO details and an entry named
        // grpc-status-details-bin among its metadata - inside the oracle's domain: the caller gets
        // the handler's code, message and (empty) details; trailers-only and in the trailers
        let own = vec![kv("x-e", "1"), kv("grpc-status-details-bin", "user"), kv("grpc-status-details-bin", "!!")];
        run_case(out, "corpus.F-C04e", &CallCase { handler: Handler::Err(st(7, "no", own.clone())), ..base.clone() });
        run_case(out, "corpus.F-C04e", &CallCase { handler: Handler::Err(st(7, "", own.clone())), ..base.clone() });
        if shape >= 2 {
            run_case(out, "corpus.F-C04e", &CallCase { handler: Handler::Ok(vec![kv("x-r", "v")], vec![Item::Ok(vec![1]), Item::Err(st(7, "no", own.clone()))]), ..base.clone() });
            run_case(out, "corpus.F-C04e", &CallCase { handler: Handler::Ok(vec![], vec![Item::Err(st(3, "", own))]), ..base.clone() });
        }
    }
}

fn main() {
    let a = args();
    let mut out = Out::new(&a.out);
    let mut r = Rng::new(a.seed);
    if let Some(f) = &a.replay {
        let v: Value = serde_json::from_str(&std::fs::read_to_string(f).unwrap()).unwrap();
        let kind = v["kind"].as_str().unwrap_or("call.random").to_string();
        if kind.starts_with("merge.") {
            run_merge_case(&mut out, &kind, &merge_case_from_json(&v["input"]));
            out.finish(IMPORTS, "replay", json!({}));
            return;
        }
        let c = CallCase::from_json(&v["input"]);
        if kind.contains("h2.") {
            h2run::run_case(&mut out, &kind, &c);
        } else {
            run_case(&mut out, &kind, &c);
        }
    } else if std::env::args().any(|x| x == "--limits-only") {
        // C06: the configured limits followed through client::Grpc / server::Grpc
        limit_cases(&mut out, &mut r, a.thorough);
        if a.thorough {
            limit_cases(&mut out, &mut r, true);
        }
        h2run::run_limits(&mut out, &mut r, a.thorough);
    } else {
        corpus(&mut out);
        // 4 shapes x k in 0..5 x all 17 codes x error position (early, before first, mid, after last, none)
        let reps = if a.thorough { 6 } else { 1 };
        for _ in 0..reps {
            for shape in 0..4u8 {
                for code in 0..17u32 {
                    // handler fails before producing a response: trailers-only
                    run_case(&mut out, "call.early", &gen_case(&mut r, shape, 0, Some((0, code)), true, false));
                    if shape >= 2 {
                        for k in 0..6usize {
                            let p = match (code as usize + k) % 3 {
                                0 => 0,
                                1 => k / 2,
                                _ => k,
                            };
                            run_case(&mut out, "call.stream_err", &gen_case(&mut r, shape, k, Some((p, code)), false, false));
                        }
                    }
                }
                for k in 0..6usize {
                    for _ in 0..(if shape >= 2 { 6 } else { 12 }) {
                        run_case(&mut out, "call.ok", &gen_case(&mut r, shape, k, None, false, false));
                    }
                }
            }
        }
        let n_rand = if a.thorough { 6000 } else { 500 };
        for _ in 0..n_rand {
            let shape = r.below(4) as u8;
            let k = r.below(6) as usize;
            let err = if r.chance(1, 2) { Some((r.below(6) as usize, r.range(1, 16) as u32)) } else { None };
            let early = r.chance(1, 6);
            run_case(&mut out, "call.random", &gen_case(&mut r, shape, k, err, early, false));
        }
        // protocol header names among the metadata, OK as an error code: model agreement only
        let n_edge = if a.thorough { 1500 } else { 150 };
        for _ in 0..n_edge {
            let shape = r.below(4) as u8;
            let k = r.below(4) as usize;
            let err = if r.chance(1, 2) { Some((r.below(4) as usize, r.below(17) as u32)) } else { None };
            let early = r.chance(1, 5);
            run_case(&mut out, "edge.protocol_md", &gen_case(&mut r, shape, k, err, early, true));
        }
        // messages above the codec buffer size sharing a DATA chunk with what follows them
        for i in 0..(if a.thorough { 400 } else { 48 }) {
            let shape = (i % 4) as u8;
            let err = if i % 3 == 0 { Some(r.range(1, 16) as u32) } else { None };
            run_case(&mut out, "call.big", &gen_big_case(&mut r, shape, err));
        }
        limit_cases(&mut out, &mut r, a.thorough);
        merge_cases(&mut out, &mut r, if a.thorough { 1200 } else { 160 });
        // audit2 N-C02-4: caller metadata grpc-accept-encoding with a server that may compress and a
        // client that does not accept it (outside the domain: model agreement only)
        for i in 0..(if a.thorough { 200 } else { 24 }) {
            let shape = (i % 4) as u8;
            let mut c = gen_compress_case(&mut r, shape);
            let e = ENCS[i % 3];
            c.cl = SideCfg::default();
            c.sv = SideCfg { send_set: vec![e], ..SideCfg::default() };
            c.md.push(("grpc-accept-encoding".into(), ["gzip", "deflate", "zstd"][i % 3].as_bytes().to_vec()));
            run_case(&mut out, "edge.compress_md", &c);
        }
        for _ in 0..(if a.thorough { 1200 } else { 120 }) {
            let shape = if r.chance(1, 2) { 1 } else { 3 };
            let err = r.chance(1, 2);
            run_case(&mut out, "interleave.early_answer", &gen_interleave_case(&mut r, shape, err));
        }
        for _ in 0..(if a.thorough { 1500 } else { 150 }) {
            let shape = r.below(4) as u8;
            run_case(&mut out, "side.compress", &gen_compress_case(&mut r, shape));
        }
        h2run::run_all(&mut out, &mut r, a.thorough);
    }
    out.finish(
        IMPORTS,
        "call.big: messages of 8188..40000 bytes (around the codec buffer size 8 KiB, the HTTP/2 frame size and the yield threshold 32 KiB) followed without a Pending by small ones, in one chunk / 16384-byte chunks / cut just behind the big frame, both directions. limit.*: max_decoding_message_size / max_encoding_message_size set on client::Grpc and server::Grpc (directly and through apply_max_message_size_config), L in {0,1,5,100}, payloads L-1/L/L+1, position 0..2, four shapes; limit.unary_merge reaches the unary client's error-merge branch. interleave.*: the handler of a streaming-request shape answers (Ok or Err) after reading j < n request messages. side.compress: gzip/deflate/zstd configured in both / one direction. The in-process transport honours Body::is_end_stream() like hyper. h2.* (a subset in the quick tier): real hyper HTTP/2 connections. call.*: real client::Grpc over an in-process transport over real server::Grpc with a scripted handler; 4 shapes x 0..5 response messages x all 17 codes x error position (handler Err before any response = trailers-only; Err item before the first message, mid-stream, after the last; none) x status messages (controls, %, UTF-8 up to U+10FFFF) / details / metadata (repeated keys, -bin values, reserved names) x request streams of 0..4 messages with metadata; request and response DATA re-cut (every prefix byte alone, fixed sizes 1..16, random, empty DATA frames) with scripted Pending on both bodies and both source streams. edge.*: protocol header names (grpc-encoding, grpc-timeout, grpc-status-details-bin) in user metadata and OK used as an error code: cases with a grpc-encoding entry or an OK error code are outside the oracle's domain (model agreement only); grpc-status-details-bin in status metadata is inside it since fix ed827503 (F-C04e: the error's details must be the handler's, the entry itself is never delivered). h2.* (thorough): the same scripts over hyper/h2 on tokio::io::duplex(256) - final observables. Non-trivial = an error outcome, or >= 2 response items, or a re-cut body. Distinct = distinct (kind, model expression).",
        json!({"exhaustive": false}),
    );
}
