//! Shared plumbing of the correspondence harnesses: PRNG, the universal observable tree
//! (printed as a Gallina term of type `Verif.Lib.Obs.tr`), case/summary writers.
use serde_json::{json, Value};
use std::collections::BTreeMap;
use std::io::Write;

// ---------------------------------------------------------------- PRNG (splitmix64)
#[derive(Clone)]
pub struct Rng(pub u64);
impl Rng {
    pub fn new(seed: u64) -> Self {
        Rng(seed ^ 0x9E37_79B9_7F4A_7C15)
    }
    pub fn next(&mut self) -> u64 {
        self.0 = self.0.wrapping_add(0x9E37_79B9_7F4A_7C15);
        let mut z = self.0;
        z = (z ^ (z >> 30)).wrapping_mul(0xBF58_476D_1CE4_E5B9);
        z = (z ^ (z >> 27)).wrapping_mul(0x94D0_49BB_1331_11EB);
        z ^ (z >> 31)
    }
    /// uniform in 0..n (n > 0)
    pub fn below(&mut self, n: u64) -> u64 {
        self.next() % n
    }
    pub fn range(&mut self, lo: u64, hi_incl: u64) -> u64 {
        lo + self.below(hi_incl - lo + 1)
    }
    pub fn chance(&mut self, num: u64, den: u64) -> bool {
        self.below(den) < num
    }
    pub fn pick<'a, T>(&mut self, xs: &'a [T]) -> &'a T {
        &xs[self.below(xs.len() as u64) as usize]
    }
    pub fn bytes(&mut self, n: usize) -> Vec<u8> {
        (0..n).map(|_| self.next() as u8).collect()
    }
    pub fn fork(&mut self) -> Rng {
        Rng(self.next())
    }
}

// ---------------------------------------------------------------- observable tree
#[derive(Clone, Debug, PartialEq, Eq, Hash)]
pub enum Tr {
    N(u128),
    B(Vec<u8>),
    L(Vec<Tr>),
}
impl Tr {
    pub fn n<T: Into<u128>>(x: T) -> Tr {
        Tr::N(x.into())
    }
    pub fn b(x: &[u8]) -> Tr {
        Tr::B(x.to_vec())
    }
    pub fn s(x: &str) -> Tr {
        Tr::B(x.as_bytes().to_vec())
    }
    pub fn bool(x: bool) -> Tr {
        Tr::N(x as u128)
    }
    pub fn tag(t: u128, mut rest: Vec<Tr>) -> Tr {
        let mut v = vec![Tr::N(t)];
        v.append(&mut rest);
        Tr::L(v)
    }
    pub fn opt(x: Option<Tr>) -> Tr {
        Tr::L(x.into_iter().collect())
    }
    /// Gallina term (assumes `Open Scope N_scope` and list notations)
    pub fn to_coq(&self) -> String {
        let mut s = String::new();
        self.write_coq(&mut s);
        s
    }
    fn write_coq(&self, s: &mut String) {
        match self {
            Tr::N(n) => {
                s.push_str("(Nn ");
                s.push_str(&n.to_string());
                s.push(')');
            }
            Tr::B(b) => {
                s.push_str("(Bs ");
                s.push_str(&coq_bytes(b));
                s.push(')');
            }
            Tr::L(l) => {
                s.push_str("(Nd [");
                for (i, x) in l.iter().enumerate() {
                    if i > 0 {
                        s.push(';');
                    }
                    x.write_coq(s);
                }
                s.push_str("])");
            }
        }
    }
    pub fn to_json(&self) -> Value {
        match self {
            Tr::N(n) => json!(n.to_string()),
            Tr::B(b) => json!({ "b": hex(b) }),
            Tr::L(l) => Value::Array(l.iter().map(|x| x.to_json()).collect()),
        }
    }
}

pub fn hex(b: &[u8]) -> String {
    b.iter().map(|x| format!("{:02x}", x)).collect()
}
pub fn unhex(s: &str) -> Vec<u8> {
    (0..s.len() / 2)
        .map(|i| u8::from_str_radix(&s[2 * i..2 * i + 2], 16).unwrap())
        .collect()
}

/// `[1;2;3]`; long runs of one byte and long ramps are emitted through `rep`/`ramp`
pub fn coq_bytes(b: &[u8]) -> String {
    if b.len() >= 64 {
        if b.iter().all(|x| *x == b[0]) {
            return format!("(rep {} {})", b.len(), b[0]);
        }
        if b
            .iter()
            .enumerate()
            .all(|(i, x)| *x == (b[0] as usize + i) as u8)
        {
            return format!("(ramp {} {})", b.len(), b[0]);
        }
    }
    let mut s = String::with_capacity(b.len() * 4 + 2);
    s.push('[');
    for (i, x) in b.iter().enumerate() {
        if i > 0 {
            s.push(';');
        }
        s.push_str(&x.to_string());
    }
    s.push(']');
    s
}
pub fn coq_list<T>(xs: &[T], f: impl Fn(&T) -> String) -> String {
    let mut s = String::from("[");
    for (i, x) in xs.iter().enumerate() {
        if i > 0 {
            s.push(';');
        }
        s.push_str(&f(x));
    }
    s.push(']');
    s
}
pub fn coq_opt<T>(x: &Option<T>, f: impl Fn(&T) -> String) -> String {
    match x {
        None => "None".to_string(),
        Some(v) => format!("(Some {})", f(v)),
    }
}
pub fn coq_bool(b: bool) -> &'static str {
    if b {
        "true"
    } else {
        "false"
    }
}
/// header map as a Gallina `hm` literal: list of (name bytes, value bytes), iteration order
pub fn coq_hm(m: &http::HeaderMap) -> String {
    let v: Vec<(Vec<u8>, Vec<u8>)> = m
        .iter()
        .map(|(k, v)| (k.as_str().as_bytes().to_vec(), v.as_bytes().to_vec()))
        .collect();
    coq_pairs(&v)
}
pub fn coq_pairs(v: &[(Vec<u8>, Vec<u8>)]) -> String {
    coq_list(v, |(k, v)| format!("({},{})", coq_bytes(k), coq_bytes(v)))
}
/// canonical observable of a header map: names sorted, values of one name in order
pub fn hm_tr(m: &http::HeaderMap) -> Tr {
    let mut g: BTreeMap<Vec<u8>, Vec<Tr>> = BTreeMap::new();
    for (k, v) in m.iter() {
        g.entry(k.as_str().as_bytes().to_vec())
            .or_default()
            .push(Tr::b(v.as_bytes()));
    }
    Tr::L(g
        .into_iter()
        .map(|(k, vs)| Tr::L(vec![Tr::B(k), Tr::L(vs)]))
        .collect())
}
pub fn hm_json(m: &http::HeaderMap) -> Value {
    Value::Array(
        m.iter()
            .map(|(k, v)| json!([k.as_str(), hex(v.as_bytes())]))
            .collect(),
    )
}
pub fn hm_from_json(v: &Value) -> http::HeaderMap {
    let mut m = http::HeaderMap::new();
    for e in v.as_array().unwrap() {
        let k = http::HeaderName::from_bytes(e[0].as_str().unwrap().as_bytes()).unwrap();
        let val = http::HeaderValue::from_bytes(&unhex(e[1].as_str().unwrap())).unwrap();
        m.append(k, val);
    }
    m
}

// ---------------------------------------------------------------- command line
pub struct Args {
    pub seed: u64,
    pub thorough: bool,
    pub out: String,
    pub replay: Option<String>,
    pub scale: u64,
}
pub fn args() -> Args {
    let a: Vec<String> = std::env::args().collect();
    let mut r = Args {
        seed: 1,
        thorough: false,
        out: ".".into(),
        replay: None,
        scale: 1,
    };
    let mut i = 1;
    while i < a.len() {
        match a[i].as_str() {
            "--seed" => {
                r.seed = a[i + 1].parse().unwrap_or(1);
                i += 1
            }
            "--tier" => {
                r.thorough = a[i + 1] == "thorough";
                i += 1
            }
            "--out" => {
                r.out = a[i + 1].clone();
                i += 1
            }
            "--replay" => {
                r.replay = Some(a[i + 1].clone());
                i += 1
            }
            "--scale" => {
                r.scale = a[i + 1].parse().unwrap_or(1);
                i += 1
            }
            _ => {}
        }
        i += 1;
    }
    r
}

// ---------------------------------------------------------------- case output
/// One compared case.  `model` is a Gallina expression of type `tr`, `impl_obs` what the
/// implementation did; the driver checks `tr_eqb model impl_obs` inside Coq.  `oracle` is the
/// property's direct verdict on the implementation (None = holds).
pub struct Case {
    pub kind: String,
    pub input: Value,
    pub model: String,
    pub impl_obs: Tr,
    pub oracle: Option<String>,
    pub nontrivial: bool,
}

pub struct Out {
    f: std::io::BufWriter<std::fs::File>,
    dir: String,
    n: u64,
    kinds: BTreeMap<String, u64>,
    hist: BTreeMap<String, BTreeMap<String, u64>>,
    samples: Vec<Value>,
    seen: std::collections::HashSet<u64>,
    nontrivial_distinct: u64,
    oracle_fail: u64,
}
fn fnv(s: &str) -> u64 {
    let mut h: u64 = 0xcbf29ce484222325;
    for b in s.bytes() {
        h ^= b as u64;
        h = h.wrapping_mul(0x100000001b3);
    }
    h
}
impl Out {
    pub fn new(dir: &str) -> Out {
        std::fs::create_dir_all(dir).unwrap();
        let f = std::fs::File::create(format!("{}/cases.jsonl", dir)).unwrap();
        Out {
            f: std::io::BufWriter::new(f),
            dir: dir.to_string(),
            n: 0,
            kinds: BTreeMap::new(),
            hist: BTreeMap::new(),
            samples: vec![],
            seen: Default::default(),
            nontrivial_distinct: 0,
            oracle_fail: 0,
        }
    }
    pub fn count(&self) -> u64 {
        self.n
    }
    /// record a value in a named histogram of the input distribution
    pub fn hist(&mut self, name: &str, bucket: impl ToString) {
        *self
            .hist
            .entry(name.to_string())
            .or_default()
            .entry(bucket.to_string())
            .or_default() += 1;
    }
    pub fn push(&mut self, c: Case) {
        let id = self.n;
        self.n += 1;
        *self.kinds.entry(c.kind.clone()).or_default() += 1;
        let key = fnv(&format!("{}|{}", c.kind, c.model));
        if self.seen.insert(key) && c.nontrivial {
            self.nontrivial_distinct += 1;
        }
        if c.oracle.is_some() {
            self.oracle_fail += 1;
        }
        let per_kind = self.kinds[&c.kind];
        let rec = json!({
            "id": id, "kind": c.kind, "input": c.input, "model": c.model,
            "impl": c.impl_obs.to_coq(), "impl_json": c.impl_obs.to_json(),
            "oracle": c.oracle, "nontrivial": c.nontrivial,
        });
        if per_kind <= 2 && self.samples.len() < 12 {
            self.samples.push(json!({"kind": rec["kind"], "input": rec["input"], "impl": rec["impl_json"]}));
        }
        writeln!(self.f, "{}", rec).unwrap();
    }
    pub fn finish(mut self, imports: &str, rule: &str, extra: Value) {
        self.f.flush().unwrap();
        let s = json!({
            "coq_imports": imports,
            "evaluations": self.n,
            "distinct_nontrivial": self.nontrivial_distinct,
            "oracle_failures": self.oracle_fail,
            "rule": rule,
            "kinds": self.kinds,
            "distribution": self.hist,
            "samples": self.samples,
            "extra": extra,
        });
        std::fs::write(
            format!("{}/summary.json", self.dir),
            serde_json::to_string_pretty(&s).unwrap(),
        )
        .unwrap();
    }
}

/// run `f`, mapping a panic to `Err(message)`
pub fn catch<T>(f: impl FnOnce() -> T + std::panic::UnwindSafe) -> Result<T, String> {
    let prev = std::panic::take_hook();
    std::panic::set_hook(Box::new(|_| {}));
    let r = std::panic::catch_unwind(f);
    std::panic::set_hook(prev);
    r.map_err(|e| {
        if let Some(s) = e.downcast_ref::<&str>() {
            s.to_string()
        } else if let Some(s) = e.downcast_ref::<String>() {
            s.clone()
        } else {
            "panic".to_string()
        }
    })
}

// ---------------------------------------------------------------- scripted bodies, executor
pub mod body {
    use bytes::Bytes;
    use http::HeaderMap;
    use http_body::{Body, Frame};
    use std::collections::VecDeque;
    use std::pin::Pin;
    use std::sync::atomic::{AtomicUsize, Ordering};
    use std::sync::Arc;
    use std::task::{Context, Poll};

    /// one scripted poll result of a body; after the script the body answers `None` forever
    #[derive(Clone, Debug)]
    pub enum Ev<E> {
        Pending,
        Data(Vec<u8>),
        Trailers(HeaderMap),
        Err(E),
    }
    pub struct ScriptBody<E> {
        pub evs: VecDeque<Ev<E>>,
        /// number of polls that happened after the body had returned `None`
        pub polls_after_end: Arc<AtomicUsize>,
        ended: bool,
        /// an "accurate" body: `is_end_stream()` is true as soon as the script is exhausted (as
        /// http_body_util::Full or an h2 body whose last DATA frame carried END_STREAM answer),
        /// instead of the trait's default `false`
        eager_eos: bool,
        /// at least one frame has been handed out (an accurate body that is empty from the start
        /// is swapped for an empty body by tonic before anyone polls it: not what is exercised here)
        started: bool,
    }
    static EAGER_EOS: std::sync::atomic::AtomicBool = std::sync::atomic::AtomicBool::new(false);
    /// bodies created from now on report `is_end_stream()` accurately (true) / by default (false);
    /// a consumer must behave the same either way - harnesses alternate the mode between cases
    pub fn set_eager_eos(on: bool) {
        EAGER_EOS.store(on, Ordering::SeqCst);
    }
    impl<E> ScriptBody<E> {
        pub fn new(evs: Vec<Ev<E>>) -> (Self, Arc<AtomicUsize>) {
            let c = Arc::new(AtomicUsize::new(0));
            (
                ScriptBody { evs: evs.into(), polls_after_end: c.clone(), ended: false, eager_eos: EAGER_EOS.load(Ordering::SeqCst), started: false },
                c,
            )
        }
    }
    impl<E> Unpin for ScriptBody<E> {}
    impl<E> Body for ScriptBody<E> {
        type Data = Bytes;
        type Error = E;
        fn poll_frame(
            mut self: Pin<&mut Self>,
            cx: &mut Context<'_>,
        ) -> Poll<Option<Result<Frame<Bytes>, E>>> {
            let ev = self.evs.pop_front();
            if matches!(ev, Some(Ev::Data(_)) | Some(Ev::Trailers(_)) | Some(Ev::Err(_))) {
                self.started = true;
            }
            match ev {
                Some(Ev::Pending) => {
                    cx.waker().wake_by_ref();
                    Poll::Pending
                }
                Some(Ev::Data(d)) => Poll::Ready(Some(Ok(Frame::data(Bytes::from(d))))),
                Some(Ev::Trailers(t)) => Poll::Ready(Some(Ok(Frame::trailers(t)))),
                Some(Ev::Err(e)) => Poll::Ready(Some(Err(e))),
                None => {
                    if self.ended {
                        self.polls_after_end.fetch_add(1, Ordering::SeqCst);
                    }
                    self.ended = true;
                    Poll::Ready(None)
                }
            }
        }
        fn is_end_stream(&self) -> bool {
            self.eager_eos && self.started && self.evs.is_empty()
        }
    }

    pub fn noop_waker() -> std::task::Waker {
        use std::task::{RawWaker, RawWakerVTable, Waker};
        fn clone(_: *const ()) -> RawWaker {
            RawWaker::new(std::ptr::null(), &VT)
        }
        fn noop(_: *const ()) {}
        static VT: RawWakerVTable = RawWakerVTable::new(clone, noop, noop, noop);
        unsafe { Waker::from_raw(RawWaker::new(std::ptr::null(), &VT)) }
    }

    /// Poll a future to completion with a no-op waker, re-polling after `Pending`
    /// (scripted sources never need a real wake-up).  `Err(())` after `max_polls`: a hang.
    pub fn spin<F: std::future::Future>(f: F, max_polls: usize) -> Result<F::Output, ()> {
        let w = noop_waker();
        let mut cx = Context::from_waker(&w);
        let mut f = std::pin::pin!(f);
        for _ in 0..max_polls {
            if let Poll::Ready(v) = f.as_mut().poll(&mut cx) {
                return Ok(v);
            }
        }
        Err(())
    }
}
