//! C03 (and the encoder halves of C01 / C06) correspondence harness.
//!
//! Drives the REAL `tonic::codec::EncodeBody::{new_client,new_server}` with a scripted source
//! stream (Ready / Pending pattern from the case) and a raw-bytes `Encoder`, the REAL
//! `tonic::client::Grpc` over a capturing service (request heads + request bodies) and the REAL
//! `tonic::server::Grpc::{unary,server_streaming}` (response heads + response bodies).
//!
//! ORACLE (model independent): `/verif/oracle/grpc_wire.py` parses every body, plus the
//! structural checks in `judge_frames` (one trailers block, last, one grpc-status, nothing
//! after it however often the body is polled again, no trailers from a client, every message
//! before a failure delivered in order) and `judge_*_head`.
use bytes::{BufMut, Bytes};
use http::{HeaderMap, HeaderValue};
use http_body::Body as HttpBody;
use serde_json::{json, Value};
use std::collections::VecDeque;
use std::io::Read;
use std::pin::Pin;
use std::sync::atomic::{AtomicUsize, Ordering};
use std::sync::{Arc, Mutex};
use std::task::{Context, Poll};
use tonic::codec::{BufferSettings, Codec, CompressionEncoding, DecodeBuf, Decoder, EncodeBody, EncodeBuf, Encoder};
use tonic::metadata::{MetadataKey, MetadataMap, MetadataValue};
use tonic::{Code, Status};
use vcommon::body::{noop_waker, spin, Ev, ScriptBody};
use vcommon::*;

mod ext;
const IMPORTS: &str =
    "From Verif Require Import Lib.Bytes Lib.Obs Lib.HeaderMap Model.Status Model.Encoder Model.EncoderExt.";
const EXTRA_POLLS: usize = 5;
const ENC_ERR_PREFIX: &str = "Error encoding: ";
const ENC_ERR_PREFIX_PCT: &[u8] = b"Error%20encoding:%20";

// ------------------------------------------------------------------ raw codec
#[derive(Clone, Copy, Debug, Default)]
struct RawCodec {
    bs: Option<(usize, usize)>,
}
struct RawEnc {
    bs: Option<(usize, usize)>,
}
impl Encoder for RawEnc {
    type Item = Vec<u8>;
    type Error = Status;
    fn encode(&mut self, item: Vec<u8>, dst: &mut EncodeBuf<'_>) -> Result<(), Status> {
        if item.first() == Some(&0xFE) {
            // a codec that fails after it has already written part of the message
            dst.put_slice(&item[..item.len() / 2]);
            return Err(Status::data_loss("boom"));
        }
        dst.put_slice(&item);
        Ok(())
    }
    fn buffer_settings(&self) -> BufferSettings {
        match self.bs {
            Some((a, b)) => BufferSettings::new(a, b),
            None => BufferSettings::default(),
        }
    }
}
#[derive(Default)]
struct RawDec;
impl Decoder for RawDec {
    type Item = Vec<u8>;
    type Error = Status;
    fn decode(&mut self, src: &mut DecodeBuf<'_>) -> Result<Option<Vec<u8>>, Status> {
        use bytes::Buf;
        let mut v = vec![0u8; src.remaining()];
        src.copy_to_slice(&mut v);
        Ok(Some(v))
    }
}
impl Codec for RawCodec {
    type Encode = Vec<u8>;
    type Decode = Vec<u8>;
    type Encoder = RawEnc;
    type Decoder = RawDec;
    fn encoder(&mut self) -> RawEnc {
        RawEnc { bs: self.bs }
    }
    fn decoder(&mut self) -> RawDec {
        RawDec
    }
}

// ------------------------------------------------------------------ scripted source
#[derive(Clone, Debug)]
enum SEv {
    Pending,
    Ok(Vec<u8>),
    Err(StSpec),
}
/// a status as data (so that it can be replayed and printed for the model)
#[derive(Clone, Debug)]
struct StSpec {
    code: u32,
    msg: String,
    details: Vec<u8>,
    md: Vec<(String, Vec<u8>)>,
}
impl StSpec {
    fn metadata(&self) -> MetadataMap {
        let mut m = MetadataMap::new();
        for (k, v) in &self.md {
            if k.ends_with("-bin") {
                m.append_bin(MetadataKey::from_bytes(k.as_bytes()).unwrap(), MetadataValue::from_bytes(v));
            } else if let Ok(val) = std::str::from_utf8(v).unwrap_or("").parse::<MetadataValue<_>>() {
                m.append(MetadataKey::from_bytes(k.as_bytes()).unwrap(), val);
            }
        }
        m
    }
    fn status(&self) -> Status {
        Status::with_details_and_metadata(
            Code::from_i32(self.code as i32),
            self.msg.clone(),
            Bytes::copy_from_slice(&self.details),
            self.metadata(),
        )
    }
    fn coq(&self) -> String {
        format!(
            "(mkStatus {} {} {} {})",
            self.code,
            coq_bytes(self.msg.as_bytes()),
            coq_bytes(&self.details),
            coq_hm(&self.metadata().into_headers())
        )
    }
    fn json(&self) -> Value {
        json!({"code": self.code, "msg": self.msg, "details": hex(&self.details),
               "md": self.md.iter().map(|(k, v)| json!([k, hex(v)])).collect::<Vec<_>>()})
    }
    fn from_json(v: &Value) -> StSpec {
        StSpec {
            code: v["code"].as_u64().unwrap() as u32,
            msg: v["msg"].as_str().unwrap().to_string(),
            details: unhex(v["details"].as_str().unwrap()),
            md: v["md"].as_array().unwrap().iter().map(|e| (e[0].as_str().unwrap().to_string(), unhex(e[1].as_str().unwrap()))).collect(),
        }
    }
}
const POISON: &[u8] = b"POLLED-AFTER-END";
/// what a STRICT (non-fused) source does when it is polled after it returned None: it counts the
/// poll and then either invents an item or panics (both are legal for a Stream)
#[derive(Clone)]
struct Strict {
    ended: bool,
    after_end: Arc<AtomicUsize>,
    panic_mode: bool,
}
impl Strict {
    fn new(panic_mode: bool) -> (Strict, Arc<AtomicUsize>) {
        let c = Arc::new(AtomicUsize::new(0));
        (Strict { ended: false, after_end: c.clone(), panic_mode }, c)
    }
    /// the script is exhausted: None the first time, a violation afterwards
    fn at_end(&mut self) -> Option<Vec<u8>> {
        if self.ended {
            self.after_end.fetch_add(1, Ordering::SeqCst);
            if self.panic_mode {
                panic!("source stream polled after it returned None");
            }
            Some(POISON.to_vec())
        } else {
            self.ended = true;
            None
        }
    }
}
struct Script {
    evs: VecDeque<SEv>,
    strict: Strict,
}
impl tokio_stream::Stream for Script {
    type Item = Result<Vec<u8>, Status>;
    fn poll_next(mut self: Pin<&mut Self>, cx: &mut Context<'_>) -> Poll<Option<Self::Item>> {
        match self.evs.pop_front() {
            Some(SEv::Pending) => {
                cx.waker().wake_by_ref();
                Poll::Pending
            }
            Some(SEv::Ok(m)) => Poll::Ready(Some(Ok(m))),
            Some(SEv::Err(s)) => Poll::Ready(Some(Err(s.status()))),
            None => Poll::Ready(self.strict.at_end().map(Ok)),
        }
    }
}
/// the strict source of client-streaming requests (items are plain messages there)
struct StrictIter {
    items: VecDeque<Vec<u8>>,
    strict: Strict,
}
impl tokio_stream::Stream for StrictIter {
    type Item = Vec<u8>;
    fn poll_next(mut self: Pin<&mut Self>, _: &mut Context<'_>) -> Poll<Option<Vec<u8>>> {
        match self.items.pop_front() {
            Some(m) => Poll::Ready(Some(m)),
            None => Poll::Ready(self.strict.at_end()),
        }
    }
}
fn sev_coq(e: &SEv) -> String {
    match e {
        SEv::Pending => "SPending".into(),
        SEv::Ok(m) => format!("SItem (IOk {})", coq_bytes(m)),
        SEv::Err(s) => format!("SItem (IErr {})", s.coq()),
    }
}
fn sev_json(e: &SEv) -> Value {
    match e {
        SEv::Pending => json!("P"),
        SEv::Ok(m) => json!({"ok": msg_json(m)}),
        SEv::Err(s) => json!({"err": s.json()}),
    }
}
/// long uniform messages are stored by (len, byte) to keep the case files small
fn msg_json(m: &[u8]) -> Value {
    if m.len() >= 64 && m.iter().all(|b| *b == m[0]) {
        json!({"rep": [m.len(), m[0]]})
    } else {
        json!(hex(m))
    }
}
fn msg_from_json(v: &Value) -> Vec<u8> {
    if let Some(s) = v.as_str() {
        unhex(s)
    } else {
        let r = v["rep"].as_array().unwrap();
        vec![r[1].as_u64().unwrap() as u8; r[0].as_u64().unwrap() as usize]
    }
}
fn sev_from_json(v: &Value) -> SEv {
    if v.as_str() == Some("P") {
        SEv::Pending
    } else if !v["ok"].is_null() {
        SEv::Ok(msg_from_json(&v["ok"]))
    } else {
        SEv::Err(StSpec::from_json(&v["err"]))
    }
}

// ------------------------------------------------------------------ configuration
#[derive(Clone, Copy, Debug, PartialEq, Eq)]
enum Enc {
    Gzip,
    Deflate,
    Zstd,
}
const ENCS: [Enc; 3] = [Enc::Gzip, Enc::Deflate, Enc::Zstd];
impl Enc {
    fn tonic(self) -> CompressionEncoding {
        match self {
            Enc::Gzip => CompressionEncoding::Gzip,
            Enc::Deflate => CompressionEncoding::Deflate,
            Enc::Zstd => CompressionEncoding::Zstd,
        }
    }
    fn name(self) -> &'static str {
        match self {
            Enc::Gzip => "gzip",
            Enc::Deflate => "deflate",
            Enc::Zstd => "zstd",
        }
    }
    fn coq(self) -> &'static str {
        match self {
            Enc::Gzip => "Gzip",
            Enc::Deflate => "Deflate",
            Enc::Zstd => "Zstd",
        }
    }
    fn from_name(s: &str) -> Option<Enc> {
        ENCS.iter().copied().find(|e| e.name() == s)
    }
    /// the library called directly, with the parameters tonic documents (level 6 / default)
    fn compress(self, b: &[u8]) -> Vec<u8> {
        let mut out = vec![];
        match self {
            Enc::Gzip => {
                flate2::read::GzEncoder::new(b, flate2::Compression::new(6)).read_to_end(&mut out).unwrap();
            }
            Enc::Deflate => {
                flate2::read::ZlibEncoder::new(b, flate2::Compression::new(6)).read_to_end(&mut out).unwrap();
            }
            Enc::Zstd => {
                zstd::stream::read::Encoder::new(b, zstd::DEFAULT_COMPRESSION_LEVEL).unwrap().read_to_end(&mut out).unwrap();
            }
        }
        out
    }
    fn decompress(self, b: &[u8]) -> Option<Vec<u8>> {
        let mut out = vec![];
        let r = match self {
            Enc::Gzip => flate2::read::GzDecoder::new(b).read_to_end(&mut out).map(|_| ()),
            Enc::Deflate => flate2::read::ZlibDecoder::new(b).read_to_end(&mut out).map(|_| ()),
            Enc::Zstd => zstd::stream::read::Decoder::new(b).and_then(|mut d| d.read_to_end(&mut out).map(|_| ())),
        };
        r.ok().map(|_| out)
    }
}
#[derive(Clone, Debug)]
struct Cfg {
    comp: Option<Enc>,
    override_disable: bool,
    max: Option<usize>,
    bs: Option<(usize, usize)>,
}
impl Cfg {
    fn eff(&self) -> Option<Enc> {
        if self.override_disable {
            None
        } else {
            self.comp
        }
    }
    fn coq(&self) -> String {
        let (a, b) = self.bs.unwrap_or((8192, 32768));
        format!(
            "(mkCfg {} {} {} {} {})",
            coq_opt(&self.comp, |e| e.coq().to_string()),
            coq_bool(self.override_disable),
            coq_opt(&self.max, |m| m.to_string()),
            a,
            b
        )
    }
    fn json(&self) -> Value {
        json!({"comp": self.comp.map(|e| e.name()), "override_disable": self.override_disable,
               "max": self.max, "bs": self.bs.map(|(a, b)| json!([a, b]))})
    }
    fn from_json(v: &Value) -> Cfg {
        Cfg {
            comp: v["comp"].as_str().and_then(Enc::from_name),
            override_disable: v["override_disable"].as_bool().unwrap_or(false),
            max: v["max"].as_u64().map(|x| x as usize),
            bs: v["bs"].as_array().map(|a| (a[0].as_u64().unwrap() as usize, a[1].as_u64().unwrap() as usize)),
        }
    }
}

// ------------------------------------------------------------------ observing a body
#[derive(Clone, Debug)]
enum Obs {
    Pending,
    None,
    Data(Vec<u8>),
    Trailers(HeaderMap),
    Err(u32, String),
    Panic(String),
}
fn canon_trailers(t: &HeaderMap) -> HeaderMap {
    let mut t = t.clone();
    if let Some(v) = t.get("grpc-message") {
        if v.as_bytes().starts_with(ENC_ERR_PREFIX_PCT) {
            t.insert("grpc-message", HeaderValue::from_bytes(ENC_ERR_PREFIX_PCT).unwrap());
        }
    }
    t
}
/// run-length segmentation of a DATA chunk, the same as Model/Encoder.v `segs (runs d) []`:
/// maximal runs of >= 64 equal bytes become [count, byte], everything between them a literal
fn segs(d: &[u8]) -> Vec<Tr> {
    let mut out = vec![];
    let mut lit: Vec<u8> = vec![];
    let mut i = 0;
    while i < d.len() {
        let mut j = i;
        while j < d.len() && d[j] == d[i] {
            j += 1;
        }
        if j - i >= 64 {
            if !lit.is_empty() {
                out.push(Tr::B(std::mem::take(&mut lit)));
            }
            out.push(Tr::L(vec![Tr::n((j - i) as u64), Tr::n(d[i])]));
        } else {
            lit.extend_from_slice(&d[i..j]);
        }
        i = j;
    }
    if !lit.is_empty() {
        out.push(Tr::B(lit));
    }
    out
}
fn obs_tr(o: &Obs) -> Tr {
    match o {
        Obs::Pending => Tr::L(vec![Tr::n(0u8)]),
        Obs::None => Tr::L(vec![Tr::n(1u8)]),
        Obs::Data(d) => Tr::tag(2, segs(d)),
        Obs::Trailers(t) => Tr::L(vec![Tr::n(3u8), hm_tr(&canon_trailers(t))]),
        Obs::Err(c, m) => {
            let m = if m.starts_with(ENC_ERR_PREFIX) { ENC_ERR_PREFIX } else { m.as_str() };
            Tr::L(vec![Tr::n(4u8), Tr::n(*c), Tr::s(m)])
        }
        Obs::Panic(_) => Tr::L(vec![Tr::n(99u8)]),
    }
}
/// poll until None (at most `budget` polls), then EXTRA_POLLS more
/// what one drain saw: is_end_stream() before the first poll, every poll result with the
/// is_end_stream() answer right after it, and whether None was reached
struct Drained {
    /// polls of the source stream after it had returned None (filled in by the caller)
    after_end: usize,
    init_es: bool,
    obs: Vec<Obs>,
    es: Vec<bool>,
    ended: bool,
}
impl Drained {
    fn tr(&self) -> Tr {
        let mut v = vec![Tr::n(self.after_end as u64), Tr::bool(self.init_es)];
        for (o, e) in self.obs.iter().zip(self.es.iter()) {
            v.push(Tr::L(vec![obs_tr(o), Tr::bool(*e)]));
        }
        Tr::L(v)
    }
}
fn drain<B>(body: B, budget: usize) -> Drained
where
    B: HttpBody<Data = Bytes, Error = Status>,
{
    let d = drain0(body, budget);
    d
}
fn drain0<B>(body: B, budget: usize) -> Drained
where
    B: HttpBody<Data = Bytes, Error = Status>,
{
    let mut body = Box::pin(body);
    let init_es = body.is_end_stream();
    let mut es: Vec<bool> = vec![];
    let w = noop_waker();
    let mut cx = Context::from_waker(&w);
    let mut out = vec![];
    let mut ended = false;
    let mut after = 0;
    let mut polls = 0;
    loop {
        if ended {
            if after == EXTRA_POLLS {
                break;
            }
            after += 1;
        } else if polls == budget {
            break;
        }
        polls += 1;
        let r = catch(std::panic::AssertUnwindSafe(|| body.as_mut().poll_frame(&mut cx)));
        match r {
            Err(p) => {
                out.push(Obs::Panic(p));
                es.push(false);
                return Drained { after_end: 0, init_es, obs: out, es, ended };
            }
            Ok(Poll::Pending) => out.push(Obs::Pending),
            Ok(Poll::Ready(None)) => {
                ended = true;
                out.push(Obs::None)
            }
            Ok(Poll::Ready(Some(Err(st)))) => out.push(Obs::Err(st.code() as i32 as u32, st.message().to_string())),
            Ok(Poll::Ready(Some(Ok(f)))) => match f.into_data() {
                Ok(d) => out.push(Obs::Data(d.to_vec())),
                Err(f) => match f.into_trailers() {
                    Ok(t) => out.push(Obs::Trailers(t)),
                    Err(_) => out.push(Obs::Panic("frame that is neither data nor trailers".into())),
                },
            },
        }
        es.push(body.is_end_stream());
    }
    Drained { after_end: 0, init_es, obs: out, es, ended }
}
/// the source contract: a stream that has returned None is not polled again
fn judge_source(d: &Drained) -> Option<String> {
    if d.after_end != 0 {
        return Some(format!("the source stream was polled {} time(s) after it had returned None", d.after_end));
    }
    None
}
/// M3: a consumer (hyper) that stops polling as soon as is_end_stream() answers true must have
/// received every DATA frame and the trailers / the error
fn judge_end_stream(server: bool, d: &Drained) -> Option<String> {
    let is_frame = |o: &Obs| matches!(o, Obs::Data(_) | Obs::Trailers(_) | Obs::Err(..));
    let total = d.obs.iter().filter(|o| is_frame(o)).count();
    if d.init_es && total > 0 {
        return Some("is_end_stream() is true before the first poll of a body that has frames".into());
    }
    if let Some(i) = d.es.iter().position(|e| *e) {
        let seen = d.obs[..=i].iter().filter(|o| is_frame(o)).count();
        if seen != total {
            return Some(format!(
                "is_end_stream() turned true after poll {} with {} of {} frames delivered: a consumer that stops there loses the rest",
                i, seen, total
            ));
        }
        if !server {
            return Some("is_end_stream() of a client request body turned true".into());
        }
    }
    None
}

// ------------------------------------------------------------------ the property's direct checks
/// what the property demands of this source, computed without the model:
/// the messages that must be on the wire and how the body must end
struct Expect {
    messages: Vec<Vec<u8>>,
    /// grpc-status the call ends with (0 = OK)
    code: u32,
}
fn expect(cfg: &Cfg, src: &[SEv]) -> Expect {
    let limit = cfg.max.unwrap_or(usize::MAX);
    let mut messages = vec![];
    for e in src {
        match e {
            SEv::Pending => {}
            SEv::Err(s) => return Expect { messages, code: s.code },
            SEv::Ok(m) => {
                if m.first() == Some(&0xFE) {
                    return Expect { messages, code: 13 };
                }
                let wire = match cfg.eff() {
                    Some(e) => e.compress(m).len(),
                    None => m.len(),
                };
                if wire > limit {
                    return Expect { messages, code: 11 };
                }
                messages.push(m.clone());
            }
        }
    }
    Expect { messages, code: 0 }
}
/// structural part of the oracle; the byte-level part is the Python judge
fn judge_frames(server: bool, obs: &[Obs], ended: bool, want: &Expect) -> Option<String> {
    if let Some(Obs::Panic(p)) = obs.iter().find(|o| matches!(o, Obs::Panic(_))) {
        return Some(format!("panic while polling the body: {}", p));
    }
    if !ended {
        return Some("the body never returned None".into());
    }
    let first_none = obs.iter().position(|o| matches!(o, Obs::None)).unwrap();
    if obs[first_none..].iter().any(|o| !matches!(o, Obs::None)) {
        return Some("the body produced something after it had returned None".into());
    }
    let frames: Vec<&Obs> = obs[..first_none].iter().filter(|o| !matches!(o, Obs::Pending)).collect();
    let n_tr = frames.iter().filter(|o| matches!(o, Obs::Trailers(_))).count();
    if server {
        if frames.iter().any(|o| matches!(o, Obs::Err(..))) {
            return Some("server body returned an error instead of trailers".into());
        }
        if n_tr != 1 {
            return Some(format!("{} trailers blocks in a server body", n_tr));
        }
        match frames.last() {
            Some(Obs::Trailers(t)) => {
                let st: Vec<_> = t.get_all("grpc-status").iter().collect();
                if st.len() != 1 {
                    return Some(format!("{} grpc-status values in the trailers", st.len()));
                }
                if st[0].as_bytes() != want.code.to_string().as_bytes() {
                    return Some(format!("grpc-status {:?}, expected {}", st[0], want.code));
                }
            }
            _ => return Some("frames follow the trailers block".into()),
        }
    } else {
        if n_tr != 0 {
            return Some("client request body carries trailers".into());
        }
        let errs: Vec<&&Obs> = frames.iter().filter(|o| matches!(o, Obs::Err(..))).collect();
        match (want.code, errs.len()) {
            (0, 0) => {}
            (0, _) => return Some("client body failed although every message encodes".into()),
            (c, 1) => match frames.last() {
                Some(Obs::Err(code, _)) if *code == c => {}
                Some(Obs::Err(code, _)) => return Some(format!("client body error code {}, expected {}", code, c)),
                _ => return Some("frames follow the client body's error".into()),
            },
            (_, n) => return Some(format!("{} errors from a client body, expected 1", n)),
        }
    }
    None
}
fn data_of(obs: &[Obs]) -> Vec<u8> {
    let mut v = vec![];
    for o in obs {
        if let Obs::Data(d) = o {
            v.extend_from_slice(d);
        }
    }
    v
}
/// a frame parser of the harness' own, only used to find the compressed payloads
fn split_frames(b: &[u8]) -> Vec<(u8, Vec<u8>)> {
    let mut out = vec![];
    let mut i = 0;
    while b.len() - i >= 5 {
        let len = u32::from_be_bytes([b[i + 1], b[i + 2], b[i + 3], b[i + 4]]) as usize;
        if b.len() - i - 5 < len {
            break;
        }
        out.push((b[i], b[i + 5..i + 5 + len].to_vec()));
        i += 5 + len;
    }
    out
}
/// the `compress` table handed to the model: what the implementation put on the wire (keyed on
/// what it inflates to with the library called directly), completed with direct compressions of
/// the messages that never made it to the wire (their length decides the limit check)
fn compress_table(cfg: &Cfg, src: &[SEv], wire: &[u8]) -> Vec<(Vec<u8>, Vec<u8>)> {
    let mut t: Vec<(Vec<u8>, Vec<u8>)> = vec![];
    let Some(e) = cfg.eff() else { return t };
    for (flag, payload) in split_frames(wire) {
        if flag == 1 {
            if let Some(u) = e.decompress(&payload) {
                if !t.iter().any(|(k, _)| *k == u) {
                    t.push((u, payload));
                }
            }
        }
    }
    for ev in src {
        if let SEv::Ok(m) = ev {
            if m.first() != Some(&0xFE) && !t.iter().any(|(k, _)| k == m) {
                t.push((m.clone(), e.compress(m)));
            }
        }
    }
    t
}

// ------------------------------------------------------------------ pending cases + python judge
struct PCase {
    kind: String,
    input: Value,
    model: String,
    obs: Tr,
    oracle: Option<String>,
    nontrivial: bool,
    /// (wire bytes, announced encoding, expected messages, expected flag)
    wire: Option<(Vec<u8>, Option<Enc>, Vec<Vec<u8>>, Option<u8>)>,
    /// Some: the messages are protobuf (ext::PMsg); the Python judge decodes the wire format itself
    /// and compares the fields with these (then `wire.2` is not used)
    proto: Option<Vec<Value>>,
}
/// what the Python judge reported over the whole run (goes into the harness summary)
#[derive(Default)]
struct PyStats {
    judged: u64,
    inflated_messages: u64,
    proto_messages: u64,
}
struct Pend {
    cases: Vec<PCase>,
}
impl Pend {
    fn flush(self, out: &mut Out, dir: &str) -> PyStats {
        let mut stats = PyStats::default();
        let inp = format!("{}/wire_in.jsonl", dir);
        let outp = format!("{}/wire_out.jsonl", dir);
        {
            use std::io::Write;
            let mut f = std::io::BufWriter::new(std::fs::File::create(&inp).unwrap());
            for (i, c) in self.cases.iter().enumerate() {
                if let Some((w, e, ms, flag)) = &c.wire {
                    writeln!(
                        f,
                        "{}",
                        match &c.proto {
                            None => json!({"id": i, "body": hex(w), "encoding": e.map(|e| e.name()),
                               "messages": ms.iter().map(|m| hex(m)).collect::<Vec<_>>(), "expect_flag": flag}),
                            Some(pm) => json!({"id": i, "body": hex(w), "encoding": e.map(|e| e.name()),
                               "proto": pm, "expect_flag": flag}),
                        }
                    )
                    .unwrap();
                }
            }
        }
        let script = format!("{}/../../oracle/grpc_wire.py", env!("CARGO_MANIFEST_DIR"));
        let st = std::process::Command::new("python3").arg(&script).arg(&inp).arg(&outp).status();
        let mut verdict: std::collections::HashMap<usize, Option<String>> = Default::default();
        let ran = matches!(st, Ok(s) if s.success());
        if ran {
            for l in std::fs::read_to_string(&outp).unwrap().lines() {
                let v: Value = serde_json::from_str(l).unwrap();
                let id = v["id"].as_u64().unwrap() as usize;
                verdict.insert(id, if v["ok"].as_bool() == Some(true) { None } else { Some(v["why"].as_str().unwrap_or("?").to_string()) });
                stats.judged += 1;
                stats.inflated_messages += v["inflated"].as_u64().unwrap_or(0);
                stats.proto_messages += v["proto_decoded"].as_u64().unwrap_or(0);
            }
        }
        for (i, c) in self.cases.into_iter().enumerate() {
            let mut oracle = c.oracle;
            if c.wire.is_some() && oracle.is_none() {
                oracle = match verdict.get(&i) {
                    Some(v) => v.clone().map(|w| format!("independent decoder: {}", w)),
                    None => Some("independent decoder (oracle/grpc_wire.py) did not run or gave no verdict".into()),
                };
            }
            out.push(Case { kind: c.kind, input: c.input, model: c.model, impl_obs: c.obs, oracle, nontrivial: c.nontrivial });
        }
        stats
    }
}

// ------------------------------------------------------------------ kind: body (EncodeBody directly)
fn case_body(p: &mut Pend, out: &mut Out, kind: &str, server: bool, cfg: &Cfg, src: &[SEv]) {
    let budget = src.len() + 3;
    let (strict, polled_after_end) = Strict::new(p.cases.len() % 2 == 1);
    let script = Script { evs: src.iter().cloned().collect(), strict };
    let enc = RawEnc { bs: cfg.bs };
    let comp = cfg.comp.map(|e| e.tonic());
    let mut dr = if server {
        if cfg.override_disable {
            // SingleMessageCompressionOverride is not nameable from outside the crate: take the
            // value Response::disable_compression stores and let inference name the type
            let mut r = tonic::Response::new(());
            r.disable_compression();
            let ov = *r.extensions().get().expect("override extension");
            drain(EncodeBody::new_server(enc, script, comp, ov, cfg.max), budget)
        } else {
            drain(EncodeBody::new_server(enc, script, comp, Default::default(), cfg.max), budget)
        }
    } else {
        drain(EncodeBody::new_client(enc, script, comp, cfg.max), budget)
    };
    dr.after_end = polled_after_end.load(Ordering::SeqCst);
    let (obs, ended) = (dr.obs.clone(), dr.ended);
    let want = expect(cfg, src);
    let wire = data_of(&obs);
    let tbl = compress_table(cfg, src, &wire);
    let model = format!(
        "obs_encode_x {} {} {} {} {}",
        coq_pairs(&tbl),
        cfg.coq(),
        if server { "Server" } else { "Client" },
        coq_list(src, sev_coq),
        EXTRA_POLLS
    );
    let oracle = judge_frames(server, &obs, ended, &want).or_else(|| judge_end_stream(server, &dr)).or_else(|| judge_source(&dr));
    let n_ok = src.iter().filter(|e| matches!(e, SEv::Ok(_))).count();
    let n_pend = src.iter().filter(|e| matches!(e, SEv::Pending)).count();
    out.hist("body.role", if server { "server" } else { "client" });
    out.hist("body.encoding", cfg.comp.map(|e| e.name()).unwrap_or("identity"));
    out.hist("body.override_disable", cfg.override_disable);
    out.hist("body.limit", if cfg.max.is_some() { "set" } else { "default" });
    out.hist("body.buffer_settings", cfg.bs.map(|(a, b)| format!("{}/{}", a, b)).unwrap_or("default".into()));
    out.hist("body.items", bucket(n_ok));
    out.hist("body.pending_events", bucket(n_pend));
    out.hist("body.outcome", match want.code { 0 => "ok".to_string(), 11 => "oversize".into(), 13 => "encode-failure/13".into(), c => format!("source-error/{}", c) });
    out.hist("body.delivered_messages", bucket(want.messages.len()));
    p.cases.push(PCase {
        kind: kind.to_string(),
        input: json!({"server": server, "cfg": cfg.json(), "src": src.iter().map(sev_json).collect::<Vec<_>>()}),
        model,
        obs: dr.tr(),
        oracle,
        nontrivial: n_ok >= 2 || (n_ok >= 1 && want.code != 0),
        wire: Some((wire, cfg.comp, want.messages, Some(cfg.eff().is_some() as u8))),
        proto: None,
    });
}
fn bucket(n: usize) -> String {
    match n {
        0 => "0".into(),
        1 => "1".into(),
        2..=4 => "2-4".into(),
        5..=9 => "5-9".into(),
        _ => ">=10".into(),
    }
}

// ------------------------------------------------------------------ kind: request head (client::Grpc)
#[derive(Clone, Default)]
struct Capture {
    got: Arc<Mutex<Option<(http::request::Parts, Drained)>>>,
    budget: usize,
}
impl tower_service::Service<http::Request<tonic::body::Body>> for Capture {
    type Response = http::Response<tonic::body::Body>;
    type Error = Status;
    type Future = std::future::Ready<Result<Self::Response, Status>>;
    fn poll_ready(&mut self, _: &mut Context<'_>) -> Poll<Result<(), Status>> {
        Poll::Ready(Ok(()))
    }
    fn call(&mut self, req: http::Request<tonic::body::Body>) -> Self::Future {
        let (parts, body) = req.into_parts();
        let d = drain(body, self.budget);
        *self.got.lock().unwrap() = Some((parts, d));
        // a trailers-only OK answer
        let mut resp = http::Response::new(tonic::body::Body::empty());
        resp.headers_mut().insert("content-type", HeaderValue::from_static("application/grpc"));
        resp.headers_mut().insert("grpc-status", HeaderValue::from_static("0"));
        std::future::ready(Ok(resp))
    }
}
#[derive(Clone, Debug)]
struct ReqCase {
    origin: Option<String>,
    path: String,
    send: Option<Enc>,
    accept: Vec<Enc>,
    md: Vec<(String, Vec<u8>)>,
    max: Option<usize>,
    bs: Option<(usize, usize)>,
    shape: u8, // 0 unary, 1 client_streaming, 2 server_streaming, 3 streaming
    msgs: Vec<Vec<u8>>,
}
fn uri_parts_coq(u: &http::Uri) -> String {
    let p = u.clone().into_parts();
    format!(
        "(mkUri {} {} {})",
        coq_opt(&p.scheme, |s| coq_bytes(s.as_str().as_bytes())),
        coq_opt(&p.authority, |s| coq_bytes(s.as_str().as_bytes())),
        coq_opt(&p.path_and_query, |s| ext::coq_bytes_seg(s.as_str().as_bytes()))
    )
}
fn uri_tr(u: &http::Uri) -> Tr {
    let p = u.clone().into_parts();
    Tr::L(vec![
        Tr::opt(p.scheme.map(|s| Tr::s(s.as_str()))),
        Tr::opt(p.authority.map(|s| Tr::s(s.as_str()))),
        Tr::opt(p.path_and_query.map(|s| ext::bs_tr(s.as_str().as_bytes()))),
    ])
}
fn version_n(v: http::Version) -> u32 {
    match v {
        http::Version::HTTP_09 => 9,
        http::Version::HTTP_10 => 10,
        http::Version::HTTP_11 => 11,
        http::Version::HTTP_2 => 20,
        http::Version::HTTP_3 => 30,
        _ => 0,
    }
}
fn md_of(md: &[(String, Vec<u8>)]) -> MetadataMap {
    StSpec { code: 0, msg: String::new(), details: vec![], md: md.to_vec() }.metadata()
}
/// The request target the property allows for this origin, computed from the origin STRING by
/// hand (no http::Uri): the origin's path - the text between the authority and the first '?' -
/// followed by the method path; an origin without a path, or whose PATH is exactly "/" (whatever
/// its query), contributes nothing.  None = the origin is not of a form a request can be built from
/// (authority form such as "localhost:50051").
fn expected_target(origin: &Option<String>, path: &str) -> Option<String> {
    let o = match origin {
        None => return Some(path.to_string()), // Uri::default() = "/"
        Some(o) => o.as_str(),
    };
    let pq: &str = if let Some(i) = o.find("://") {
        let rest = &o[i + 3..];
        match rest.find(|c| c == '/' || c == '?') {
            Some(k) => &rest[k..],
            None => "",
        }
    } else if o.starts_with('/') {
        o
    } else {
        return None;
    };
    // the origin's query never matters (F-C03b); no path, or the path "/", is no prefix
    let p = match pq.find('?') {
        Some(k) => &pq[..k],
        None => pq,
    };
    if p.is_empty() || p == "/" {
        return Some(path.to_string());
    }
    Some(format!("{}{}", p, path))
}
/// which of prepare_request's two `expect`s fired: 95 = "must form valid path_and_query",
/// 99 = "path_and_query only is valid Uri" (or anything else)
fn panic_site(msg: &str) -> u8 {
    if msg.contains("must form valid path_and_query") {
        95
    } else {
        99
    }
}
/// http cannot hold a path-and-query longer than this
const HTTP_URI_MAX_LEN: usize = 65534;
fn panic_acceptable(target: &Option<String>) -> bool {
    match target {
        None => true,
        Some(t) => t.len() > HTTP_URI_MAX_LEN,
    }
}
fn case_request(p: &mut Pend, out: &mut Out, kind: &str, rc: &ReqCase) {
    // the model takes the enabled set in slot order (EnabledCompressionEncodings::enable ignores
    // an encoding that is already enabled)
    let mut rc = rc.clone();
    let mut seen = vec![];
    rc.accept.retain(|e| {
        let fresh = !seen.contains(e);
        seen.push(*e);
        fresh
    });
    let rc = &rc;
    let origin: http::Uri = match &rc.origin {
        None => http::Uri::default(),
        Some(s) => match s.parse() {
            Ok(u) => u,
            Err(_) => return,
        },
    };
    let path: http::uri::PathAndQuery = match rc.path.parse() {
        Ok(p) => p,
        Err(_) => return,
    };
    let cap = Capture { got: Default::default(), budget: rc.msgs.len() + 3 };
    let got = cap.got.clone();
    let rcc = rc.clone();
    let origin2 = origin.clone();
    let path2 = path.clone();
    let (strict, polled_after_end) = Strict::new(p.cases.len() % 2 == 1);
    let res = catch(std::panic::AssertUnwindSafe(move || {
        let mut g = tonic::client::Grpc::with_origin(cap, origin2);
        if let Some(e) = rcc.send {
            g = g.send_compressed(e.tonic());
        }
        for e in &rcc.accept {
            g = g.accept_compressed(e.tonic());
        }
        if let Some(m) = rcc.max {
            g = g.max_encoding_message_size(m);
        }
        let codec = RawCodec { bs: rcc.bs };
        let md = md_of(&rcc.md);
        let first = rcc.msgs.first().cloned().unwrap_or_default();
        spin(
            async move {
                let _ = g.ready().await;
                match rcc.shape {
                    0 => {
                        let mut r = tonic::Request::new(first);
                        *r.metadata_mut() = md;
                        let _ = g.unary(r, path2, codec).await;
                    }
                    1 => {
                        let mut r = tonic::Request::new(StrictIter { items: rcc.msgs.iter().cloned().collect(), strict });
                        *r.metadata_mut() = md;
                        let _ = g.client_streaming(r, path2, codec).await;
                    }
                    2 => {
                        let mut r = tonic::Request::new(first);
                        *r.metadata_mut() = md;
                        let _ = g.server_streaming(r, path2, codec).await.map(|_| ());
                    }
                    _ => {
                        let mut r = tonic::Request::new(StrictIter { items: rcc.msgs.iter().cloned().collect(), strict });
                        *r.metadata_mut() = md;
                        let _ = g.streaming(r, path2, codec).await.map(|_| ());
                    }
                }
            },
            10_000,
        )
    }));
    let msgs: Vec<Vec<u8>> = if rc.shape == 0 || rc.shape == 2 {
        vec![rc.msgs.first().cloned().unwrap_or_default()]
    } else {
        rc.msgs.clone()
    };
    let src: Vec<SEv> = msgs.iter().cloned().map(SEv::Ok).collect();
    // only for the oracle and the compress table: the model derives the body configuration itself
    let cfg = Cfg { comp: rc.send, override_disable: false, max: rc.max, bs: rc.bs };
    let want = expect(&cfg, &src);
    let captured = got.lock().unwrap().take();
    let mdh = md_of(&rc.md).into_headers();
    let (bsz, thr) = rc.bs.unwrap_or((8192, 32768));
    let wire_seen: Vec<u8> = captured.as_ref().map(|(_, d)| data_of(&d.obs)).unwrap_or_default();
    let tbl = compress_table(&cfg, &src, &wire_seen);
    let model = format!(
        "obs_client_call_x {} (mkClient {} {} {} {} {} {}) {} {} {} {}",
        coq_pairs(&tbl),
        uri_parts_coq(&origin),
        coq_opt(&rc.send, |e| e.coq().to_string()),
        coq_list(&rc.accept, |e| e.coq().to_string()),
        coq_opt(&rc.max, |m| m.to_string()),
        bsz,
        thr,
        coq_hm(&mdh),
        coq_bytes(path.as_str().as_bytes()),
        coq_list(&src, sev_coq),
        EXTRA_POLLS
    );
    let target = expected_target(&rc.origin, path.as_str());
    let (obs, oracle, wire) = match (res, captured) {
        (Err(pn), _) => (
            Tr::L(vec![Tr::L(vec![Tr::n(panic_site(&pn))])]),
            // a panic is only acceptable for an origin no request target can be built from, or
            // when the exact target is longer than http can represent (65534 bytes)
            if panic_acceptable(&target) { None } else { Some(format!("panic preparing the request: {}", pn)) },
            None,
        ),
        (Ok(Err(())), _) => (Tr::L(vec![Tr::n(98u8)]), Some("the call hangs".into()), None),
        (Ok(Ok(())), None) => (Tr::L(vec![Tr::n(97u8)]), Some("no request was sent".into()), None),
        (Ok(Ok(())), Some((parts, mut d))) => {
            // (the one-message shapes wrap the message in tokio_stream::once inside tonic: not observable)
            d.after_end = polled_after_end.load(Ordering::SeqCst);
            // the property speaks of "the method's /package.Service/Method path": for a method path
            // that does not even start with '/' the target is tied to the model but not judged
            let in_domain = path.as_str().starts_with('/');
            let mut why = judge_request_head(&parts, &origin, &target, in_domain, rc.send).or_else(|| judge_source(&d));
            if why.is_none() {
                why = judge_frames(false, &d.obs, d.ended, &want);
            }
            if why.is_none() {
                why = judge_end_stream(false, &d);
            }
            let head = Tr::L(vec![
                Tr::n(1u8),
                Tr::s(parts.method.as_str()),
                Tr::n(version_n(parts.version)),
                uri_tr(&parts.uri),
                hm_tr(&parts.headers),
            ]);
            let announced = parts.headers.get("grpc-encoding").and_then(|v| v.to_str().ok()).and_then(Enc::from_name);
            (
                Tr::L(vec![head, d.tr()]),
                why,
                Some((data_of(&d.obs), announced, want.messages.clone(), Some(rc.send.is_some() as u8))),
            )
        }
    };
    out.hist("request.origin", rc.origin.as_ref().map(|o| if o.len() > 80 { format!("{}... ({} bytes)", &o[..24], o.len()) } else { o.clone() }).unwrap_or("<default>".into()));
    out.hist("request.shape", rc.shape);
    out.hist("request.send", rc.send.map(|e| e.name()).unwrap_or("identity"));
    p.cases.push(PCase {
        kind: kind.to_string(),
        input: json!({"origin": rc.origin, "path": rc.path, "send": rc.send.map(|e| e.name()),
                      "accept": rc.accept.iter().map(|e| e.name()).collect::<Vec<_>>(),
                      "md": rc.md.iter().map(|(k, v)| json!([k, hex(v)])).collect::<Vec<_>>(),
                      "max": rc.max, "bs": rc.bs.map(|(a, b)| json!([a, b])), "shape": rc.shape,
                      "msgs": rc.msgs.iter().map(|m| msg_json(m)).collect::<Vec<_>>()}),
        model,
        obs,
        oracle,
        nontrivial: rc.origin.is_some() || !rc.md.is_empty() || rc.send.is_some(),
        wire,
        proto: None,
    });
}
/// "an HTTP/2 POST to the method's path with content-type application/grpc and te: trailers"
fn judge_request_head(parts: &http::request::Parts, origin: &http::Uri, target: &Option<String>, judge_target: bool, send: Option<Enc>) -> Option<String> {
    if parts.method != http::Method::POST {
        return Some(format!("method {}", parts.method));
    }
    if parts.version != http::Version::HTTP_2 {
        return Some(format!("version {:?}", parts.version));
    }
    let pq = parts.uri.path_and_query().map(|p| p.as_str()).unwrap_or("");
    match target {
        None => return Some(format!("a request ({:?}) was sent for an origin without scheme", pq)),
        Some(t) if t.len() > HTTP_URI_MAX_LEN => return Some("a request was sent although the exact target does not fit a path-and-query".into()),
        Some(t) if judge_target && t != pq => return Some(format!("request target {:?}, expected exactly {:?} (origin path ++ method path)", pq, t)),
        _ => {}
    }
    if parts.uri.scheme() != origin.scheme() || parts.uri.authority() != origin.authority() {
        return Some("scheme / authority differ from the origin".into());
    }
    let one = |k: &str, v: &str| -> Option<String> {
        let vs: Vec<_> = parts.headers.get_all(k).iter().collect();
        if vs.len() != 1 || vs[0].as_bytes() != v.as_bytes() {
            Some(format!("header {} is {:?}, expected exactly {:?}", k, vs, v))
        } else {
            None
        }
    };
    if let Some(w) = one("te", "trailers") {
        return Some(w);
    }
    if let Some(w) = one("content-type", "application/grpc") {
        return Some(w);
    }
    if let Some(e) = send {
        if let Some(w) = one("grpc-encoding", e.name()) {
            return Some(w);
        }
    }
    if parts.headers.contains_key("grpc-status") {
        return Some("request carries grpc-status".into());
    }
    None
}

// ------------------------------------------------------------------ kind: response head (server::Grpc)
#[derive(Clone, Debug)]
enum Handler {
    /// one-message response (unary, client_streaming): Ok(metadata, message, disable_compression) or Err
    Unary(Result<(Vec<(String, Vec<u8>)>, Vec<u8>, bool), StSpec>),
    /// stream response (server_streaming, streaming): Ok(metadata, scripted stream, disable_compression) or Err
    Stream(Result<(Vec<(String, Vec<u8>)>, Vec<SEv>, bool), StSpec>),
}
#[derive(Clone, Debug)]
struct RespCase {
    handler: Handler,
    /// the request arrives as a stream (client_streaming / streaming) instead of one message
    req_stream: bool,
    send: Vec<Enc>,
    accept: Vec<Enc>,
    accept_header: Option<String>,
    /// grpc-encoding of the request
    req_encoding: Option<String>,
    /// the request body carries a message
    has_msg: bool,
    max: Option<usize>,
    bs: Option<(usize, usize)>,
}
fn unary_answer(h: &Result<(Vec<(String, Vec<u8>)>, Vec<u8>, bool), StSpec>) -> Result<tonic::Response<Vec<u8>>, Status> {
    match h {
        Err(s) => Err(s.status()),
        Ok((md, m, disable)) => {
            let mut r = tonic::Response::new(m.clone());
            *r.metadata_mut() = md_of(md);
            if *disable {
                r.disable_compression();
            }
            Ok(r)
        }
    }
}
fn stream_answer(h: &Result<(Vec<(String, Vec<u8>)>, Vec<SEv>, bool), StSpec>, strict: &Strict) -> Result<tonic::Response<Script>, Status> {
    match h {
        Err(s) => Err(s.status()),
        Ok((md, evs, disable)) => {
            let mut r = tonic::Response::new(Script { evs: evs.iter().cloned().collect(), strict: strict.clone() });
            *r.metadata_mut() = md_of(md);
            if *disable {
                r.disable_compression();
            }
            Ok(r)
        }
    }
}
#[derive(Clone)]
struct UnarySvc(Result<(Vec<(String, Vec<u8>)>, Vec<u8>, bool), StSpec>);
impl tower_service::Service<tonic::Request<Vec<u8>>> for UnarySvc {
    type Response = tonic::Response<Vec<u8>>;
    type Error = Status;
    type Future = std::future::Ready<Result<Self::Response, Status>>;
    fn poll_ready(&mut self, _: &mut Context<'_>) -> Poll<Result<(), Status>> {
        Poll::Ready(Ok(()))
    }
    fn call(&mut self, _: tonic::Request<Vec<u8>>) -> Self::Future {
        std::future::ready(unary_answer(&self.0))
    }
}
impl tower_service::Service<tonic::Request<tonic::Streaming<Vec<u8>>>> for UnarySvc {
    type Response = tonic::Response<Vec<u8>>;
    type Error = Status;
    type Future = std::future::Ready<Result<Self::Response, Status>>;
    fn poll_ready(&mut self, _: &mut Context<'_>) -> Poll<Result<(), Status>> {
        Poll::Ready(Ok(()))
    }
    fn call(&mut self, _: tonic::Request<tonic::Streaming<Vec<u8>>>) -> Self::Future {
        std::future::ready(unary_answer(&self.0))
    }
}
#[derive(Clone)]
struct StreamSvc(Result<(Vec<(String, Vec<u8>)>, Vec<SEv>, bool), StSpec>, Strict);
impl tower_service::Service<tonic::Request<Vec<u8>>> for StreamSvc {
    type Response = tonic::Response<Script>;
    type Error = Status;
    type Future = std::future::Ready<Result<Self::Response, Status>>;
    fn poll_ready(&mut self, _: &mut Context<'_>) -> Poll<Result<(), Status>> {
        Poll::Ready(Ok(()))
    }
    fn call(&mut self, _: tonic::Request<Vec<u8>>) -> Self::Future {
        std::future::ready(stream_answer(&self.0, &self.1))
    }
}
impl tower_service::Service<tonic::Request<tonic::Streaming<Vec<u8>>>> for StreamSvc {
    type Response = tonic::Response<Script>;
    type Error = Status;
    type Future = std::future::Ready<Result<Self::Response, Status>>;
    fn poll_ready(&mut self, _: &mut Context<'_>) -> Poll<Result<(), Status>> {
        Poll::Ready(Ok(()))
    }
    fn call(&mut self, _: tonic::Request<tonic::Streaming<Vec<u8>>>) -> Self::Future {
        std::future::ready(stream_answer(&self.0, &self.1))
    }
}
fn raw_frame(flag: u8, p: &[u8]) -> Vec<u8> {
    let mut v = vec![flag];
    v.extend_from_slice(&(p.len() as u32).to_be_bytes());
    v.extend_from_slice(p);
    v
}
/// first token of the accept header that the server may send (what the server is specified to
/// pick) - used by the ORACLE only; the model negotiates itself (Model/Encoder.v server_call)
fn chosen_encoding(send: &[Enc], header: &Option<String>) -> Option<Enc> {
    let h = header.as_ref()?;
    h.split(',').map(|t| t.trim()).filter_map(Enc::from_name).find(|e| send.contains(e))
}
fn dedup(v: &[Enc]) -> Vec<Enc> {
    let mut o = vec![];
    for e in v {
        if !o.contains(e) {
            o.push(*e);
        }
    }
    o
}
fn case_response(p: &mut Pend, out: &mut Out, kind: &str, rc: &RespCase) {
    let evs = if rc.has_msg { vec![Ev::Data(raw_frame(0, b"req"))] } else { vec![] };
    let mut req = http::Request::new(ScriptBody::<Status>::new(evs).0);
    *req.method_mut() = http::Method::POST;
    *req.version_mut() = http::Version::HTTP_2;
    *req.uri_mut() = "/pkg.Svc/Method".parse().unwrap();
    req.headers_mut().insert("content-type", HeaderValue::from_static("application/grpc"));
    req.headers_mut().insert("te", HeaderValue::from_static("trailers"));
    if let Some(h) = &rc.accept_header {
        req.headers_mut().insert("grpc-accept-encoding", HeaderValue::from_str(h).unwrap());
    }
    if let Some(h) = &rc.req_encoding {
        req.headers_mut().insert("grpc-encoding", HeaderValue::from_str(h).unwrap());
    }
    let req_headers = req.headers().clone();
    let rcc = rc.clone();
    let (strict, polled_after_end) = Strict::new(p.cases.len() % 2 == 1);
    let res = catch(std::panic::AssertUnwindSafe(move || {
        let mut g = tonic::server::Grpc::new(RawCodec { bs: rcc.bs });
        for e in &rcc.send {
            g = g.send_compressed(e.tonic());
        }
        for e in &rcc.accept {
            g = g.accept_compressed(e.tonic());
        }
        if let Some(m) = rcc.max {
            g = g.max_encoding_message_size(m);
        }
        spin(
            async move {
                match (rcc.handler, rcc.req_stream) {
                    (Handler::Unary(h), false) => g.unary(UnarySvc(h), req).await,
                    (Handler::Unary(h), true) => g.client_streaming(UnarySvc(h), req).await,
                    (Handler::Stream(h), false) => g.server_streaming(StreamSvc(h, strict), req).await,
                    (Handler::Stream(h), true) => g.streaming(StreamSvc(h, strict), req).await,
                }
            },
            10_000,
        )
    }));
    // ---- what the property demands, computed without the model
    let chosen = chosen_encoding(&rc.send, &rc.accept_header);
    let rejected_encoding = match rc.req_encoding.as_deref() {
        None | Some("identity") => false,
        Some(n) => !Enc::from_name(n).map(|e| rc.accept.contains(&e)).unwrap_or(false),
    };
    let missing = !rc.req_stream && !rc.has_msg;
    let (src, disable, handler_err): (Vec<SEv>, bool, Option<u32>) = match &rc.handler {
        Handler::Unary(Ok((_, m, d))) => (vec![SEv::Ok(m.clone())], *d, None),
        // the override is only read for one-message responses
        Handler::Stream(Ok((_, evs, _))) => (evs.clone(), false, None),
        Handler::Unary(Err(s)) | Handler::Stream(Err(s)) => (vec![], false, Some(s.code)),
    };
    let err_code: Option<u32> = if rejected_encoding {
        Some(12)
    } else if missing {
        Some(13)
    } else {
        handler_err
    };
    let cfg = Cfg { comp: chosen, override_disable: disable, max: rc.max, bs: rc.bs };
    // ---- what the model is asked: the server, the shape, the request headers, the handler's answer
    let shape = match (&rc.handler, rc.req_stream) {
        (Handler::Unary(_), false) => "ShUnary",
        (Handler::Unary(_), true) => "ShClientStreaming",
        (Handler::Stream(_), false) => "ShServerStreaming",
        (Handler::Stream(_), true) => "ShStreaming",
    };
    let handler_coq = match &rc.handler {
        Handler::Unary(Ok((md, _, d))) => format!("(HOk {} {})", coq_hm(&md_of(md).into_headers()), coq_bool(*d)),
        Handler::Stream(Ok((md, _, d))) => format!("(HOk {} {})", coq_hm(&md_of(md).into_headers()), coq_bool(*d)),
        Handler::Unary(Err(s)) | Handler::Stream(Err(s)) => format!("(HErr {})", s.coq()),
    };
    let (bsz, thr) = rc.bs.unwrap_or((8192, 32768));
    let (dr_opt, parts_opt, fail): (Option<Drained>, Option<http::response::Parts>, Option<(Tr, String)>) = match res {
        Err(pn) => (None, None, Some((Tr::L(vec![Tr::L(vec![Tr::n(99u8)])]), format!("panic producing the response: {}", pn)))),
        Ok(Err(())) => (None, None, Some((Tr::L(vec![Tr::n(98u8)]), "the handler call hangs".into()))),
        Ok(Ok(resp)) => {
            let (parts, body) = resp.into_parts();
            (Some((HttpBody::is_end_stream(&body), drain(body, src.len() + 3))).map(|(_, d)| d), Some(parts), None)
        }
    };
    let wire_seen: Vec<u8> = dr_opt.as_ref().map(|d| data_of(&d.obs)).unwrap_or_default();
    let tbl = if err_code.is_none() { compress_table(&cfg, &src, &wire_seen) } else { vec![] };
    let model = format!(
        "obs_server_call_x {} (mkServer {} {} {} {} {}) {} {} {} {} {} {}",
        coq_pairs(&tbl),
        coq_list(&dedup(&rc.send), |e| e.coq().to_string()),
        coq_list(&dedup(&rc.accept), |e| e.coq().to_string()),
        coq_opt(&rc.max, |m| m.to_string()),
        bsz,
        thr,
        shape,
        coq_hm(&req_headers),
        coq_bool(rc.has_msg),
        handler_coq,
        coq_list(&src, sev_coq),
        EXTRA_POLLS
    );
    let (obs, oracle, wire) = match (fail, parts_opt, dr_opt) {
        (Some((t, w)), _, _) => (t, Some(w), None),
        (None, Some(parts), Some(mut d)) => {
            d.after_end = polled_after_end.load(Ordering::SeqCst);
            let has_body = !d.init_es;
            let head = Tr::L(vec![
                Tr::n(1u8),
                Tr::n(parts.status.as_u16()),
                Tr::n(version_n(parts.version)),
                hm_tr(&canon_trailers(&parts.headers)),
                Tr::bool(has_body),
            ]);
            let mut why = None;
            if parts.status != http::StatusCode::OK {
                why = Some(format!("HTTP status {}", parts.status));
            }
            let ct: Vec<_> = parts.headers.get_all("content-type").iter().collect();
            if why.is_none() && (ct.len() != 1 || ct[0].as_bytes() != b"application/grpc") {
                why = Some(format!("content-type {:?}", ct));
            }
            let n_status = parts.headers.get_all("grpc-status").iter().count();
            let wire;
            if let Some(code) = err_code {
                // trailers-only: the status is in the headers, the body has no frame at all
                if why.is_none() && n_status != 1 {
                    why = Some(format!("{} grpc-status headers in a trailers-only response", n_status));
                }
                if why.is_none() && parts.headers.get("grpc-status").map(|v| v.as_bytes().to_vec()) != Some(code.to_string().into_bytes()) {
                    why = Some(format!("trailers-only response carries grpc-status {:?}, expected {}", parts.headers.get("grpc-status"), code));
                }
                if why.is_none() && d.obs.iter().any(|o| !matches!(o, Obs::None)) {
                    why = Some("trailers-only response has a body".into());
                }
                if why.is_none() && (d.obs.len() != 1 + EXTRA_POLLS || !d.init_es) {
                    why = Some("empty body did not answer None to every poll / is not ended from the start".into());
                }
                wire = None;
            } else {
                if why.is_none() && n_status != 0 {
                    why = Some("grpc-status in the headers of a response that also has trailers".into());
                }
                let want = expect(&cfg, &src);
                if why.is_none() {
                    why = judge_frames(true, &d.obs, d.ended, &want);
                }
                if why.is_none() {
                    why = judge_end_stream(true, &d).or_else(|| judge_source(&d));
                }
                let announced = parts.headers.get("grpc-encoding").and_then(|v| v.to_str().ok()).and_then(Enc::from_name);
                // (a handler may put its own grpc-encoding into the response metadata: that name is not
                // reserved; the judge then only insists that flag-0 messages are not compressed)
                if why.is_none() && chosen.is_some() && announced != chosen {
                    why = Some(format!("grpc-encoding {:?} announced, {:?} negotiated", announced.map(|e| e.name()), chosen.map(|e| e.name())));
                }
                wire = Some((data_of(&d.obs), announced, want.messages.clone(), Some(cfg.eff().is_some() as u8)));
            }
            (Tr::L(vec![head, d.tr()]), why, wire)
        }
        _ => unreachable!(),
    };
    out.hist("response.shape", shape);
    out.hist("response.outcome", match (rejected_encoding, missing, handler_err) {
        (true, _, _) => "request encoding rejected".to_string(),
        (_, true, _) => "missing request message".to_string(),
        (_, _, Some(_)) => "handler error".to_string(),
        _ => "ok".to_string(),
    });
    out.hist("response.encoding", chosen.map(|e| e.name()).unwrap_or("identity"));
    let mdj = |md: &Vec<(String, Vec<u8>)>| md.iter().map(|(k, v)| json!([k, hex(v)])).collect::<Vec<_>>();
    let input = json!({
        "send": rc.send.iter().map(|e| e.name()).collect::<Vec<_>>(),
        "accept": rc.accept.iter().map(|e| e.name()).collect::<Vec<_>>(),
        "accept_header": rc.accept_header, "req_encoding": rc.req_encoding, "has_msg": rc.has_msg,
        "req_stream": rc.req_stream, "max": rc.max, "bs": rc.bs.map(|(a, b)| json!([a, b])),
        "handler": match &rc.handler {
            Handler::Unary(Ok((md, m, d))) => json!({"unary_ok": {"md": mdj(md), "msg": msg_json(m), "disable": d}}),
            Handler::Unary(Err(s)) => json!({"unary_err": s.json()}),
            Handler::Stream(Ok((md, evs, d))) => json!({"stream_ok": {"md": mdj(md), "src": evs.iter().map(sev_json).collect::<Vec<_>>(), "disable": d}}),
            Handler::Stream(Err(s)) => json!({"stream_err": s.json()}),
        }});
    p.cases.push(PCase { kind: kind.to_string(), input, model, obs, oracle, nontrivial: true, wire, proto: None });
}

// ------------------------------------------------------------------ kind: channel (AddOrigin + UserAgent + hyper)
/// A real `tonic::transport::Channel` (Endpoint::connect_with_connector_lazy) over an in-memory
/// duplex pipe; the peer is a bare `h2` server - not tonic - that records what arrives.
#[derive(Clone, Debug)]
struct ChanCase {
    endpoint: String,
    origin_override: Option<String>,
    custom_ua: Option<String>,
    req: ReqCase, // origin field = the origin given to client::Grpc (None = Grpc::new)
}
#[derive(Clone)]
struct DuplexConnector(Arc<Mutex<Option<tokio::io::DuplexStream>>>);
impl tower_service::Service<http::Uri> for DuplexConnector {
    type Response = hyper_util::rt::TokioIo<tokio::io::DuplexStream>;
    type Error = std::io::Error;
    type Future = std::future::Ready<Result<Self::Response, std::io::Error>>;
    fn poll_ready(&mut self, _: &mut Context<'_>) -> Poll<Result<(), std::io::Error>> {
        Poll::Ready(Ok(()))
    }
    fn call(&mut self, _: http::Uri) -> Self::Future {
        std::future::ready(
            self.0.lock().unwrap().take().map(hyper_util::rt::TokioIo::new).ok_or_else(|| std::io::Error::new(std::io::ErrorKind::Other, "second connect")),
        )
    }
}
struct Seen {
    parts: http::request::Parts,
    data: Vec<u8>,
    trailers: bool,
}
async fn h2_peer(io: tokio::io::DuplexStream) -> Result<Seen, String> {
    let mut conn = h2::server::handshake(io).await.map_err(|e| format!("h2 handshake: {}", e))?;
    let (req, mut respond) = match conn.accept().await {
        Some(Ok(x)) => x,
        Some(Err(e)) => return Err(format!("h2 accept: {}", e)),
        None => return Err("connection closed before a request".into()),
    };
    // keep the connection's IO moving while the body is read
    let driver = tokio::spawn(async move { while let Some(Ok(_)) = conn.accept().await {} });
    let (parts, mut body) = req.into_parts();
    let mut data = vec![];
    while let Some(chunk) = body.data().await {
        let c = chunk.map_err(|e| format!("request body: {}", e))?;
        let _ = body.flow_control().release_capacity(c.len());
        data.extend_from_slice(&c);
    }
    let trailers = body.trailers().await.map_err(|e| format!("request trailers: {}", e))?.is_some();
    let mut resp = http::Response::new(());
    resp.headers_mut().insert("content-type", HeaderValue::from_static("application/grpc"));
    resp.headers_mut().insert("grpc-status", HeaderValue::from_static("0"));
    let _ = respond.send_response(resp, true);
    tokio::task::yield_now().await;
    driver.abort();
    Ok(Seen { parts, data, trailers })
}
/// tonic's version from its manifest (not from the compiled constant)
fn tonic_version() -> String {
    let m = std::fs::read_to_string(format!("{}/tonic/Cargo.toml", std::env::var("VERIF_REPO").unwrap_or("/repo".into()))).unwrap_or_default();
    for l in m.lines() {
        if let Some(r) = l.strip_prefix("version = \"") {
            return r.trim_end_matches('"').to_string();
        }
    }
    "?".into()
}
fn case_channel(p: &mut Pend, out: &mut Out, kind: &str, cc: &ChanCase) {
    let rc = &cc.req;
    let grpc_origin: http::Uri = match &rc.origin {
        None => http::Uri::default(),
        Some(s) => match s.parse() {
            Ok(u) => u,
            Err(_) => return,
        },
    };
    let path: http::uri::PathAndQuery = rc.path.parse().unwrap();
    let ep_uri: http::Uri = cc.endpoint.parse().unwrap();
    let ov: Option<http::Uri> = cc.origin_override.as_ref().map(|s| s.parse().unwrap());
    let layer_origin = ov.clone().unwrap_or(ep_uri.clone());
    let msgs: Vec<Vec<u8>> = if rc.shape == 0 { vec![rc.msgs.first().cloned().unwrap_or_default()] } else { rc.msgs.clone() };
    let src: Vec<SEv> = msgs.iter().cloned().map(SEv::Ok).collect();
    let cfg = Cfg { comp: rc.send, override_disable: false, max: rc.max, bs: rc.bs };
    let want = expect(&cfg, &src);
    let rt = tokio::runtime::Builder::new_current_thread().enable_time().build().unwrap();
    let ccc = cc.clone();
    let msgs2 = msgs.clone();
    let res = catch(std::panic::AssertUnwindSafe(move || {
        rt.block_on(async move {
            let (c, s) = tokio::io::duplex(1 << 16);
            let peer = tokio::spawn(h2_peer(s));
            let mut ep = tonic::transport::Endpoint::from_shared(ccc.endpoint.clone()).map_err(|e| format!("endpoint: {}", e))?;
            if let Some(ua) = &ccc.custom_ua {
                ep = ep.user_agent(ua.clone()).map_err(|e| format!("user agent: {}", e))?;
            }
            if let Some(o) = &ccc.origin_override {
                ep = ep.origin(o.parse().unwrap());
            }
            let ch = ep.connect_with_connector_lazy(DuplexConnector(Arc::new(Mutex::new(Some(c)))));
            let rcc = &ccc.req;
            let mut g = match &rcc.origin {
                None => tonic::client::Grpc::new(ch),
                Some(o) => tonic::client::Grpc::with_origin(ch, o.parse().unwrap()),
            };
            if let Some(e) = rcc.send {
                g = g.send_compressed(e.tonic());
            }
            for e in &rcc.accept {
                g = g.accept_compressed(e.tonic());
            }
            if let Some(m) = rcc.max {
                g = g.max_encoding_message_size(m);
            }
            let codec = RawCodec { bs: rcc.bs };
            let md = md_of(&rcc.md);
            let pth: http::uri::PathAndQuery = rcc.path.parse().unwrap();
            let call = async {
                g.ready().await.map_err(|e| format!("not ready: {}", e))?;
                if rcc.shape == 0 {
                    let mut r = tonic::Request::new(msgs2[0].clone());
                    *r.metadata_mut() = md;
                    let _ = g.unary(r, pth, codec).await;
                } else {
                    let mut r = tonic::Request::new(tokio_stream::iter(msgs2.clone()));
                    *r.metadata_mut() = md;
                    let _ = g.client_streaming(r, pth, codec).await;
                }
                Ok::<(), String>(())
            };
            let called = tokio::time::timeout(std::time::Duration::from_secs(20), call).await;
            match called {
                Err(_) => return Err("the call hangs".to_string()),
                Ok(Err(e)) => return Err(e),
                Ok(Ok(())) => {}
            }
            match tokio::time::timeout(std::time::Duration::from_secs(20), peer).await {
                Err(_) => Err("the peer saw no complete request".to_string()),
                Ok(Err(e)) => Err(format!("peer task: {}", e)),
                Ok(Ok(r)) => r,
            }
        })
    }));
    let tonic_ua = format!("tonic/{}", tonic_version());
    let mdh = md_of(&rc.md).into_headers();
    let (bsz, thr) = rc.bs.unwrap_or((8192, 32768));
    let wire_seen: Vec<u8> = match &res {
        Ok(Ok(seen)) => seen.data.clone(),
        _ => vec![],
    };
    let tbl = compress_table(&cfg, &src, &wire_seen);
    let mut accept = vec![];
    for e in &rc.accept {
        if !accept.contains(e) {
            accept.push(*e);
        }
    }
    let model = format!(
        "obs_channel_call_x {} (mkClient {} {} {} {} {} {}) {} {} {} {} {} {}",
        coq_pairs(&tbl),
        uri_parts_coq(&grpc_origin),
        coq_opt(&rc.send, |e| e.coq().to_string()),
        coq_list(&accept, |e| e.coq().to_string()),
        coq_opt(&rc.max, |m| m.to_string()),
        bsz,
        thr,
        uri_parts_coq(&layer_origin),
        coq_opt(&cc.custom_ua, |u| coq_bytes(u.as_bytes())),
        coq_bytes(tonic_ua.as_bytes()),
        coq_hm(&mdh),
        coq_bytes(path.as_str().as_bytes()),
        coq_list(&src, sev_coq)
    );
    let target = expected_target(&rc.origin, path.as_str());
    let (obs, oracle, wire) = match res {
        Err(pn) => (Tr::L(vec![Tr::L(vec![Tr::n(panic_site(&pn))])]), if panic_acceptable(&target) { None } else { Some(format!("panic: {}", pn)) }, None),
        Ok(Err(e)) => {
            // the only failure the layers may produce: an endpoint origin without scheme / authority
            let lp = layer_origin.clone().into_parts();
            let refused = lp.scheme.is_none() || lp.authority.is_none();
            (Tr::L(vec![Tr::L(vec![Tr::n(96u8)])]), if refused { None } else { Some(format!("call through the channel failed: {}", e)) }, None)
        }
        Ok(Ok(seen)) => {
            let mut why = None;
            // on the wire: POST, the endpoint's scheme and authority, exactly the expected target
            if seen.parts.method != http::Method::POST {
                why = Some(format!("method {}", seen.parts.method));
            }
            let pq = seen.parts.uri.path_and_query().map(|p| p.as_str()).unwrap_or("");
            if why.is_none() && Some(pq.to_string()) != target {
                why = Some(format!("request target {:?} on the wire, expected {:?}", pq, target));
            }
            if why.is_none() && (seen.parts.uri.scheme() != layer_origin.scheme() || seen.parts.uri.authority() != layer_origin.authority()) {
                why = Some(format!("scheme/authority {:?} on the wire, endpoint origin {:?}", seen.parts.uri, layer_origin));
            }
            for (k, v) in [("te", "trailers"), ("content-type", "application/grpc")] {
                let vs: Vec<_> = seen.parts.headers.get_all(k).iter().collect();
                if why.is_none() && (vs.len() != 1 || vs[0].as_bytes() != v.as_bytes()) {
                    why = Some(format!("header {} on the wire is {:?}", k, vs));
                }
            }
            let uas: Vec<_> = seen.parts.headers.get_all("user-agent").iter().collect();
            let want_ua = match &cc.custom_ua {
                Some(c) => format!("{} {}", c, tonic_ua),
                None => tonic_ua.clone(),
            };
            if why.is_none() && (uas.len() != 1 || uas[0].as_bytes() != want_ua.as_bytes()) {
                why = Some(format!("user-agent on the wire {:?}, expected {:?}", uas, want_ua));
            }
            if why.is_none() && seen.trailers {
                why = Some("client request carries trailers on the wire".into());
            }
            let announced = seen.parts.headers.get("grpc-encoding").and_then(|v| v.to_str().ok()).and_then(Enc::from_name);
            let head = Tr::L(vec![
                Tr::n(1u8),
                Tr::s(seen.parts.method.as_str()),
                Tr::n(version_n(seen.parts.version)),
                uri_tr(&seen.parts.uri),
                hm_tr(&seen.parts.headers),
            ]);
            // a failed encode resets the stream: the peer then reports an error instead (handled above)
            (
                Tr::L(vec![head, Tr::L(segs(&seen.data)), Tr::bool(seen.trailers), Tr::bool(false)]),
                why,
                Some((seen.data.clone(), announced, want.messages.clone(), Some(rc.send.is_some() as u8))),
            )
        }
    };
    out.hist("channel.endpoint", cc.endpoint.clone());
    out.hist("channel.custom_ua", cc.custom_ua.is_some());
    p.cases.push(PCase {
        kind: kind.to_string(),
        input: json!({"endpoint": cc.endpoint, "origin_override": cc.origin_override, "custom_ua": cc.custom_ua,
                      "req": {"origin": rc.origin, "path": rc.path, "send": rc.send.map(|e| e.name()),
                      "accept": rc.accept.iter().map(|e| e.name()).collect::<Vec<_>>(),
                      "md": rc.md.iter().map(|(k, v)| json!([k, hex(v)])).collect::<Vec<_>>(),
                      "max": rc.max, "bs": rc.bs.map(|(a, b)| json!([a, b])), "shape": rc.shape,
                      "msgs": rc.msgs.iter().map(|m| msg_json(m)).collect::<Vec<_>>()}}),
        model,
        obs,
        oracle,
        nontrivial: true,
        wire,
        proto: None,
    });
}
const ENDPOINTS: &[&str] = &["http://example.com", "http://h:1234", "https://secure.example:8443", "http://h/api", "http://[::1]:50051"];
fn gen_channel(r: &mut Rng) -> ChanCase {
    let mut req = gen_request(r);
    // messages that encode: a failing request body resets the stream instead of reaching the peer
    req.shape = if r.chance(1, 2) { 0 } else { 1 };
    req.max = None;
    req.msgs = (0..r.range(1, 3)).map(|_| gen_msg(r, 32768, false)).collect();
    req.origin = match r.below(4) {
        0 | 1 => None,
        2 => Some("http://ignored.example/prefix".to_string()),
        _ => Some("/v1".to_string()),
    };
    ChanCase {
        endpoint: r.pick(ENDPOINTS).to_string(),
        origin_override: if r.chance(1, 4) { Some("http://override.example:99".to_string()) } else { None },
        custom_ua: if r.chance(1, 2) { Some(r.pick(&["Greeter 1.1", "x", "my-app/2 (linux)"]).to_string()) } else { None },
        req,
    }
}

// ------------------------------------------------------------------ generators
const CODES_MSGS: &[&str] = &["", "x", "not found", "a%b c", "é", "bad \"thing\"", "50% off\n"];
/// status messages over every combination of character classes (a fast path keyed on "is ASCII",
/// "has no %", "is printable" ... is only wrong for some combinations): controls incl. NUL, LF, CR,
/// ESC, DEL and TAB; space; printable ASCII; the percent sign; quotes and other encode-set
/// members; 2/3/4-byte UTF-8
fn gen_status_message(r: &mut Rng) -> String {
    const CLASSES: &[&[char]] = &[
        &['\n', '\r', '\0', '\x1b', '\x7f', '\x01', '\x1f'],
        &['\t'],
        &[' '],
        &['a', 'Z', '0', '-', '_', '.', '~', ',', ':', '/'],
        &['%'],
        &['"', '#', '<', '>', '?', '`', '{', '}'],
        &['é', 'ß', '€', '漢', '😀', '\u{10ffff}'],
    ];
    let mask = r.range(1, (1 << CLASSES.len()) - 1) as usize;
    let pool: Vec<char> = CLASSES.iter().enumerate().filter(|(i, _)| mask >> i & 1 == 1).flat_map(|(_, c)| c.iter().copied()).collect();
    let n = r.range(1, 12) as usize;
    (0..n).map(|_| *r.pick(&pool)).collect()
}
fn gen_status(r: &mut Rng) -> StSpec {
    let mut md = vec![];
    for _ in 0..(if r.chance(1, 3) { r.range(1, 2) } else { 0 }) {
        match r.below(5) {
            0 => md.push(("x-a".to_string(), b"v".to_vec())),
            1 => md.push(("x-trace-bin".to_string(), r.bytes(3))),
            2 => md.push(("grpc-status".to_string(), b"0".to_vec())), // a forged status in the metadata
            3 => md.push(("content-type".to_string(), b"text/plain".to_vec())),
            _ => md.push(("x-a".to_string(), b"w w".to_vec())),
        }
    }
    StSpec {
        code: r.range(1, 16) as u32,
        msg: if r.chance(1, 3) { r.pick(CODES_MSGS).to_string() } else { gen_status_message(r) },
        details: if r.chance(1, 4) { let n = r.range(1, 5) as usize; r.bytes(n) } else { vec![] },
        md,
    }
}
fn gen_msg(r: &mut Rng, thr: usize, fail_ok: bool) -> Vec<u8> {
    let n = match r.below(16) {
        0 => 0,
        1 => 1,
        2 => 4,
        3 => 5,
        4 => 6,
        5..=8 => r.range(2, 24) as usize,
        9 => thr.saturating_sub(5).min(300),
        10 => thr.saturating_sub(6).min(300),
        11 => thr.saturating_sub(4).min(300),
        12 => r.range(25, 60) as usize,
        13 => 100,
        14 => r.range(64, 400) as usize,
        _ => {
            if r.chance(1, 6) {
                40_000
            } else {
                r.range(2, 12) as usize
            }
        }
    };
    let mut m = if n >= 64 {
        vec![r.range(0, 0xFD) as u8; n]
    } else {
        let mut m = r.bytes(n);
        if m.first() == Some(&0xFE) {
            m[0] = 0x7E;
        }
        m
    };
    if fail_ok && r.chance(1, 14) {
        if m.is_empty() {
            m.push(0);
        }
        m[0] = 0xFE;
        m.truncate(40);
    }
    m
}
fn gen_cfg(r: &mut Rng, server: bool) -> Cfg {
    let comp = if r.chance(1, 2) { None } else { Some(*r.pick(&ENCS)) };
    let bs = if r.chance(1, 2) {
        None
    } else {
        Some((*r.pick(&[0usize, 1, 2, 5, 64, 8192]), *r.pick(&[0usize, 1, 8, 20, 21, 64, 300, 32768])))
    };
    Cfg { comp, override_disable: server && r.chance(1, 4), max: None, bs }
}
fn gen_src(r: &mut Rng, cfg: &mut Cfg, thorough: bool) -> Vec<SEv> {
    let thr = cfg.bs.map(|b| b.1).unwrap_or(32768);
    let n = match r.below(10) {
        0 => 0,
        1 => 1,
        2..=7 => r.range(2, 6),
        _ => r.range(7, if thorough { 24 } else { 12 }),
    } as usize;
    let err_at = if r.chance(1, 4) { Some(r.below(n as u64 + 1) as usize) } else { None };
    let mut items: Vec<SEv> = vec![];
    for i in 0..n {
        if Some(i) == err_at {
            items.push(SEv::Err(gen_status(r)));
        }
        items.push(SEv::Ok(gen_msg(r, thr, true)));
    }
    if err_at == Some(n) {
        items.push(SEv::Err(gen_status(r)));
    }
    // a limit around the wire length of one of the messages
    if r.chance(1, 2) {
        let oks: Vec<&Vec<u8>> = items.iter().filter_map(|e| if let SEv::Ok(m) = e { Some(m) } else { None }).collect();
        cfg.max = Some(if oks.is_empty() || r.chance(1, 5) {
            *r.pick(&[0usize, 1, 5, 50, 4 * 1024 * 1024])
        } else {
            let m = *r.pick(&oks);
            let len = match cfg.eff() {
                Some(e) => e.compress(m).len(),
                None => m.len(),
            };
            match r.below(3) {
                0 => len.saturating_sub(1),
                1 => len,
                _ => len + 1,
            }
        });
    }
    // Pending pattern
    let mode = r.below(5);
    let mut src = vec![];
    if mode == 3 {
        for _ in 0..r.range(1, 3) {
            src.push(SEv::Pending);
        }
    }
    for it in items {
        match mode {
            1 if r.chance(1, 4) => src.push(SEv::Pending),
            2 if r.chance(1, 2) => {
                src.push(SEv::Pending);
                if r.chance(1, 3) {
                    src.push(SEv::Pending);
                }
            }
            _ => {}
        }
        src.push(it);
    }
    if mode == 4 || (mode == 2 && r.chance(1, 2)) {
        src.push(SEv::Pending);
    }
    src
}
const MD_POOL: &[(&str, &[u8])] = &[
    ("x-a", b"1"),
    ("x-a", b"2"),
    ("authorization", b"Bearer t"),
    ("x-data-bin", b"\x00\x01\xff"),
    ("te", b"gzip"),
    ("content-type", b"text/html"),
    ("user-agent", b"mine"),
    ("grpc-status", b"7"),
    ("grpc-message", b"forged"),
    ("grpc-encoding", b"zstd"),
    ("grpc-accept-encoding", b"br"),
    ("grpc-timeout", b"5S"),
];
fn gen_md(r: &mut Rng) -> Vec<(String, Vec<u8>)> {
    let n = match r.below(4) {
        0 => 0,
        1 | 2 => r.range(1, 2),
        _ => r.range(3, 5),
    };
    (0..n).map(|_| r.pick(MD_POOL)).map(|(k, v)| (k.to_string(), v.to_vec())).collect()
}
const ORIGINS: &[Option<&str>] = &[
    None,
    Some("/"),
    Some("http://example.com"),
    Some("https://example.com:8443/"),
    Some("http://h/api"),
    Some("http://h/api/"),
    Some("http://h/api/v1?x=1"),
    Some("http://h/?q=1"),
    Some("http://h/api/?q=1"),
    Some("http://h/api?q=1"),
    Some("http://h/a/b/"),
    Some("http://h//"),
    Some("*"), // asterisk form: "*" ++ method path is no path-and-query
    Some("http://[::1]:50051"),
    Some("/prefix"),
    Some("/prefix?k=v"),
    Some("http://user@h:1/p%20q"),
    Some("example.com:50051"), // authority form: http refuses to build the request target
    Some("localhost"),
];
const PATHS: &[&str] = &["/pkg.Svc/Method", "/a.B/C", "/grpc.health.v1.Health/Check", "/S/M?x=1", "/x"];
/// method paths no generated client uses (outside the property: "the method's /package.Service/Method
/// path"); they tie Display-for-PathAndQuery in the model (a leading '/' is supplied when missing)
const ODD_PATHS: &[&str] = &["?x=1", "*", "/", "/S/M#frag", "//S/M"];
fn gen_accept(r: &mut Rng) -> Vec<Enc> {
    let mut v = vec![];
    for _ in 0..r.below(4) {
        let e = *r.pick(&ENCS);
        if !v.contains(&e) {
            v.push(e);
        }
    }
    v
}
fn gen_request(r: &mut Rng) -> ReqCase {
    let shape = r.below(4) as u8;
    let n = if shape == 0 || shape == 2 { 1 } else { r.range(0, 4) as usize };
    let bs = if r.chance(2, 3) { None } else { Some((*r.pick(&[0usize, 1, 64]), *r.pick(&[0usize, 8, 32768]))) };
    let msgs: Vec<Vec<u8>> = (0..n).map(|_| gen_msg(r, bs.map(|b| b.1).unwrap_or(32768), shape == 1 || shape == 3)).collect();
    let send = if r.chance(1, 2) { None } else { Some(*r.pick(&ENCS)) };
    let max = if r.chance(1, 4) { Some(*r.pick(&[0usize, 3, 10, 1000])) } else { None };
    ReqCase {
        origin: r.pick(ORIGINS).map(|s| s.to_string()),
        path: r.pick(PATHS).to_string(),
        send,
        accept: gen_accept(r),
        md: gen_md(r),
        max,
        bs,
        shape,
        msgs,
    }
}
const ACCEPT_HEADERS: &[&str] = &["gzip", "deflate", "zstd", "identity", "gzip,deflate", "zstd, gzip", "br,deflate ,gzip", "identity,zstd", ""];
const REQ_ENCODINGS: &[&str] = &["identity", "gzip", "deflate", "zstd", "br", "GZIP", "snappy"];
fn gen_response(r: &mut Rng, thorough: bool) -> RespCase {
    let send = gen_accept(r);
    let accept = gen_accept(r);
    let accept_header = if r.chance(1, 4) {
        None
    } else if !send.is_empty() && r.chance(1, 2) {
        Some(r.pick(&send).name().to_string())
    } else {
        Some(r.pick(ACCEPT_HEADERS).to_string())
    };
    let req_encoding = if r.chance(2, 3) {
        None
    } else if !accept.is_empty() && r.chance(1, 2) {
        Some(r.pick(&accept).name().to_string())
    } else {
        Some(r.pick(REQ_ENCODINGS).to_string())
    };
    let bs = if r.chance(2, 3) { None } else { Some((*r.pick(&[0usize, 1, 64]), *r.pick(&[0usize, 8, 32768]))) };
    let mut max = if r.chance(1, 4) { Some(*r.pick(&[0usize, 3, 10, 1000])) } else { None };
    let handler = match r.below(6) {
        0 => Handler::Unary(Err(gen_status(r))),
        1 => Handler::Stream(Err(gen_status(r))),
        2 | 3 => Handler::Unary(Ok((gen_md(r), gen_msg(r, 32768, true), r.chance(1, 3)))),
        _ => {
            let mut c = Cfg { comp: chosen_encoding(&send, &accept_header), override_disable: false, max, bs };
            let src = gen_src(r, &mut c, thorough);
            max = c.max;
            // a stream response carrying the override: it must be ignored
            Handler::Stream(Ok((gen_md(r), src, r.chance(1, 5))))
        }
    };
    RespCase { handler, req_stream: r.chance(1, 2), send, accept, accept_header, req_encoding, has_msg: !r.chance(1, 8), max, bs }
}

// ------------------------------------------------------------------ corpus
fn st(code: u32, msg: &str) -> StSpec {
    StSpec { code, msg: msg.to_string(), details: vec![], md: vec![] }
}
fn corpus(p: &mut Pend, out: &mut Out) {
    let plain = Cfg { comp: None, override_disable: false, max: None, bs: None };
    let small = vec![1u8, 2, 3];
    let after = vec![9u8, 9];
    let over = vec![7u8; 100];
    for server in [true, false] {
        // F-C06a: [small, oversize, after] all ready, limit 50
        let c = Cfg { max: Some(50), ..plain.clone() };
        let s = vec![SEv::Ok(small.clone()), SEv::Ok(over.clone()), SEv::Ok(after.clone())];
        case_body(p, out, "corpus.F-C06a", server, &c, &s);
        let s = vec![SEv::Ok(small.clone()), SEv::Pending, SEv::Ok(over.clone()), SEv::Ok(after.clone())];
        case_body(p, out, "corpus.F-C06a", server, &c, &s);
        let s = vec![SEv::Ok(over.clone()), SEv::Ok(after.clone())];
        case_body(p, out, "corpus.F-C06a", server, &c, &s);
        // F-C03a: items after an Err item; leftovers of a failed encode
        let s = vec![SEv::Ok(small.clone()), SEv::Err(st(5, "x")), SEv::Ok(after.clone())];
        case_body(p, out, "corpus.F-C03a", server, &plain, &s);
        let s = vec![SEv::Err(st(5, "x")), SEv::Ok(after.clone()), SEv::Err(st(7, "y"))];
        case_body(p, out, "corpus.F-C03a", server, &plain, &s);
        let s = vec![SEv::Ok(small.clone()), SEv::Ok(vec![0xFE, 1, 2, 3, 4, 5]), SEv::Ok(after.clone())];
        case_body(p, out, "corpus.F-C03a", server, &plain, &s);
        let s = vec![SEv::Ok(vec![0xFE, 1, 2, 3]), SEv::Ok(after.clone())];
        case_body(p, out, "corpus.F-C03a", server, &plain, &s);
        let s = vec![SEv::Ok(vec![0xFE]), SEv::Pending, SEv::Ok(after.clone())];
        case_body(p, out, "corpus.F-C03a", server, &plain, &s);
        for e in ENCS {
            let c = Cfg { comp: Some(e), ..plain.clone() };
            let s = vec![SEv::Ok(small.clone()), SEv::Ok(vec![0xFE, 1, 2, 3, 4, 5]), SEv::Ok(after.clone())];
            case_body(p, out, "corpus.F-C03a", server, &c, &s);
            // F-C01a: BufferSettings::new(0, _) with compression
            for thr in [0usize, 1, 32768] {
                let c = Cfg { comp: Some(e), bs: Some((0, thr)), ..plain.clone() };
                let s = vec![SEv::Ok(small.clone()), SEv::Ok(vec![]), SEv::Ok(vec![5u8; 300])];
                case_body(p, out, "corpus.F-C01a", server, &c, &s);
            }
            // override: compression configured but disabled for this response
            if server {
                let c = Cfg { comp: Some(e), override_disable: true, ..plain.clone() };
                case_body(p, out, "corpus.edge", server, &c, &[SEv::Ok(small.clone()), SEv::Ok(over.clone())]);
            }
            // the limit is applied to the compressed length
            let z = e.compress(&over).len();
            for l in [z - 1, z, z + 1] {
                let c = Cfg { comp: Some(e), max: Some(l), ..plain.clone() };
                case_body(p, out, "corpus.edge", server, &c, &[SEv::Ok(small.clone()), SEv::Ok(over.clone()), SEv::Ok(after.clone())]);
            }
        }
        // edges: nothing, only Pending, error first, limit boundaries, threshold boundaries
        case_body(p, out, "corpus.edge", server, &plain, &[]);
        case_body(p, out, "corpus.edge", server, &plain, &[SEv::Pending, SEv::Pending]);
        case_body(p, out, "corpus.edge", server, &plain, &[SEv::Err(st(16, ""))]);
        case_body(p, out, "corpus.edge", server, &plain, &[SEv::Pending, SEv::Err(st(1, "late")), SEv::Pending]);
        case_body(p, out, "corpus.edge", server, &plain, &[SEv::Ok(vec![])]);
        for l in [0usize, 2, 3, 4] {
            let c = Cfg { max: Some(l), ..plain.clone() };
            case_body(p, out, "corpus.edge", server, &c, &[SEv::Ok(vec![]), SEv::Ok(small.clone()), SEv::Ok(after.clone())]);
        }
        for thr in [0usize, 7, 8, 9, 16] {
            // frames of 8 bytes: the threshold is compared with >=
            let c = Cfg { bs: Some((8192, thr)), ..plain.clone() };
            let s = vec![SEv::Ok(small.clone()), SEv::Ok(small.clone()), SEv::Ok(small.clone()), SEv::Pending, SEv::Ok(small.clone())];
            case_body(p, out, "corpus.edge", server, &c, &s);
        }
        let big = vec![3u8; 40_000];
        case_body(p, out, "corpus.edge", server, &plain, &[SEv::Ok(small.clone()), SEv::Ok(big.clone()), SEv::Ok(after.clone()), SEv::Ok(big.clone())]);
    }
    // F-C03b: an origin with a query but the root path doubled the leading slash of the target
    for o in ["http://h/?q=1", "/?q=1", "http://h?x", "https://h:1/?a=b&c=d"] {
        for (shape, path) in [(0u8, "/pkg.Svc/Method"), (3u8, "/S/M?x=1")] {
            let rc = ReqCase { origin: Some(o.to_string()), path: path.to_string(), send: None, accept: vec![], md: vec![], max: None, bs: None, shape, msgs: vec![small.clone()] };
            case_request(p, out, "corpus.F-C03b", &rc);
        }
    }
    // heads
    for o in ORIGINS {
        for path in ["/pkg.Svc/Method", "/S/M?x=1"] {
            let rc = ReqCase {
                origin: o.map(|s| s.to_string()),
                path: path.to_string(),
                send: None,
                accept: vec![],
                md: vec![],
                max: None,
                bs: None,
                shape: 0,
                msgs: vec![small.clone()],
            };
            case_request(p, out, "corpus.request", &rc);
        }
    }
    for e in ENCS {
        for shape in 0..4u8 {
            let rc = ReqCase {
                origin: Some("http://example.com".into()),
                path: "/pkg.Svc/Method".into(),
                send: Some(e),
                accept: vec![e, Enc::Gzip],
                md: MD_POOL.iter().map(|(k, v)| (k.to_string(), v.to_vec())).collect(),
                max: None,
                bs: None,
                shape,
                msgs: vec![small.clone(), over.clone()],
            };
            case_request(p, out, "corpus.request", &rc);
        }
    }
    let base = |h: Handler| RespCase { handler: h, req_stream: false, send: vec![], accept: vec![], accept_header: None, req_encoding: None, has_msg: true, max: None, bs: None };
    for h in [
        Handler::Unary(Err(st(5, "not found"))),
        Handler::Stream(Err(st(12, ""))),
        Handler::Unary(Err(StSpec { code: 3, msg: "bad".into(), details: vec![1, 2, 3], md: vec![("grpc-status".into(), b"0".to_vec()), ("content-type".into(), b"text/plain".to_vec()), ("x-a".into(), b"v".to_vec())] })),
        Handler::Unary(Ok((vec![("grpc-status".into(), b"0".to_vec()), ("x-a".into(), b"v".to_vec())], small.clone(), false))),
        Handler::Unary(Ok((vec![], vec![0xFE, 1], false))),
        Handler::Stream(Ok((vec![], vec![SEv::Ok(small.clone()), SEv::Err(st(5, "x")), SEv::Ok(after.clone())], false))),
        Handler::Stream(Ok((vec![], vec![], false))),
        Handler::Stream(Ok((vec![], vec![SEv::Ok(over.clone()), SEv::Pending, SEv::Ok(small.clone())], true))),
        Handler::Unary(Ok((vec![], over.clone(), true))),
    ] {
        for (send, hdr) in [(vec![], None), (vec![Enc::Gzip], Some("gzip")), (vec![Enc::Zstd, Enc::Deflate], Some("deflate,zstd")), (vec![Enc::Gzip], Some("zstd")), (vec![Enc::Deflate], Some(" gzip ,\tdeflate"))] {
            for req_stream in [false, true] {
                let rc = RespCase { req_stream, send: send.clone(), accept_header: hdr.map(|s: &str| s.to_string()), ..base(h.clone()) };
                case_response(p, out, "corpus.response", &rc);
            }
        }
    }
    // early returns: unsupported request encoding (t! / map_response(Err)), missing request message
    for req_stream in [false, true] {
        for h in [Handler::Unary(Ok((vec![], small.clone(), false))), Handler::Stream(Ok((vec![], vec![SEv::Ok(small.clone())], false)))] {
            for (accept, enc) in [(vec![], "br"), (vec![], "gzip"), (vec![Enc::Gzip], "gzip"), (vec![Enc::Gzip, Enc::Zstd], "deflate"), (vec![Enc::Zstd], "identity")] {
                let rc = RespCase { req_stream, accept, req_encoding: Some(enc.to_string()), send: vec![Enc::Gzip], accept_header: Some("gzip".into()), ..base(h.clone()) };
                case_response(p, out, "corpus.response", &rc);
            }
            let rc = RespCase { req_stream, has_msg: false, ..base(h.clone()) };
            case_response(p, out, "corpus.response", &rc);
        }
    }
    let rc = RespCase { max: Some(50), ..base(Handler::Unary(Ok((vec![], over.clone(), false)))) };
    case_response(p, out, "corpus.response", &rc);
    corpus_ext(p, out);
}
/// corpus of audit 2 (kept after the older corpus so that the evidence samples stay small)
fn corpus_ext(p: &mut Pend, out: &mut Out) {
    let small = vec![1u8, 2, 3];
    let req = |origin: &str, path: &str, shape: u8| ReqCase { origin: Some(origin.to_string()), path: path.to_string(), send: None, accept: vec![], md: vec![], max: None, bs: None, shape, msgs: vec![small.clone()] };
    // N-C03-1: a prefix is used verbatim, with or without a trailing slash, whatever the origin's query
    for o in ["http://h/api/", "http://h/api/?q=1", "http://h/api?q=1", "/api/", "http://h/a/b/", "http://h//", "http://h//?x"] {
        for (shape, path) in [(0u8, "/pkg.Svc/Method"), (1u8, "/S/M?x=1")] {
            case_request(p, out, "corpus.prefix", &req(o, path, shape));
        }
    }
    // method paths that are no /package.Service/Method (Display for PathAndQuery in the model)
    for o in ["http://h", "http://h/api", "http://h/api/", "/v1?k=v"] {
        for path in ODD_PATHS {
            case_request(p, out, "corpus.odd_path", &req(o, path, 0));
        }
    }
    // the asterisk-form origin and the longest targets http can hold: expect("must form valid path_and_query")
    case_request(p, out, "corpus.target_limit", &req("*", "/pkg.Svc/Method", 0));
    for n in [65517usize, 65518, 65519, 65600] {
        let o = format!("http://h/{}", "a".repeat(n));
        case_request(p, out, "corpus.target_limit", &req(&o, "/pkg.Svc/Method", 0));
    }
    // hand-built requests through the Channel's tower Service
    for u in ext::RAW_URIS {
        for (ep, ov) in [("http://h:1234", None), ("http://h/api", Some("https://override.example:99"))] {
            let rc = ext::RawCase {
                endpoint: ep.to_string(),
                origin_override: ov.map(|s: &str| s.to_string()),
                custom_ua: None,
                uri: u.to_string(),
                method: "POST".to_string(),
                headers: vec![("te".to_string(), b"trailers".to_vec()), ("user-agent".to_string(), b"mine".to_vec())],
            };
            ext::case_channel_raw(p, out, "corpus.channel_raw", &rc);
        }
    }
    // F-C04d (fixed, 08dc8d0b): many values of one name; and the limit of http on names
    for (n, distinct) in [(1usize, false), (24573, false), (24574, false), (30000, false), (24573, true), (24574, true), (24575, true), (24576, true)] {
        for via_error_item in [true, false] {
            ext::case_trailers_capacity(p, out, "corpus.F-C04d", n, distinct, via_error_item);
        }
    }
    // the real ProstCodec encoder
    let plain = Cfg { comp: None, override_disable: false, max: None, bs: None };
    let m0 = ext::PMsg::default();
    let m1 = ext::PMsg { name: "tonic".into(), n: 300, blob: vec![0, 255], r: vec![1, 128, 70000], z: -2 };
    for server in [true, false] {
        ext::case_prost(p, out, "corpus.prost", server, &plain, &[ext::PEv::Ok(m0.clone()), ext::PEv::Ok(m1.clone())]);
        ext::case_prost(p, out, "corpus.prost", server, &plain, &[ext::PEv::Ok(m1.clone()), ext::PEv::Pending, ext::PEv::Err(st(9, "stop")), ext::PEv::Ok(m0.clone())]);
        for e in ENCS {
            let c = Cfg { comp: Some(e), ..plain.clone() };
            ext::case_prost(p, out, "corpus.prost", server, &c, &[ext::PEv::Ok(m1.clone()), ext::PEv::Ok(m0.clone()), ext::PEv::Ok(m1.clone())]);
        }
        let c = Cfg { max: Some(3), ..plain.clone() };
        ext::case_prost(p, out, "corpus.prost", server, &c, &[ext::PEv::Ok(m0.clone()), ext::PEv::Ok(m1.clone()), ext::PEv::Ok(m0.clone())]);
    }
}

fn replay(p: &mut Pend, out: &mut Out, file: &str) {
    let v: Value = serde_json::from_str(&std::fs::read_to_string(file).unwrap()).unwrap();
    let kind = v["kind"].as_str().unwrap_or("body");
    let inp = &v["input"];
    if kind.ends_with("prost") {
        ext::replay_prost(p, out, kind, inp);
    } else if kind.ends_with("channel_raw") {
        ext::case_channel_raw(p, out, kind, &ext::raw_from_json(inp));
    } else if kind.ends_with("pq_parse") {
        ext::case_pq_parse(p, out, kind, &msg_from_json(&inp["s"]));
    } else if kind == "corpus.F-C04d" {
        ext::case_trailers_capacity(p, out, kind, inp["n"].as_u64().unwrap() as usize, inp["distinct"].as_bool().unwrap_or(false), inp["via_error_item"].as_bool().unwrap());
    } else if kind.ends_with("body") || (kind.starts_with("corpus.F-") && kind != "corpus.F-C03b" && kind != "corpus.F-C04d") || kind == "corpus.edge" {
        let cfg = Cfg::from_json(&inp["cfg"]);
        let src: Vec<SEv> = inp["src"].as_array().unwrap().iter().map(sev_from_json).collect();
        case_body(p, out, kind, inp["server"].as_bool().unwrap(), &cfg, &src);
    } else if kind.ends_with("channel") {
        let q = &inp["req"];
        let req = ReqCase {
            origin: q["origin"].as_str().map(|s| s.to_string()),
            path: q["path"].as_str().unwrap().to_string(),
            send: q["send"].as_str().and_then(Enc::from_name),
            accept: q["accept"].as_array().unwrap().iter().filter_map(|e| e.as_str().and_then(Enc::from_name)).collect(),
            md: q["md"].as_array().unwrap().iter().map(|e| (e[0].as_str().unwrap().to_string(), unhex(e[1].as_str().unwrap()))).collect(),
            max: q["max"].as_u64().map(|x| x as usize),
            bs: q["bs"].as_array().map(|a| (a[0].as_u64().unwrap() as usize, a[1].as_u64().unwrap() as usize)),
            shape: q["shape"].as_u64().unwrap() as u8,
            msgs: q["msgs"].as_array().unwrap().iter().map(msg_from_json).collect(),
        };
        let cc = ChanCase {
            endpoint: inp["endpoint"].as_str().unwrap().to_string(),
            origin_override: inp["origin_override"].as_str().map(|s| s.to_string()),
            custom_ua: inp["custom_ua"].as_str().map(|s| s.to_string()),
            req,
        };
        case_channel(p, out, kind, &cc);
    } else if kind.ends_with("request") || kind == "corpus.F-C03b" || kind == "corpus.prefix" || kind.ends_with("odd_path") || kind == "corpus.target_limit" {
        let rc = ReqCase {
            origin: inp["origin"].as_str().map(|s| s.to_string()),
            path: inp["path"].as_str().unwrap().to_string(),
            send: inp["send"].as_str().and_then(Enc::from_name),
            accept: inp["accept"].as_array().unwrap().iter().filter_map(|e| e.as_str().and_then(Enc::from_name)).collect(),
            md: inp["md"].as_array().unwrap().iter().map(|e| (e[0].as_str().unwrap().to_string(), unhex(e[1].as_str().unwrap()))).collect(),
            max: inp["max"].as_u64().map(|x| x as usize),
            bs: inp["bs"].as_array().map(|a| (a[0].as_u64().unwrap() as usize, a[1].as_u64().unwrap() as usize)),
            shape: inp["shape"].as_u64().unwrap() as u8,
            msgs: inp["msgs"].as_array().unwrap().iter().map(msg_from_json).collect(),
        };
        case_request(p, out, kind, &rc);
    } else {
        let md = |v: &Value| -> Vec<(String, Vec<u8>)> { v.as_array().unwrap().iter().map(|e| (e[0].as_str().unwrap().to_string(), unhex(e[1].as_str().unwrap()))).collect() };
        let h = &inp["handler"];
        let handler = if !h["unary_ok"].is_null() {
            let u = &h["unary_ok"];
            Handler::Unary(Ok((md(&u["md"]), msg_from_json(&u["msg"]), u["disable"].as_bool().unwrap())))
        } else if !h["unary_err"].is_null() {
            Handler::Unary(Err(StSpec::from_json(&h["unary_err"])))
        } else if !h["stream_ok"].is_null() {
            let u = &h["stream_ok"];
            Handler::Stream(Ok((md(&u["md"]), u["src"].as_array().unwrap().iter().map(sev_from_json).collect(), u["disable"].as_bool().unwrap_or(false))))
        } else {
            Handler::Stream(Err(StSpec::from_json(&h["stream_err"])))
        };
        let rc = RespCase {
            handler,
            req_stream: inp["req_stream"].as_bool().unwrap_or(false),
            accept: inp["accept"].as_array().map(|a| a.iter().filter_map(|e| e.as_str().and_then(Enc::from_name)).collect()).unwrap_or_default(),
            req_encoding: inp["req_encoding"].as_str().map(|s| s.to_string()),
            has_msg: inp["has_msg"].as_bool().unwrap_or(true),
            send: inp["send"].as_array().unwrap().iter().filter_map(|e| e.as_str().and_then(Enc::from_name)).collect(),
            accept_header: inp["accept_header"].as_str().map(|s| s.to_string()),
            max: inp["max"].as_u64().map(|x| x as usize),
            bs: inp["bs"].as_array().map(|a| (a[0].as_u64().unwrap() as usize, a[1].as_u64().unwrap() as usize)),
        };
        case_response(p, out, kind, &rc);
    }
}

fn main() {
    let a = args();
    let mut out = Out::new(&a.out);
    let mut p = Pend { cases: vec![] };
    let mut r = Rng::new(a.seed);
    if let Some(f) = &a.replay {
        replay(&mut p, &mut out, f);
    } else {
        corpus(&mut p, &mut out);
        let (n_body, n_req, n_resp) = if a.thorough { (14_000, 2_500, 3_500) } else { (1_300, 300, 400) };
        for _ in 0..n_body {
            let server = r.chance(3, 5);
            let mut cfg = gen_cfg(&mut r, server);
            let src = gen_src(&mut r, &mut cfg, a.thorough);
            case_body(&mut p, &mut out, "body", server, &cfg, &src);
        }
        for _ in 0..n_req {
            let rc = gen_request(&mut r);
            case_request(&mut p, &mut out, "request", &rc);
        }
        for _ in 0..n_resp {
            let rc = gen_response(&mut r, a.thorough);
            case_response(&mut p, &mut out, "response", &rc);
        }
        for _ in 0..(if a.thorough { 600 } else { 120 }) {
            let cc = gen_channel(&mut r);
            case_channel(&mut p, &mut out, "channel", &cc);
        }
        // independent stream for the kinds of audit 2, so that the older kinds keep their inputs
        let mut r2 = Rng::new(a.seed ^ 0x5eed_c03);
        for _ in 0..(if a.thorough { 800 } else { 150 }) {
            let server = r2.chance(3, 5);
            let mut cfg = gen_cfg(&mut r2, server);
            let src = ext::gen_prost_src(&mut r2, &mut cfg);
            ext::case_prost(&mut p, &mut out, "prost", server, &cfg, &src);
        }
        for _ in 0..(if a.thorough { 150 } else { 40 }) {
            let rc = ext::gen_raw(&mut r2);
            ext::case_channel_raw(&mut p, &mut out, "channel_raw", &rc);
        }
        for _ in 0..(if a.thorough { 1_000 } else { 200 }) {
            let s = ext::gen_pq_string(&mut r2);
            ext::case_pq_parse(&mut p, &mut out, "lib.pq_parse", &s);
        }
        for _ in 0..(if a.thorough { 300 } else { 60 }) {
            let mut rc = gen_request(&mut r2);
            rc.path = r2.pick(ODD_PATHS).to_string();
            case_request(&mut p, &mut out, "request.odd_path", &rc);
        }
    }
    let dir = a.out.clone();
    let py = p.flush(&mut out, &dir);
    out.finish(
        IMPORTS,
        "body: EncodeBody::new_server/new_client over a scripted source (0-24 items: messages of boundary sizes around the yield threshold and the limit, codec failures, Err items; Ready/Pending patterns; identity/gzip/deflate/zstd; per-response override; BufferSettings incl. 0), polled to None and 5 more times, non-trivial = >= 2 messages or a failure after >= 1 message; request: client::Grpc over a capturing service for the four call shapes x origins x paths x metadata incl. reserved names, non-trivial = non-default origin, metadata or compression; response: server::Grpc::{unary,client_streaming,server_streaming,streaming} with Ok/Err handlers x negotiated encodings x request grpc-encoding (supported, unsupported => early UNIMPLEMENTED) x missing request message x the per-response override (also on stream responses, where it must be ignored); channel: a real transport::Channel (AddOrigin, UserAgent, hyper h2 client) over an in-memory pipe against a bare h2 peer that records the head and body that arrive. is_end_stream() is read before the first and after every poll of every body. All scripted sources are strict: a poll after they returned None is counted (compared with the model's ghost, oracle: 0) and answered with a poison item or a panic, alternating per case. Every body is judged by oracle/grpc_wire.py. prost: EncodeBody over the real ProstCodec encoder for a five-field message (string, uint64, bytes, packed repeated uint32, sint32; boundary values), the Python judge parses the protobuf wire format itself and compares fields. corpus.prefix / corpus.odd_path / request.odd_path / corpus.target_limit: origins with a path prefix with and without trailing slash and query, method paths that are no /pkg.Svc/Method (tie only), the asterisk-form origin and targets of 65533..65616 bytes around http's 65534-byte limit (explicit panic outcome). channel_raw: hand-built http::Requests (origin-form, absolute-form, authority-form targets) given to the Channel's tower Service directly (AddOrigin's expect, observed through a panic hook on the worker task). corpus.F-C04d: server streams ending with a status of 1..30000 metadata values of one name / 24573..24576 distinct names. lib.pq_parse: http's PathAndQuery parser against the model's transcription (pool of edge strings, random bytes, lengths around 65534). Distinct = distinct (kind, model expression).",
        json!({"extra_polls": EXTRA_POLLS, "python_bodies_judged": py.judged,
               "python_messages_inflated": py.inflated_messages, "python_protobuf_messages_decoded": py.proto_messages}),
    );
}
