//! Kinds added for audit 2 (N-C03-1, L-C03): the real ProstCodec encoder judged by the Python
//! protobuf decoder, hand-built requests through a real Channel (AddOrigin's expect), http's
//! PathAndQuery parser (the library behaviour the model of prepare_request rests on), the trailers of a status with very many metadata
//! values.
use super::*;
use tonic::codec::ProstCodec;

/// a Gallina byte-list literal that stays small when the bytes hold long runs:
/// `([47] ++ rep 65518 97)`
pub fn coq_bytes_seg(b: &[u8]) -> String {
    let mut parts: Vec<String> = vec![];
    let mut lit: Vec<u8> = vec![];
    let mut i = 0;
    while i < b.len() {
        let mut j = i;
        while j < b.len() && b[j] == b[i] {
            j += 1;
        }
        if j - i >= 64 {
            if !lit.is_empty() {
                parts.push(coq_bytes(&std::mem::take(&mut lit)));
            }
            parts.push(format!("rep {} {}", j - i, b[i]));
        } else {
            lit.extend_from_slice(&b[i..j]);
        }
        i = j;
    }
    if !lit.is_empty() || parts.is_empty() {
        parts.push(coq_bytes(&lit));
    }
    if parts.len() == 1 {
        let p = parts.pop().unwrap();
        if p.starts_with("rep") {
            format!("({})", p)
        } else {
            p
        }
    } else {
        format!("({})", parts.join(" ++ "))
    }
}
/// the observable of such a byte string: Model/EncoderExt.v bs_obs
pub fn bs_tr(b: &[u8]) -> Tr {
    let mut s = segs(b);
    if s.is_empty() {
        return Tr::B(vec![]);
    }
    if s.len() == 1 {
        if let Tr::B(_) = &s[0] {
            return s.pop().unwrap();
        }
    }
    Tr::L(s)
}

// ------------------------------------------------------------------ kind: prost.body
#[derive(Clone, PartialEq, prost::Message)]
pub struct PMsg {
    #[prost(string, tag = "1")]
    pub name: String,
    #[prost(uint64, tag = "2")]
    pub n: u64,
    #[prost(bytes = "vec", tag = "3")]
    pub blob: Vec<u8>,
    #[prost(uint32, repeated, tag = "4")]
    pub r: Vec<u32>,
    #[prost(sint32, tag = "5")]
    pub z: i32,
}
#[derive(Clone, Debug)]
pub enum PEv {
    Pending,
    Ok(PMsg),
    Err(StSpec),
}
pub struct PScript {
    evs: VecDeque<PEv>,
    strict: Strict,
}
impl tokio_stream::Stream for PScript {
    type Item = Result<PMsg, Status>;
    fn poll_next(mut self: Pin<&mut Self>, cx: &mut Context<'_>) -> Poll<Option<Self::Item>> {
        match self.evs.pop_front() {
            Some(PEv::Pending) => {
                cx.waker().wake_by_ref();
                Poll::Pending
            }
            Some(PEv::Ok(m)) => Poll::Ready(Some(Ok(m))),
            Some(PEv::Err(s)) => Poll::Ready(Some(Err(s.status()))),
            None => match self.strict.at_end() {
                None => Poll::Ready(None),
                // polled after the end: invent a message (or panic, inside at_end)
                Some(_) => Poll::Ready(Some(Ok(PMsg { name: "POLLED-AFTER-END".into(), ..Default::default() }))),
            },
        }
    }
}
fn zigzag(z: i32) -> u32 {
    ((z << 1) ^ (z >> 31)) as u32
}
fn pmsg_coq(m: &PMsg) -> String {
    format!(
        "(mkPMsg {} {} {} {} {})",
        coq_bytes(m.name.as_bytes()),
        m.n,
        coq_bytes(&m.blob),
        coq_list(&m.r, |x| x.to_string()),
        zigzag(m.z)
    )
}
fn pmsg_json(m: &PMsg) -> Value {
    json!({"name": hex(m.name.as_bytes()), "n": m.n.to_string(), "blob": hex(&m.blob), "r": m.r, "z": m.z})
}
fn pmsg_from_json(v: &Value) -> PMsg {
    PMsg {
        name: String::from_utf8(unhex(v["name"].as_str().unwrap())).unwrap(),
        n: v["n"].as_str().unwrap().parse().unwrap(),
        blob: unhex(v["blob"].as_str().unwrap()),
        r: v["r"].as_array().unwrap().iter().map(|x| x.as_u64().unwrap() as u32).collect(),
        z: v["z"].as_i64().unwrap() as i32,
    }
}
fn pev_coq(e: &PEv) -> String {
    match e {
        PEv::Pending => "SPending".into(),
        PEv::Ok(m) => format!("SItem (IOk {})", pmsg_coq(m)),
        PEv::Err(s) => format!("SItem (IErr {})", s.coq()),
    }
}
fn pev_json(e: &PEv) -> Value {
    match e {
        PEv::Pending => json!("P"),
        PEv::Ok(m) => json!({"ok": pmsg_json(m)}),
        PEv::Err(s) => json!({"err": s.json()}),
    }
}
fn pev_from_json(v: &Value) -> PEv {
    if v.as_str() == Some("P") {
        PEv::Pending
    } else if !v["ok"].is_null() {
        PEv::Ok(pmsg_from_json(&v["ok"]))
    } else {
        PEv::Err(StSpec::from_json(&v["err"]))
    }
}
pub fn gen_pmsg(r: &mut Rng) -> PMsg {
    let name = match r.below(5) {
        0 => String::new(),
        1 => "x".to_string(),
        2 => "héllo wörld €".to_string(),
        3 => "n".repeat(r.range(120, 300) as usize), // a length that needs a two-byte varint
        _ => r.pick(&["tonic", "a.b/C", "0", "\u{0}"]).to_string(),
    };
    let n = match r.below(6) {
        0 => 0,
        1 => 1,
        2 => 127,
        3 => 128,
        4 => u64::MAX,
        _ => r.next() >> r.below(64),
    };
    let blob = match r.below(4) {
        0 => vec![],
        1 => vec![0],
        2 => {
            let k = r.range(1, 12) as usize;
            r.bytes(k)
        }
        _ => vec![r.below(256) as u8; r.range(64, 200) as usize],
    };
    let rr: Vec<u32> = match r.below(4) {
        0 => vec![],
        1 => vec![0],
        2 => vec![0, 1, 127, 128, 16383, 16384, u32::MAX],
        _ => (0..r.range(1, 5)).map(|_| (r.next() >> r.below(64)) as u32).collect(),
    };
    let z = match r.below(6) {
        0 => 0,
        1 => -1,
        2 => 1,
        3 => i32::MIN,
        4 => i32::MAX,
        _ => r.next() as i32 >> r.below(32),
    };
    PMsg { name, n, blob, r: rr, z }
}
pub fn gen_prost_src(r: &mut Rng, cfg: &mut Cfg) -> Vec<PEv> {
    let n = match r.below(8) {
        0 => 0,
        1 => 1,
        _ => r.range(2, 6),
    } as usize;
    let err_at = if r.chance(1, 4) { Some(r.below(n as u64 + 1) as usize) } else { None };
    let mut src = vec![];
    for i in 0..n {
        if Some(i) == err_at {
            src.push(PEv::Err(gen_status(r)));
        }
        if r.chance(1, 5) {
            src.push(PEv::Pending);
        }
        src.push(PEv::Ok(gen_pmsg(r)));
    }
    if err_at == Some(n) {
        src.push(PEv::Err(gen_status(r)));
    }
    if r.chance(1, 3) {
        let oks: Vec<&PMsg> = src.iter().filter_map(|e| if let PEv::Ok(m) = e { Some(m) } else { None }).collect();
        if !oks.is_empty() {
            let m = *r.pick(&oks);
            let raw = prost::Message::encode_to_vec(m);
            let len = match cfg.eff() {
                Some(e) => e.compress(&raw).len(),
                None => raw.len(),
            };
            cfg.max = Some(match r.below(3) {
                0 => len.saturating_sub(1),
                1 => len,
                _ => len + 1,
            });
        }
    }
    src
}
/// EncodeBody over the REAL ProstCodec encoder; the body is judged by the Python decoder, which
/// parses the protobuf wire format itself and compares the FIELDS with the messages given here
pub fn case_prost(p: &mut Pend, out: &mut Out, kind: &str, server: bool, cfg: &Cfg, src: &[PEv]) {
    let budget = src.len() + 3;
    let (strict, polled_after_end) = Strict::new(p.cases.len() % 2 == 1);
    let script = PScript { evs: src.iter().cloned().collect(), strict };
    let bs = match cfg.bs {
        Some((a, b)) => BufferSettings::new(a, b),
        None => BufferSettings::default(),
    };
    let enc = ProstCodec::<PMsg, PMsg>::raw_encoder(bs);
    let comp = cfg.comp.map(|e| e.tonic());
    let mut dr = if server {
        if cfg.override_disable {
            let mut r = tonic::Response::new(());
            r.disable_compression();
            let ov = *r.extensions().get().expect("override extension");
            drain(EncodeBody::new_server(enc, script, comp, ov, cfg.max), budget)
        } else {
            drain(EncodeBody::new_server(enc, script, comp, Default::default(), cfg.max), budget)
        }
    } else {
        drain(EncodeBody::new_client(enc, script, comp, cfg.max), budget)
    };
    dr.after_end = polled_after_end.load(Ordering::SeqCst);
    // what the property demands, with prost called directly (not through tonic)
    let limit = cfg.max.unwrap_or(usize::MAX);
    let mut want_msgs: Vec<PMsg> = vec![];
    let mut code = 0u32;
    for e in src {
        match e {
            PEv::Pending => {}
            PEv::Err(s) => {
                code = s.code;
                break;
            }
            PEv::Ok(m) => {
                let raw = prost::Message::encode_to_vec(m);
                let wire = match cfg.eff() {
                    Some(e) => e.compress(&raw).len(),
                    None => raw.len(),
                };
                if wire > limit {
                    code = 11;
                    break;
                }
                want_msgs.push(m.clone());
            }
        }
    }
    let want = Expect { messages: want_msgs.iter().map(|m| prost::Message::encode_to_vec(m)).collect(), code };
    let wire = data_of(&dr.obs);
    // the compress table of the model: as in compress_table, over prost's own serialization
    let raw_src: Vec<SEv> = src
        .iter()
        .filter_map(|e| if let PEv::Ok(m) = e { Some(SEv::Ok(prost::Message::encode_to_vec(m))) } else { None })
        .collect();
    let tbl = compress_table_raw(cfg, &raw_src, &wire);
    let model = format!(
        "obs_encode_prost {} {} {} {} {}",
        coq_pairs(&tbl),
        cfg.coq(),
        if server { "Server" } else { "Client" },
        coq_list(src, pev_coq),
        EXTRA_POLLS
    );
    let oracle = judge_frames(server, &dr.obs, dr.ended, &want).or_else(|| judge_end_stream(server, &dr)).or_else(|| judge_source(&dr));
    out.hist("prost.role", if server { "server" } else { "client" });
    out.hist("prost.encoding", cfg.comp.map(|e| e.name()).unwrap_or("identity"));
    out.hist("prost.outcome", match code { 0 => "ok".to_string(), 11 => "oversize".into(), c => format!("source-error/{}", c) });
    out.hist("prost.delivered_messages", bucket(want_msgs.len()));
    p.cases.push(PCase {
        kind: kind.to_string(),
        input: json!({"server": server, "cfg": cfg.json(), "src": src.iter().map(pev_json).collect::<Vec<_>>()}),
        model,
        obs: dr.tr(),
        oracle,
        nontrivial: want_msgs.len() >= 2 || (!want_msgs.is_empty() && code != 0),
        // no byte-for-byte expectation: the Python side decodes the protobuf fields
        wire: Some((wire, cfg.comp, vec![], Some(cfg.eff().is_some() as u8))),
        proto: Some(want_msgs.iter().map(pmsg_json).collect()),
    });
}
pub fn replay_prost(p: &mut Pend, out: &mut Out, kind: &str, inp: &Value) {
    let cfg = Cfg::from_json(&inp["cfg"]);
    let src: Vec<PEv> = inp["src"].as_array().unwrap().iter().map(pev_from_json).collect();
    case_prost(p, out, kind, inp["server"].as_bool().unwrap(), &cfg, &src);
}
/// compress_table without the 0xFE convention of the raw codec
fn compress_table_raw(cfg: &Cfg, src: &[SEv], wire: &[u8]) -> Vec<(Vec<u8>, Vec<u8>)> {
    let mut t: Vec<(Vec<u8>, Vec<u8>)> = vec![];
    let Some(e) = cfg.eff() else { return t };
    for (flag, payload) in split_frames(wire) {
        if flag == 1 {
            if let Some(u) = e.decompress(&payload) {
                if !t.iter().any(|(k, _)| *k == u) {
                    t.push((u, payload));
                }
            }
        }
    }
    for ev in src {
        if let SEv::Ok(m) = ev {
            if !t.iter().any(|(k, _)| k == m) {
                t.push((m.clone(), e.compress(m)));
            }
        }
    }
    t
}

// ------------------------------------------------------------------ kind: channel.raw
static PANICS: Mutex<Vec<String>> = Mutex::new(Vec::new());
/// run `f` with a panic hook that records every panic message of every thread / task
fn recording_panics<T>(f: impl FnOnce() -> T) -> (T, Vec<String>) {
    PANICS.lock().unwrap().clear();
    let prev = std::panic::take_hook();
    std::panic::set_hook(Box::new(|info| {
        let m = if let Some(s) = info.payload().downcast_ref::<&str>() {
            s.to_string()
        } else if let Some(s) = info.payload().downcast_ref::<String>() {
            s.clone()
        } else {
            "panic".to_string()
        };
        if let Ok(mut g) = PANICS.lock() {
            g.push(m);
        }
    }));
    let r = f();
    std::panic::set_hook(prev);
    let seen = PANICS.lock().unwrap().clone();
    (r, seen)
}
#[derive(Clone, Debug)]
pub struct RawCase {
    pub endpoint: String,
    pub origin_override: Option<String>,
    pub custom_ua: Option<String>,
    /// the request Uri as a string ("/a/b", "http://other/x", "other:1", ...)
    pub uri: String,
    pub method: String,
    pub headers: Vec<(String, Vec<u8>)>,
}
/// A hand-built http::Request handed to the Channel's tower Service (not through client::Grpc):
/// AddOrigin puts the endpoint's scheme and authority on whatever request Uri it is given; a
/// request Uri without path-and-query (authority form) makes its Uri::from_parts(..).expect fire.
/// The Channel runs its stack on a Buffer worker task: the panic kills that task, the caller sees
/// an error, and the panic message is seen by the hook.
pub fn case_channel_raw(p: &mut Pend, out: &mut Out, kind: &str, rc: &RawCase) {
    let ep_uri: http::Uri = rc.endpoint.parse().unwrap();
    let ov: Option<http::Uri> = rc.origin_override.as_ref().map(|s| s.parse().unwrap());
    let layer_origin = ov.clone().unwrap_or(ep_uri.clone());
    let req_uri: http::Uri = match rc.uri.parse() {
        Ok(u) => u,
        Err(_) => return,
    };
    let mut hdrs = HeaderMap::new();
    for (k, v) in &rc.headers {
        hdrs.append(http::HeaderName::from_bytes(k.as_bytes()).unwrap(), HeaderValue::from_bytes(v).unwrap());
    }
    let rcc = rc.clone();
    let (req_uri2, hdrs2) = (req_uri.clone(), hdrs.clone());
    let rt = tokio::runtime::Builder::new_current_thread().enable_time().build().unwrap();
    let (res, panics) = recording_panics(move || {
        std::panic::catch_unwind(std::panic::AssertUnwindSafe(move || {
            rt.block_on(async move {
                let (c, s) = tokio::io::duplex(1 << 16);
                let peer = tokio::spawn(h2_peer(s));
                let mut ep = tonic::transport::Endpoint::from_shared(rcc.endpoint.clone()).map_err(|e| format!("endpoint: {}", e))?;
                if let Some(ua) = &rcc.custom_ua {
                    ep = ep.user_agent(ua.clone()).map_err(|e| format!("user agent: {}", e))?;
                }
                if let Some(o) = &rcc.origin_override {
                    ep = ep.origin(o.parse().unwrap());
                }
                let mut ch = ep.connect_with_connector_lazy(DuplexConnector(Arc::new(Mutex::new(Some(c)))));
                // a body without frames and without a size hint (a sized body makes hyper add content-length)
                let mut req = http::Request::new(tonic::body::Body::new(ScriptBody::<Status>::new(vec![]).0));
                *req.method_mut() = http::Method::from_bytes(rcc.method.as_bytes()).unwrap();
                *req.version_mut() = http::Version::HTTP_2;
                *req.uri_mut() = req_uri2;
                *req.headers_mut() = hdrs2;
                let call = async {
                    std::future::poll_fn(|cx| tower_service::Service::poll_ready(&mut ch, cx)).await.map_err(|e| format!("not ready: {}", e))?;
                    tower_service::Service::call(&mut ch, req).await.map_err(|e| format!("call: {:?}", e))?;
                    Ok::<(), String>(())
                };
                match tokio::time::timeout(std::time::Duration::from_secs(20), call).await {
                    Err(_) => return Err("the call hangs".to_string()),
                    Ok(Err(e)) => return Err(e),
                    Ok(Ok(())) => {}
                }
                match tokio::time::timeout(std::time::Duration::from_secs(20), peer).await {
                    Err(_) => Err("the peer saw no complete request".to_string()),
                    Ok(Err(e)) => Err(format!("peer task: {}", e)),
                    Ok(Ok(r)) => r,
                }
            })
        }))
    });
    let tonic_ua = format!("tonic/{}", tonic_version());
    let rp = req_uri.clone().into_parts();
    let model = format!(
        "obs_channel_raw {} {} {} (mkReq {} 20 {} {})",
        uri_parts_coq(&layer_origin),
        coq_opt(&rc.custom_ua, |u| coq_bytes(u.as_bytes())),
        coq_bytes(tonic_ua.as_bytes()),
        coq_bytes(rc.method.as_bytes()),
        uri_parts_coq(&req_uri),
        coq_hm(&hdrs)
    );
    let lp = layer_origin.clone().into_parts();
    let refused = lp.scheme.is_none() || lp.authority.is_none();
    let expect_panic = panics.iter().any(|m| m.contains("valid uri"));
    let (obs, oracle) = match res {
        Err(_) => (Tr::L(vec![Tr::L(vec![Tr::n(94u8)])]), None),
        Ok(Err(e)) => {
            if expect_panic {
                // AddOrigin's expect fired on the worker task. Outside the property (not a request
                // tonic builds); what the oracle insists on: only for a request Uri without a path
                let why = if rp.path_and_query.is_some() { Some(format!("AddOrigin panicked for a request target with a path: {:?}", panics)) } else { None };
                (Tr::L(vec![Tr::L(vec![Tr::n(94u8)])]), why)
            } else {
                (Tr::L(vec![Tr::L(vec![Tr::n(96u8)])]), if refused { None } else { Some(format!("request through the channel failed: {} (panics: {:?})", e, panics)) })
            }
        }
        Ok(Ok(seen)) => {
            let mut why = None;
            if seen.parts.uri.scheme() != layer_origin.scheme() || seen.parts.uri.authority() != layer_origin.authority() {
                why = Some(format!("scheme/authority {:?} on the wire, endpoint origin {:?}", seen.parts.uri, layer_origin));
            }
            let pq = seen.parts.uri.path_and_query().map(|p| p.as_str().to_string());
            let want_pq = rp.path_and_query.as_ref().map(|p| p.as_str().to_string());
            if why.is_none() && pq != want_pq {
                why = Some(format!("request target {:?} on the wire, {:?} given to the channel", pq, want_pq));
            }
            let uas: Vec<_> = seen.parts.headers.get_all("user-agent").iter().collect();
            let want_ua = match &rc.custom_ua {
                Some(c) => format!("{} {}", c, tonic_ua),
                None => tonic_ua.clone(),
            };
            if why.is_none() && (uas.len() != 1 || uas[0].as_bytes() != want_ua.as_bytes()) {
                why = Some(format!("user-agent on the wire {:?}, expected {:?}", uas, want_ua));
            }
            for (k, _) in &rc.headers {
                if k != "user-agent" && why.is_none() {
                    let a: Vec<_> = seen.parts.headers.get_all(k.as_str()).iter().map(|v| v.as_bytes().to_vec()).collect();
                    let b: Vec<_> = hdrs.get_all(k.as_str()).iter().map(|v| v.as_bytes().to_vec()).collect();
                    if a != b {
                        why = Some(format!("header {} changed by the channel layers", k));
                    }
                }
            }
            let head = Tr::L(vec![
                Tr::n(1u8),
                Tr::s(seen.parts.method.as_str()),
                Tr::n(version_n(seen.parts.version)),
                uri_tr(&seen.parts.uri),
                hm_tr(&seen.parts.headers),
            ]);
            (Tr::L(vec![head]), why)
        }
    };
    out.hist("channel_raw.request_uri", rc.uri.clone());
    p.cases.push(PCase {
        kind: kind.to_string(),
        input: json!({"endpoint": rc.endpoint, "origin_override": rc.origin_override, "custom_ua": rc.custom_ua,
                      "uri": rc.uri, "method": rc.method,
                      "headers": rc.headers.iter().map(|(k, v)| json!([k, hex(v)])).collect::<Vec<_>>()}),
        model,
        obs,
        oracle,
        nontrivial: true,
        wire: None,
        proto: None,
    });
}
pub fn raw_from_json(inp: &Value) -> RawCase {
    RawCase {
        endpoint: inp["endpoint"].as_str().unwrap().to_string(),
        origin_override: inp["origin_override"].as_str().map(|s| s.to_string()),
        custom_ua: inp["custom_ua"].as_str().map(|s| s.to_string()),
        uri: inp["uri"].as_str().unwrap().to_string(),
        method: inp["method"].as_str().unwrap().to_string(),
        headers: inp["headers"].as_array().unwrap().iter().map(|e| (e[0].as_str().unwrap().to_string(), unhex(e[1].as_str().unwrap()))).collect(),
    }
}
pub const RAW_URIS: &[&str] = &["/pkg.Svc/Method", "/", "/a/b?c=d", "http://other.example/x/y?z=1", "https://other.example:7/pkg.Svc/Method", "other.example:1", "localhost"];
pub fn gen_raw(r: &mut Rng) -> RawCase {
    let mut headers = vec![("content-type".to_string(), b"application/grpc".to_vec()), ("te".to_string(), b"trailers".to_vec())];
    if r.chance(1, 2) {
        headers.push(("user-agent".to_string(), b"mine".to_vec()));
    }
    if r.chance(1, 2) {
        headers.push(("x-a".to_string(), b"1".to_vec()));
        headers.push(("x-a".to_string(), b"2".to_vec()));
    }
    RawCase {
        endpoint: r.pick(ENDPOINTS).to_string(),
        origin_override: if r.chance(1, 4) { Some("http://override.example:99".to_string()) } else { None },
        custom_ua: if r.chance(1, 2) { Some(r.pick(&["Greeter 1.1", "x"]).to_string()) } else { None },
        uri: r.pick(RAW_URIS).to_string(),
        method: r.pick(&["POST", "POST", "PUT"]).to_string(),
        headers,
    }
}

// ------------------------------------------------------------------ kind: lib.pq_parse
/// http's `str::parse::<PathAndQuery>()` against Model/EncoderExt.v pq_parse (library behaviour the
/// model of prepare_request rests on); the oracle is a hand-written re-statement of RFC 3986-ish
/// rules http documents: it only insists on the cases the property needs (a valid gRPC target
/// parses to itself)
pub fn case_pq_parse(p: &mut Pend, out: &mut Out, kind: &str, s: &[u8]) {
    let parsed = http::uri::PathAndQuery::try_from(s).ok().map(|q| q.as_str().as_bytes().to_vec());
    let plain = !s.is_empty() && s[0] == b'/' && s.len() <= 65534 && s.iter().all(|b| b.is_ascii_alphanumeric() || b"/._-".contains(b));
    let oracle = if plain && parsed.as_deref() != Some(s) { Some("a plain /package.Service/Method style target does not parse to itself".to_string()) } else { None };
    out.hist("pq_parse.result", if parsed.is_some() { "ok" } else { "err" });
    p.cases.push(PCase {
        kind: kind.to_string(),
        input: json!({"s": msg_json(s)}),
        model: format!("obs_pq_parse {}", coq_bytes_seg(s)),
        obs: Tr::opt(parsed.map(|d| bs_tr(&d))),
        oracle,
        nontrivial: s.len() > 1,
        wire: None,
        proto: None,
    });
}
pub fn gen_pq_string(r: &mut Rng) -> Vec<u8> {
    const POOL: &[&str] = &["", "/", "*", "**", "?", "#", "/a", "/pkg.Svc/Method", "/S/M?x=1", "/a?b?c", "/a#frag", "/a?b#c", "#f", "?q", "a/b", "/a b", "/a\"{}", "/a?\"", "/é", "/a?é", "/%41", "/a|~", "/a`", "/a?`", "/a^", "/a?^", "/a<", "/[::1]", "//double", "/a\\b", "/\u{7f}"];
    match r.below(16) {
        0..=7 => r.pick(POOL).as_bytes().to_vec(),
        8..=14 => {
            // a valid start and random printable or not-so-printable bytes
            let mut v = vec![*r.pick(&[b'/', b'/', b'/', b'?', b'#', b'*', b'a'])];
            for _ in 0..r.below(6) {
                v.push(*r.pick(&[b'a', b'/', b'?', b'#', b' ', b'"', b'{', b'|', b'<', b'>', b'`', b'^', b'\\', 0x7f, 0x80, 0xc3, 0xa9, 0xff, b'%', b'=', b'&', 0x1f, b'~', b'@', b'[']));
            }
            v
        }
        _ => {
            let mut v = b"/".to_vec();
            v.extend(std::iter::repeat(b'a').take(*r.pick(&[65532usize, 65533, 65534, 65535, 70000])));
            v
        }
    }
}

// ------------------------------------------------------------------ kind: trailers_capacity
/// A server stream ends with Err(status) whose metadata is very large: either `n` VALUES of one
/// name (F-C04d, fixed in 08dc8d0b: the capacity hint 3 + n panicked from 24574 values
/// on; a header map needs ONE entry for them) or `n` DISTINCT names (a header map holds at most
/// 24576 names: with grpc-status and grpc-message there is room for 24574).
pub fn case_trailers_capacity(p: &mut Pend, out: &mut Out, kind: &str, n: usize, distinct: bool, via_error_item: bool) {
    let mut md = MetadataMap::new();
    for i in 0..n {
        if distinct {
            let k = format!("k{}", i);
            md.append(MetadataKey::from_bytes(k.as_bytes()).unwrap(), MetadataValue::from_static("v"));
        } else {
            md.append("x-many", MetadataValue::from_static("v"));
        }
    }
    let names = md.keys_len();
    let st = Status::with_metadata(Code::Aborted, "many", md);
    let (strict, _) = Strict::new(false);
    let evs: Vec<SEv> = if via_error_item { vec![] } else { vec![SEv::Ok(vec![1, 2, 3])] };
    struct S2 {
        evs: VecDeque<SEv>,
        st: Option<Status>,
        strict: Strict,
    }
    impl tokio_stream::Stream for S2 {
        type Item = Result<Vec<u8>, Status>;
        fn poll_next(mut self: Pin<&mut Self>, _: &mut Context<'_>) -> Poll<Option<Self::Item>> {
            match self.evs.pop_front() {
                Some(SEv::Ok(m)) => Poll::Ready(Some(Ok(m))),
                Some(_) => unreachable!(),
                None => match self.st.take() {
                    Some(s) => Poll::Ready(Some(Err(s))),
                    None => Poll::Ready(self.strict.at_end().map(Ok)),
                },
            }
        }
    }
    let body = EncodeBody::new_server(RawEnc { bs: None }, S2 { evs: evs.iter().cloned().collect(), st: Some(st), strict }, None, Default::default(), None);
    let d = drain(body, 6);
    let panicked = d.obs.iter().any(|o| matches!(o, Obs::Panic(_)));
    let frames: Vec<&Obs> = d.obs.iter().filter(|o| !matches!(o, Obs::None | Obs::Pending)).collect();
    let trailers_ok = match frames.last() {
        Some(Obs::Trailers(t)) => {
            t.get_all("grpc-status").iter().count() == 1
                && t.get("grpc-status").map(|v| v.as_bytes()) == Some(b"10")
                && t.iter().filter(|(k, _)| !k.as_str().starts_with("grpc-")).count() == n
                && frames.iter().filter(|o| matches!(o, Obs::Trailers(_))).count() == 1
                && frames[..frames.len() - 1].iter().all(|o| matches!(o, Obs::Data(_)))
                && d.ended
        }
        _ => false,
    };
    let n_data = d.obs.iter().filter(|o| matches!(o, Obs::Data(_))).count();
    // many values: the whole model function on the real metadata (one name: counting is linear);
    // many names: the step function on the number of names (counting 24576 distinct names in Coq
    // is quadratic; [distinct_count] is tied by every other case)
    let model = if distinct {
        format!("Nd [obool (header_steps_panic {} (mkStatus 10 [109;97;110;121] [] [])); Nn {}]", names, evs.len())
    } else {
        format!(
            "Nd [obool (to_header_map_panics (mkStatus 10 [109;97;110;121] [] (nrepeat {} ([120;45;109;97;110;121],[118])))); Nn {}]",
            n,
            evs.len()
        )
    };
    // the finished trailers: the metadata names, grpc-status, grpc-message
    let representable = names + 2 <= 24576;
    let oracle = if !representable {
        // no http::HeaderMap can hold these trailers: not judged (explicit Panic outcome of the model)
        None
    } else if panicked {
        Some(format!("a server stream ending with a status of {} metadata values under {} names panics instead of producing the trailers block", n, names))
    } else if !trailers_ok {
        Some("no single, final trailers block with one grpc-status and every metadata value".to_string())
    } else {
        None
    };
    out.hist("trailers_capacity", format!("{} {}", n, if distinct { "names" } else { "values of one name" }));
    p.cases.push(PCase {
        kind: kind.to_string(),
        input: json!({"n": n, "distinct": distinct, "via_error_item": via_error_item}),
        model,
        obs: Tr::L(vec![Tr::bool(panicked), Tr::n(n_data as u64)]),
        oracle,
        nontrivial: true,
        wire: None,
        proto: None,
    });
}
