//! C19 correspondence harness: tonic-reflection.  Random descriptor sets are registered through
//! the real `Builder`, both `build_v1()` and `build_v1alpha()` are queried in-process through the
//! generated clients (and a raw-payload client for scripted streams), the answers are decoded
//! with prost and compared (a) directly against what was registered (oracle) and (b) inside Coq
//! against Model/Reflection.v (tie).
use prost::Message;
use prost_types::{
    DescriptorProto, EnumDescriptorProto, EnumValueDescriptorProto, FieldDescriptorProto,
    FileDescriptorProto, FileDescriptorSet, MethodDescriptorProto, OneofDescriptorProto,
    ServiceDescriptorProto,
};
use serde_json::json;
use std::collections::{BTreeMap, BTreeSet};
use std::marker::PhantomData;
use std::sync::atomic::{AtomicUsize, Ordering};
use tonic_reflection::server::Builder;
use vcommon::*;

static SEND_PANICS: AtomicUsize = AtomicUsize::new(0);
static OTHER_PANICS: AtomicUsize = AtomicUsize::new(0);

// ------------------------------------------------------------------ requests / answers
#[derive(Clone, Debug, PartialEq)]
enum Q {
    None,
    File(String),
    Sym(String),
    Ext(String, i32),
    AllExt(String),
    List(String),
}
#[derive(Clone, Debug)]
enum Sev {
    Req(Q),
    Bad,
    Drop,
}
#[derive(Clone, Debug, PartialEq)]
enum Ans {
    /// the stream ended with this gRPC status code
    Err(i32),
    Fd(Vec<Vec<u8>>),
    AllExt { base: String, numbers: Vec<i32> },
    List(Vec<String>),
    /// an in-message ErrorResponse (the reflection protocol's own way to say NOT_FOUND)
    InMsgErr(i32),
    /// response without message_response
    Broken(String),
}
/// the envelope of a response message, as received
#[derive(Clone, Debug, PartialEq)]
struct Echo {
    valid_host: String,
    /// original_request decoded back to (host, request); None if absent
    original: Option<(String, Q)>,
}
#[derive(Clone, Debug, PartialEq)]
struct StreamObs {
    answers: Vec<Ans>,
    /// parallel to `answers`: the envelope of every response MESSAGE (None for a status)
    echoes: Vec<Option<Echo>>,
    panicked: bool,
    hung: bool,
}
impl StreamObs {
    fn new() -> Self {
        StreamObs { answers: vec![], echoes: vec![], panicked: false, hung: false }
    }
    fn status(&mut self, code: i32) {
        self.answers.push(Ans::Err(code));
        self.echoes.push(None);
    }
    fn message(&mut self, m: (Ans, Echo)) {
        self.answers.push(m.0);
        self.echoes.push(Some(m.1));
    }
}
/// hosts of the requests: a fixed function of the position, so that a case is described by its
/// queries alone (query i of the single-request streams, event j of the scripted stream)
const HOSTS: &[&str] = &["h", "", "example.com:443", "h\u{e9}"];
fn qhost(i: usize) -> &'static str {
    HOSTS[i % HOSTS.len()]
}
fn shost(j: usize) -> &'static str {
    HOSTS[(j + 1) % HOSTS.len()]
}
#[derive(Clone, Debug, PartialEq)]
enum VerObs {
    BuildErr(String),
    Built { per_query: Vec<StreamObs>, script: StreamObs },
}

// raw-payload codec: requests are arbitrary bytes, responses are decoded with prost
struct RawCodec<R>(PhantomData<R>);
impl<R> Default for RawCodec<R> {
    fn default() -> Self {
        RawCodec(PhantomData)
    }
}
struct RawEnc;
struct ProstDec<R>(PhantomData<R>);
impl tonic::codec::Encoder for RawEnc {
    type Item = Vec<u8>;
    type Error = tonic::Status;
    fn encode(&mut self, item: Vec<u8>, dst: &mut tonic::codec::EncodeBuf<'_>) -> Result<(), tonic::Status> {
        use bytes::BufMut;
        dst.put_slice(&item);
        Ok(())
    }
}
impl<R: Message + Default> tonic::codec::Decoder for ProstDec<R> {
    type Item = R;
    type Error = tonic::Status;
    fn decode(&mut self, src: &mut tonic::codec::DecodeBuf<'_>) -> Result<Option<R>, tonic::Status> {
        R::decode(src).map(Some).map_err(|e| tonic::Status::internal(e.to_string()))
    }
}
impl<R: Message + Default + Send + 'static> tonic::codec::Codec for RawCodec<R> {
    type Encode = Vec<u8>;
    type Decode = R;
    type Encoder = RawEnc;
    type Decoder = ProstDec<R>;
    fn encoder(&mut self) -> RawEnc {
        RawEnc
    }
    fn decoder(&mut self) -> ProstDec<R> {
        ProstDec(PhantomData)
    }
}

async fn yield_many() {
    for _ in 0..40 {
        tokio::task::yield_now().await;
    }
}

macro_rules! version {
    ($modname:ident, $pbv:ident, $build:ident, $path:expr) => {
        mod $modname {
            use super::*;
            use tonic_reflection::pb::$pbv as pb;
            use pb::server_reflection_request::MessageRequest;
            use pb::server_reflection_response::MessageResponse;

            pub fn own_fds() -> FileDescriptorSet {
                FileDescriptorSet::decode(pb::FILE_DESCRIPTOR_SET).expect("own descriptor set decodes")
            }
            pub fn mk_req(q: &Q, host: &str) -> pb::ServerReflectionRequest {
                pb::ServerReflectionRequest {
                    host: host.into(),
                    message_request: match q {
                        Q::None => None,
                        Q::File(s) => Some(MessageRequest::FileByFilename(s.clone())),
                        Q::Sym(s) => Some(MessageRequest::FileContainingSymbol(s.clone())),
                        Q::Ext(t, n) => Some(MessageRequest::FileContainingExtension(pb::ExtensionRequest {
                            containing_type: t.clone(),
                            extension_number: *n,
                        })),
                        Q::AllExt(t) => Some(MessageRequest::AllExtensionNumbersOfType(t.clone())),
                        Q::List(c) => Some(MessageRequest::ListServices(c.clone())),
                    },
                }
            }
            fn q_of(r: &pb::ServerReflectionRequest) -> (String, Q) {
                let q = match &r.message_request {
                    None => Q::None,
                    Some(MessageRequest::FileByFilename(s)) => Q::File(s.clone()),
                    Some(MessageRequest::FileContainingSymbol(s)) => Q::Sym(s.clone()),
                    Some(MessageRequest::FileContainingExtension(e)) => Q::Ext(e.containing_type.clone(), e.extension_number),
                    Some(MessageRequest::AllExtensionNumbersOfType(t)) => Q::AllExt(t.clone()),
                    Some(MessageRequest::ListServices(c)) => Q::List(c.clone()),
                };
                (r.host.clone(), q)
            }
            fn ans_of(m: pb::ServerReflectionResponse) -> (Ans, Echo) {
                let echo = Echo { valid_host: m.valid_host.clone(), original: m.original_request.as_ref().map(q_of) };
                let a = match m.message_response {
                    None => Ans::Broken("no message_response".into()),
                    Some(MessageResponse::FileDescriptorResponse(r)) => Ans::Fd(r.file_descriptor_proto),
                    Some(MessageResponse::AllExtensionNumbersResponse(r)) => {
                        Ans::AllExt { base: r.base_type_name, numbers: r.extension_number }
                    }
                    Some(MessageResponse::ListServicesResponse(r)) => {
                        Ans::List(r.service.into_iter().map(|s| s.name).collect())
                    }
                    Some(MessageResponse::ErrorResponse(e)) => Ans::InMsgErr(e.error_code),
                };
                (a, echo)
            }

            pub async fn run(b: Builder<'_>, queries: &[Q], script: &[Sev]) -> VerObs {
                let svc = match b.$build() {
                    Err(e) => return VerObs::BuildErr(e.to_string()),
                    Ok(s) => s,
                };
                let limit = std::time::Duration::from_secs(20);
                // every query on a stream of its own, through the generated client
                let mut per_query = vec![];
                for (qi, q) in queries.iter().enumerate() {
                    let mut client = pb::server_reflection_client::ServerReflectionClient::new(svc.clone());
                    let req = mk_req(q, qhost(qi));
                    let mut so = StreamObs::new();
                    let p0 = SEND_PANICS.load(Ordering::SeqCst);
                    match client.server_reflection_info(tokio_stream::iter(vec![req.clone()])).await {
                        Err(st) => so.status(st.code() as i32),
                        Ok(r) => {
                            let mut s = r.into_inner();
                            loop {
                                match tokio::time::timeout(limit, s.message()).await {
                                    Err(_) => {
                                        so.hung = true;
                                        break;
                                    }
                                    Ok(Ok(Some(m))) => so.message(ans_of(m)),
                                    Ok(Ok(None)) => break,
                                    Ok(Err(st)) => {
                                        so.status(st.code() as i32);
                                        break;
                                    }
                                }
                            }
                        }
                    }
                    so.panicked = SEND_PANICS.load(Ordering::SeqCst) != p0;
                    per_query.push(so);
                }
                // one scripted stream through a raw-payload client
                let mut so = StreamObs::new();
                let p0 = SEND_PANICS.load(Ordering::SeqCst);
                {
                    let mut grpc = tonic::client::Grpc::new(svc.clone());
                    grpc.ready().await.expect("in-process service is ready");
                    let (tx, rx) = tokio::sync::mpsc::unbounded_channel::<Vec<u8>>();
                    let stream = tokio_stream::wrappers::UnboundedReceiverStream::new(rx);
                    let path = http::uri::PathAndQuery::from_static($path);
                    let resp = grpc
                        .streaming(tonic::Request::new(stream), path, RawCodec::<pb::ServerReflectionResponse>::default())
                        .await;
                    match resp {
                        Err(st) => so.status(st.code() as i32),
                        Ok(r) => {
                            let mut rs = Some(r.into_inner());
                            let mut ended = false;
                            for (j, ev) in script.iter().enumerate() {
                                match ev {
                                    Sev::Req(_) | Sev::Bad => {
                                        let payload = match ev {
                                            Sev::Req(q) => mk_req(q, shost(j)).encode_to_vec(),
                                            _ => vec![0xff],
                                        };
                                        let _ = tx.send(payload);
                                        match rs.as_mut() {
                                            Some(s) if !ended => {
                                                match tokio::time::timeout(limit, s.message()).await {
                                                    Err(_) => {
                                                        so.hung = true;
                                                        ended = true;
                                                    }
                                                    Ok(Ok(Some(m))) => so.message(ans_of(m)),
                                                    Ok(Ok(None)) => ended = true,
                                                    Ok(Err(st)) => {
                                                        so.status(st.code() as i32);
                                                        ended = true;
                                                    }
                                                }
                                            }
                                            _ => yield_many().await,
                                        }
                                    }
                                    Sev::Drop => {
                                        rs = None;
                                        yield_many().await;
                                    }
                                }
                            }
                            drop(tx);
                            if let Some(s) = rs.as_mut() {
                                if !ended {
                                    match tokio::time::timeout(limit, s.message()).await {
                                        Err(_) => so.hung = true,
                                        Ok(Ok(None)) => {}
                                        Ok(Ok(Some(m))) => {
                                            let (_, e) = ans_of(m);
                                            so.message((Ans::Broken("message after the last request".into()), e))
                                        }
                                        Ok(Err(st)) => so.status(st.code() as i32),
                                    }
                                }
                            }
                            yield_many().await;
                        }
                    }
                }
                // everything of this service is dropped now: let its detached tasks finish, so that a
                // late panic is counted here and not in the next case
                drop(svc);
                yield_many().await;
                so.panicked = SEND_PANICS.load(Ordering::SeqCst) != p0;
                VerObs::Built { per_query, script: so }
            }
        }
    };
}
version!(ver1, v1, build_v1, "/grpc.reflection.v1.ServerReflection/ServerReflectionInfo");
version!(ver1alpha, v1alpha, build_v1alpha, "/grpc.reflection.v1alpha.ServerReflection/ServerReflectionInfo");

// ------------------------------------------------------------------ projection to the Coq AST
fn coq_name(s: &str) -> String {
    if s.bytes().all(|b| (0x20..=0x7e).contains(&b) && b != b'"') {
        format!("(s2b \"{}\")", s)
    } else {
        coq_bytes(s.as_bytes())
    }
}
fn coq_oname(o: &Option<String>) -> String {
    coq_opt(o, |s| coq_name(s))
}
fn coq_enum(e: &EnumDescriptorProto) -> String {
    format!("(Enum {} {})", coq_oname(&e.name), coq_list(&e.value, |v| coq_oname(&v.name)))
}
fn coq_msg(m: &DescriptorProto) -> String {
    format!(
        "(Msg {} {} {} {} {})",
        coq_oname(&m.name),
        coq_list(&m.nested_type, coq_msg),
        coq_list(&m.enum_type, coq_enum),
        coq_list(&m.field, |f| coq_oname(&f.name)),
        coq_list(&m.oneof_decl, |o| coq_oname(&o.name))
    )
}
fn coq_service(s: &ServiceDescriptorProto) -> String {
    format!("(Service {} {})", coq_oname(&s.name), coq_list(&s.method, |m| coq_oname(&m.name)))
}
/// The content of a descriptor: a 64-bit FNV-1a digest of its full prost encoding (every field).
/// The model carries it as the file's [f_rest]; a returned descriptor is digested the same way.
/// (64 rather than 128 bits: Coq's parsing cost of the case files grows with the literal size; the
/// oracle compares the full descriptors anyway.)
fn rest_of(fd: &FileDescriptorProto) -> u64 {
    let mut h: u64 = 0xcbf29ce484222325;
    for b in fd.encode_to_vec() {
        h ^= b as u64;
        h = h.wrapping_mul(0x100000001b3);
    }
    h
}
fn coq_file(fd: &FileDescriptorProto) -> String {
    format!(
        "(mkFile {} {} {} {} {} {})",
        coq_oname(&fd.name),
        coq_oname(&fd.package),
        coq_list(&fd.message_type, coq_msg),
        coq_list(&fd.enum_type, coq_enum),
        coq_list(&fd.service, coq_service),
        rest_of(fd)
    )
}
fn coq_fds(s: &FileDescriptorSet) -> String {
    coq_list(&s.file, coq_file)
}
fn coq_q(q: &Q) -> String {
    match q {
        Q::None => "NoMessageRequest".into(),
        Q::File(s) => format!("(FileByFilename {})", coq_name(s)),
        Q::Sym(s) => format!("(FileContainingSymbol {})", coq_name(s)),
        Q::Ext(t, n) => format!("(FileContainingExtension {} ({})%Z)", coq_name(t), n),
        Q::AllExt(t) => format!("(AllExtensionNumbersOfType {})", coq_name(t)),
        Q::List(c) => format!("(ListServices {})", coq_name(c)),
    }
}
fn coq_sev(j: usize, e: &Sev) -> String {
    match e {
        Sev::Req(q) => format!("(Req {} {})", coq_name(shost(j)), coq_q(q)),
        Sev::Bad => "ReqErr".into(),
        Sev::Drop => "RxDrop".into(),
    }
}
fn coq_indexed<T>(xs: &[T], f: impl Fn(usize, &T) -> String) -> String {
    let v: Vec<(usize, &T)> = xs.iter().enumerate().collect();
    coq_list(&v, |(i, x)| f(*i, x))
}

// ------------------------------------------------------------------ observables
fn fnv64(bytes: &[u8]) -> u64 {
    let mut h: u64 = 0xcbf29ce484222325;
    for b in bytes {
        h ^= *b as u64;
        h = h.wrapping_mul(0x100000001b3);
    }
    h
}
/// injective byte rendering of a request (strings are UTF-8, 0xff separates them); the model's
/// [request_bytes]
fn q_bytes(q: &Q) -> Vec<u8> {
    let mut v = vec![];
    match q {
        Q::None => v.push(0),
        Q::File(s) => {
            v.push(1);
            v.extend(s.as_bytes())
        }
        Q::Sym(s) => {
            v.push(2);
            v.extend(s.as_bytes())
        }
        Q::Ext(t, n) => {
            v.push(3);
            v.extend(t.as_bytes());
            v.push(255);
            v.extend((*n as u32).to_le_bytes())
        }
        Q::AllExt(t) => {
            v.push(4);
            v.extend(t.as_bytes())
        }
        Q::List(c) => {
            v.push(5);
            v.extend(c.as_bytes())
        }
    }
    v
}
/// the envelope as received, digested (the model's [envelope_bytes] + [fnv])
fn echo_digest(e: &Echo) -> u64 {
    let mut v = e.valid_host.as_bytes().to_vec();
    v.push(255);
    match &e.original {
        None => v.push(0),
        Some((h, q)) => {
            v.push(1);
            v.extend(h.as_bytes());
            v.push(255);
            v.extend(q_bytes(q));
        }
    }
    fnv64(&v)
}
/// a response message: [body, digest of (valid_host, original_request)]; a status: [0, code]
fn answer_tr(a: &Ans, e: &Option<Echo>) -> Tr {
    match (a, e) {
        (Ans::Err(_), _) | (_, None) => ans_tr(a),
        (_, Some(e)) => Tr::L(vec![ans_tr(a), Tr::n(echo_digest(e))]),
    }
}
fn ans_tr(a: &Ans) -> Tr {
    match a {
        Ans::Err(c) => Tr::L(vec![Tr::n(0u8), Tr::n(*c as u32)]),
        Ans::InMsgErr(c) => Tr::L(vec![Tr::n(8u8), Tr::n(*c as u32)]),
        Ans::Fd(v) if v.len() == 1 => match FileDescriptorProto::decode(&v[0][..]) {
            Ok(fd) => Tr::L(vec![
                Tr::n(1u8),
                Tr::L(vec![Tr::opt(fd.name.as_ref().map(|n| Tr::s(n))), Tr::n(rest_of(&fd))]),
            ]),
            Err(_) => Tr::L(vec![Tr::n(9u8), Tr::n(1u8)]),
        },
        Ans::Fd(_) => Tr::L(vec![Tr::n(9u8), Tr::n(2u8)]),
        Ans::AllExt { base, numbers } => Tr::L(vec![
            Tr::n(2u8),
            Tr::s(base),
            Tr::L(numbers.iter().map(|n| Tr::n(*n as u32)).collect()),
        ]),
        Ans::List(l) => Tr::L(vec![Tr::n(3u8), Tr::L(l.iter().map(|s| Tr::s(s)).collect())]),
        Ans::Broken(_) => Tr::L(vec![Tr::n(9u8), Tr::n(4u8)]),
    }
}
fn stream_tr(s: &StreamObs) -> Tr {
    if s.hung {
        return Tr::L(vec![Tr::n(98u8)]);
    }
    Tr::L(vec![Tr::L(s.answers.iter().zip(&s.echoes).map(|(a, e)| answer_tr(a, e)).collect()), Tr::n(s.panicked as u8)])
}
fn err_tr(msg: &str) -> Tr {
    let kinds = [
        ("missing name", 0u8),
        ("missing message name", 1),
        ("missing enum name", 2),
        ("missing service name", 3),
        ("missing method name", 4),
        ("missing enum value name", 5),
        ("missing field name", 6),
        ("missing oneof name", 7),
    ];
    if msg == "error decoding FileDescriptorSet from buffer" {
        return Tr::L(vec![Tr::n(0u8)]);
    }
    if let Some(rest) = msg.strip_prefix("invalid FileDescriptorSet - ") {
        for (t, k) in kinds {
            if rest == t {
                return Tr::L(vec![Tr::n(1u8), Tr::n(k)]);
            }
        }
    }
    Tr::L(vec![Tr::n(99u8)])
}
fn ver_tr(v: &VerObs) -> Tr {
    match v {
        VerObs::BuildErr(m) => Tr::L(vec![Tr::n(0u8), err_tr(m)]),
        VerObs::Built { per_query, script } => Tr::L(vec![
            Tr::n(1u8),
            Tr::L(per_query.iter().map(stream_tr).collect()),
            stream_tr(script),
        ]),
    }
}

// ------------------------------------------------------------------ independent reading of a descriptor
fn join(prefix: &str, n: &str) -> String {
    if prefix.is_empty() {
        n.to_string()
    } else {
        let mut s = String::from(prefix);
        s.push('.');
        s.push_str(n);
        s
    }
}
/// One declared fully-qualified name.  Naming: a name is qualified by its enclosing scope with a
/// dot (no dot after an empty package).  For enum VALUES two schemes exist and the oracle accepts
/// either: `name` = scoped by the enum (`pkg.Enum.VALUE`, what tonic-reflection registers) and
/// `alt` = protobuf's own fully-qualified name, a sibling of the enum (`pkg.VALUE`).
#[derive(Clone, Debug)]
struct Decl {
    name: String,
    kind: &'static str,
    alt: Option<String>,
}
impl Decl {
    fn is(&self, s: &str) -> bool {
        self.name == s || self.alt.as_deref() == Some(s)
    }
}
/// every fully-qualified name the file declares (the eight kinds of the property), with its kind;
/// None if some name is missing
fn declared(fd: &FileDescriptorProto) -> Option<Vec<Decl>> {
    fn en(prefix: &str, e: &EnumDescriptorProto, out: &mut Vec<Decl>) -> Option<()> {
        let n = join(prefix, e.name.as_deref()?);
        for v in &e.value {
            let vn = v.name.as_deref()?;
            out.push(Decl { name: join(&n, vn), kind: "enum value", alt: Some(join(prefix, vn)) });
        }
        out.push(Decl { name: n, kind: "enum", alt: None });
        Some(())
    }
    fn ms(prefix: &str, depth: usize, m: &DescriptorProto, out: &mut Vec<Decl>) -> Option<()> {
        let n = join(prefix, m.name.as_deref()?);
        for o in &m.oneof_decl {
            out.push(Decl { name: join(&n, o.name.as_deref()?), kind: "oneof", alt: None });
        }
        for f in &m.field {
            out.push(Decl { name: join(&n, f.name.as_deref()?), kind: "field", alt: None });
        }
        for e in &m.enum_type {
            en(&n, e, out)?;
        }
        for x in &m.nested_type {
            ms(&n, depth + 1, x, out)?;
        }
        out.push(Decl { name: n, kind: if depth == 0 { "message" } else { "nested message" }, alt: None });
        Some(())
    }
    let mut out = vec![];
    let p = fd.package.clone().unwrap_or_default();
    for s in &fd.service {
        let n = join(&p, s.name.as_deref()?);
        for m in &s.method {
            out.push(Decl { name: join(&n, m.name.as_deref()?), kind: "method", alt: None });
        }
        out.push(Decl { name: n, kind: "service", alt: None });
    }
    for e in &fd.enum_type {
        en(&p, e, &mut out)?;
    }
    for m in &fd.message_type {
        ms(&p, 0, m, &mut out)?;
    }
    Some(out)
}
/// extension fields a file declares: (fully-qualified extension name, extendee, number).  The
/// property does not list extensions among the names that must resolve; they MAY resolve.
fn declared_extensions(fd: &FileDescriptorProto) -> Vec<(String, String, i32)> {
    fn ms(prefix: &str, m: &DescriptorProto, out: &mut Vec<(String, String, i32)>) {
        let n = join(prefix, m.name.as_deref().unwrap_or(""));
        for x in &m.extension {
            out.push((join(&n, x.name.as_deref().unwrap_or("")), x.extendee.clone().unwrap_or_default(), x.number.unwrap_or(0)));
        }
        for y in &m.nested_type {
            ms(&n, y, out);
        }
    }
    let mut out = vec![];
    let p = fd.package.clone().unwrap_or_default();
    for x in &fd.extension {
        out.push((join(&p, x.name.as_deref().unwrap_or("")), x.extendee.clone().unwrap_or_default(), x.number.unwrap_or(0)));
    }
    for m in &fd.message_type {
        ms(&p, m, &mut out);
    }
    out
}
fn same_type(a: &str, b: &str) -> bool {
    a.trim_start_matches('.') == b.trim_start_matches('.')
}
fn declared_services(fd: &FileDescriptorProto) -> Vec<String> {
    let p = fd.package.clone().unwrap_or_default();
    fd.service.iter().filter_map(|s| s.name.as_deref().map(|n| join(&p, n))).collect()
}
fn msg_depth(m: &DescriptorProto) -> usize {
    1 + m.nested_type.iter().map(msg_depth).max().unwrap_or(0)
}

// ------------------------------------------------------------------ case description
#[derive(Clone, Debug)]
enum Op {
    Set(FileDescriptorSet),
    Enc(Vec<u8>),
    Include(bool),
    Name(String),
}
struct CaseIn {
    ops: Vec<Op>,
    queries: Vec<Q>,
    script: Vec<Sev>,
}
fn make_builder(c: &CaseIn) -> Builder<'_> {
    let mut b = Builder::configure();
    for op in &c.ops {
        b = match op {
            Op::Set(s) => b.register_file_descriptor_set(s.clone()),
            Op::Enc(e) => b.register_encoded_file_descriptor_set(e),
            Op::Include(i) => b.include_reflection_service(*i),
            Op::Name(n) => b.with_service_name(n.clone()),
        };
    }
    b
}
fn coq_op(op: &Op) -> String {
    match op {
        Op::Set(s) => format!("RegisterSet {}", coq_fds(s)),
        Op::Enc(e) => match FileDescriptorSet::decode(&e[..]) {
            Ok(s) => format!("RegisterEncoded (Some {})", coq_fds(&s)),
            Err(_) => "RegisterEncoded None".into(),
        },
        Op::Include(i) => format!("IncludeReflection {}", coq_bool(*i)),
        Op::Name(n) => format!("WithServiceName {}", coq_name(n)),
    }
}

// ------------------------------------------------------------------ the direct oracle
struct Registered {
    /// user files in call order (decodable encoded sets decoded by the harness itself)
    files: Vec<FileDescriptorProto>,
    undecodable: bool,
    include: bool,
    chosen: Option<Vec<String>>,
    /// for files registered in encoded form: (prost's decode, the bytes of that file entry as
    /// registered), split out of the set by a wire-level reader that knows nothing of descriptors
    raw: Vec<(FileDescriptorProto, Vec<u8>)>,
}
/// the length-delimited field-1 entries of an encoded FileDescriptorSet; None if malformed
fn split_file_entries(mut b: &[u8]) -> Option<Vec<Vec<u8>>> {
    fn varint(b: &mut &[u8]) -> Option<u64> {
        let mut v = 0u64;
        for i in 0..10 {
            let x = *b.first()?;
            *b = &b[1..];
            v |= ((x & 0x7f) as u64) << (7 * i);
            if x < 0x80 {
                return Some(v);
            }
        }
        None
    }
    let mut out = vec![];
    while !b.is_empty() {
        let key = varint(&mut b)?;
        match key & 7 {
            0 => {
                varint(&mut b)?;
            }
            1 => b = b.get(8..)?,
            5 => b = b.get(4..)?,
            2 => {
                let n = varint(&mut b)? as usize;
                let body = b.get(..n)?;
                b = &b[n..];
                if key >> 3 == 1 {
                    out.push(body.to_vec());
                }
            }
            _ => return None,
        }
    }
    Some(out)
}
fn registered_of(c: &CaseIn) -> Registered {
    let mut r = Registered { files: vec![], undecodable: false, include: true, chosen: None, raw: vec![] };
    for op in &c.ops {
        match op {
            Op::Set(s) => r.files.extend(s.file.iter().cloned()),
            Op::Enc(e) => match FileDescriptorSet::decode(&e[..]) {
                Ok(s) => {
                    if let Some(entries) = split_file_entries(e) {
                        if entries.len() == s.file.len() {
                            r.raw.extend(s.file.iter().cloned().zip(entries));
                        }
                    }
                    r.files.extend(s.file)
                }
                Err(_) => r.undecodable = true,
            },
            Op::Include(i) => r.include = *i,
            Op::Name(n) => r.chosen.get_or_insert_with(Vec::new).push(n.clone()),
        }
    }
    r
}

#[derive(Default)]
struct Notes {
    shadowed_symbol_not_found: u64,
    shadowed_file_not_retrievable: u64,
    duplicate_symbol_across_files: u64,
    duplicate_service_in_list: u64,
    enum_value_scoped_found: u64,
    enum_value_scoped_not_found: u64,
    enum_value_sibling_found: u64,
    enum_value_sibling_not_found: u64,
    extension_name_found: u64,
    extension_name_not_found: u64,
    declared_extension_lookup_found: u64,
    declared_extension_lookup_not_found: u64,
    undeclared_extension_lookup_not_found: u64,
    all_extension_numbers_declared_but_empty: u64,
    all_extension_numbers_nonempty: u64,
    all_extension_numbers_unknown_type_ok_empty: u64,
    all_extension_numbers_unknown_type_not_found: u64,
    encoded_with_unknown_fields_returned_without_them: u64,
    returned_bytes_checked_against_registered_bytes: u64,
    file_name_asked_as_symbol_found: u64,
    file_name_asked_as_symbol_not_found: u64,
    symbol_asked_as_file_name_found: u64,
    symbol_asked_as_file_name_not_found: u64,
    in_message_error_responses: u64,
    envelopes_checked: u64,
    live_content_judged: u64,
    enum_value_other_name_resolved_to_a_clashing_declaration: u64,
}

// ---- wire-level comparison of a returned descriptor with the registered bytes (no prost)
fn rd_varint(b: &mut &[u8]) -> Option<u64> {
    let mut v = 0u64;
    for i in 0..10 {
        let x = *b.first()?;
        *b = &b[1..];
        v |= ((x & 0x7f) as u64) << (7 * i);
        if x < 0x80 {
            return Some(v);
        }
    }
    None
}
/// the top-level fields of a protobuf message: (number, wire type, payload)
fn wire_fields(mut b: &[u8]) -> Option<Vec<(u64, u8, Vec<u8>)>> {
    let mut out = vec![];
    while !b.is_empty() {
        let key = rd_varint(&mut b)?;
        let (num, wt) = (key >> 3, (key & 7) as u8);
        let payload = match wt {
            0 => {
                let mut p = vec![];
                put_varint(&mut p, rd_varint(&mut b)?);
                p
            }
            1 => {
                let p = b.get(..8)?.to_vec();
                b = &b[8..];
                p
            }
            5 => {
                let p = b.get(..4)?.to_vec();
                b = &b[4..];
                p
            }
            2 => {
                let n = rd_varint(&mut b)? as usize;
                let p = b.get(..n)?.to_vec();
                b = &b[n..];
                p
            }
            _ => return None,
        };
        out.push((num, wt, payload));
    }
    Some(out)
}
fn put_fields(fs: &[(u64, u8, Vec<u8>)]) -> Vec<u8> {
    let mut out = vec![];
    for (num, wt, p) in fs {
        put_key(&mut out, *num, *wt as u64);
        if *wt == 2 {
            put_varint(&mut out, p.len() as u64);
        }
        out.extend(p);
    }
    out
}
/// field numbers the harness injects and prost-types has no slot for
const UNKNOWN_FILE_FIELDS: &[u64] = &[1000, 1001];
const UNKNOWN_OPTION_FIELDS: &[u64] = &[50000];
/// A FileDescriptorProto entry up to the order of its top-level fields (and of the fields of its
/// options), minus exactly the injected unknown fields.  Relative order of equal numbers is kept.
fn canon_file_entry(b: &[u8]) -> Option<Vec<(u64, u8, Vec<u8>)>> {
    let mut fs = wire_fields(b)?;
    fs.retain(|f| !UNKNOWN_FILE_FIELDS.contains(&f.0));
    for f in fs.iter_mut() {
        if f.0 == 8 && f.1 == 2 {
            let mut o = wire_fields(&f.2)?;
            o.retain(|x| !UNKNOWN_OPTION_FIELDS.contains(&x.0));
            o.sort_by_key(|x| x.0);
            f.2 = put_fields(&o);
        }
    }
    fs.sort_by_key(|f| f.0);
    Some(fs)
}
/// Ok(true): compared and fine, Ok(false): this file was not registered in encoded form by the
/// harness (nothing to compare with), Err: the returned bytes are not the registered ones
fn returned_bytes_judgement(reg: &Registered, fd: &FileDescriptorProto, bytes: &[u8]) -> Result<bool, String> {
    let cands: Vec<&Vec<u8>> = reg.raw.iter().filter(|(f, _)| f == fd).map(|(_, raw)| raw).collect();
    if cands.is_empty() {
        return Ok(false);
    }
    let got = canon_file_entry(bytes);
    if got.is_some() && cands.iter().any(|raw| canon_file_entry(raw) == got) {
        Ok(true)
    } else {
        Err(format!(
            "the returned bytes of file {:?} are not the registered bytes minus the fields prost-types has no slot for (compared field by field at wire level, order of top-level fields ignored)",
            fd.name
        ))
    }
}
fn not_found(a: &Ans) -> bool {
    matches!(a, Ans::Err(5) | Ans::InMsgErr(5))
}

/// Direct check of the property on one version's answers.  `all` = user files plus (if included)
/// the version's own descriptor files.  Order-agnostic: where two different files were registered
/// under one file name the property does not say which one is "the" file; the one the service
/// itself returns for that file name is taken as the registered one and judged in full (all its
/// names must resolve, symbols must resolve to it and not to the other content).
fn oracle_version(
    label: &str,
    reg: &Registered,
    own: &FileDescriptorSet,
    queries: &[Q],
    obs: &VerObs,
    notes: &mut Notes,
) -> Option<String> {
    let mut all: Vec<FileDescriptorProto> = reg.files.clone();
    if reg.include {
        all.extend(own.file.iter().cloned());
    }
    let mut by_name: BTreeMap<String, Vec<usize>> = BTreeMap::new(); // distinct contents per file name
    let mut unnamed = false;
    for (i, f) in all.iter().enumerate() {
        match &f.name {
            None => unnamed = true,
            Some(n) => {
                let e = by_name.entry(n.clone()).or_default();
                if !e.iter().any(|j| all[*j] == *f) {
                    e.push(i);
                }
            }
        }
    }
    let certain = |f: &FileDescriptorProto| f.name.as_ref().map_or(false, |n| by_name[n].len() == 1);
    let decls: Vec<Option<Vec<Decl>>> = all.iter().map(declared).collect();
    let exts: Vec<Vec<(String, String, i32)>> = all.iter().map(declared_extensions).collect();
    let must_fail = reg.undecodable || unnamed || all.iter().zip(&decls).any(|(f, d)| certain(f) && d.is_none());
    let must_succeed = !reg.undecodable && !unnamed && decls.iter().all(|d| d.is_some());
    let (per_query, script) = match obs {
        VerObs::BuildErr(m) => {
            if must_succeed {
                return Some(format!("{label}: build failed ({m}) although every set decodes and every name is present"));
            }
            return None;
        }
        VerObs::Built { per_query, script } => {
            if must_fail {
                return Some(format!("{label}: build succeeded although a set is undecodable or a name is missing"));
            }
            (per_query, script)
        }
    };
    if script.hung || per_query.iter().any(|s| s.hung) {
        return Some(format!("{label}: a stream hung"));
    }
    // the content the service itself serves under each file name that was asked
    let mut live: BTreeMap<String, FileDescriptorProto> = BTreeMap::new();
    for (q, so) in queries.iter().zip(per_query) {
        if let (Q::File(n), Some(Ans::Fd(v))) = (q, so.answers.first()) {
            if v.len() == 1 {
                if let Ok(fd) = FileDescriptorProto::decode(&v[0][..]) {
                    live.insert(n.clone(), fd);
                }
            }
        }
    }
    // a registered file whose names must all resolve: its file name has one content only, or it is
    // the content the service serves under that file name
    let judged = |f: &FileDescriptorProto| {
        f.name.as_ref().map_or(false, |n| by_name[n].len() == 1 || live.get(n) == Some(f))
    };
    for (f, d) in all.iter().zip(&decls) {
        if judged(f) && !certain(f) {
            notes.live_content_judged += 1;
            if d.is_none() {
                return Some(format!("{label}: file {:?} is served although one of its names is missing", f.name));
            }
        }
    }
    let is_message_type = |t: &str| {
        decls.iter().flatten().any(|d| d.iter().any(|x| x.kind.ends_with("message") && same_type(&x.name, t)))
    };
    for (qi, (q, so)) in queries.iter().zip(per_query).enumerate() {
        if so.panicked {
            return Some(format!("{label}: server task panicked on {:?}", q));
        }
        if so.answers.len() != 1 {
            return Some(format!("{label}: {} answers to the single request {:?}", so.answers.len(), q));
        }
        let a = &so.answers[0];
        if let Ans::Broken(why) = a {
            return Some(format!("{label}: {:?}: {}", q, why));
        }
        if let Ans::InMsgErr(_) = a {
            notes.in_message_error_responses += 1;
        }
        // the envelope of a response message: the host and the request come back unchanged
        if !matches!(a, Ans::Err(_)) {
            let want = Echo { valid_host: qhost(qi).to_string(), original: Some((qhost(qi).to_string(), q.clone())) };
            if so.echoes[0].as_ref() != Some(&want) {
                return Some(format!("{label}: {:?} (host {:?}): response envelope is {:?}", q, qhost(qi), so.echoes[0]));
            }
            notes.envelopes_checked += 1;
        }
        match q {
            Q::Sym(s) => {
                // files that declare s under either naming scheme
                let declaring: Vec<usize> = (0..all.len())
                    .filter(|i| decls[*i].as_ref().map_or(false, |d| d.iter().any(|x| x.is(s))))
                    .collect();
                // ... as one of the eight kinds under a name that is not merely an enum value's other name
                let strict: Vec<usize> = (0..all.len())
                    .filter(|i| decls[*i].as_ref().map_or(false, |d| d.iter().any(|x| x.kind != "enum value" && x.name == *s)))
                    .collect();
                let ext_named: Vec<usize> = (0..all.len()).filter(|i| exts[*i].iter().any(|x| x.0 == *s)).collect();
                // is s one of the two names of an enum value (and nothing else)?
                let value_role = |sel: &dyn Fn(&Decl) -> bool| {
                    strict.is_empty()
                        && decls.iter().flatten().any(|d| d.iter().any(|x| x.kind == "enum value" && sel(x)))
                };
                let as_scoped = value_role(&|x: &Decl| x.name == *s);
                let as_sibling = value_role(&|x: &Decl| x.alt.as_deref() == Some(s.as_str()) && x.name != *s);
                let found = matches!(a, Ans::Fd(_));
                if as_scoped && !as_sibling {
                    if found { notes.enum_value_scoped_found += 1 } else { notes.enum_value_scoped_not_found += 1 }
                }
                if as_sibling && !as_scoped {
                    if found { notes.enum_value_sibling_found += 1 } else { notes.enum_value_sibling_not_found += 1 }
                }
                if declaring.is_empty() && !ext_named.is_empty() {
                    if found { notes.extension_name_found += 1 } else { notes.extension_name_not_found += 1 }
                }
                if by_name.contains_key(s) && declaring.is_empty() {
                    // a registered FILE NAME asked as a symbol (and nothing declares that name)
                    if found { notes.file_name_asked_as_symbol_found += 1 } else { notes.file_name_asked_as_symbol_not_found += 1 }
                }
                match a {
                    Ans::Fd(v) if v.len() == 1 => {
                        let Ok(fd) = FileDescriptorProto::decode(&v[0][..]) else {
                            return Some(format!("{label}: descriptor returned for symbol '{s}' does not decode"));
                        };
                        if !all.iter().any(|f| *f == fd) {
                            return Some(format!("{label}: symbol '{s}' resolved to a descriptor that is not equal (all fields) to any registered one"));
                        }
                        let declares_it = declared(&fd).map_or(false, |d| d.iter().any(|x| x.is(s)))
                            || declared_extensions(&fd).iter().any(|x| x.0 == *s);
                        if !declares_it {
                            return Some(format!(
                                "{label}: symbol '{s}' resolved to file {:?} which does not declare it",
                                fd.name
                            ));
                        }
                        // the file a name resolves to is the one retrievable under its own file name
                        if let Some(l) = fd.name.as_ref().and_then(|n| live.get(n)) {
                            if *l != fd {
                                return Some(format!(
                                    "{label}: symbol '{s}' resolved to a file named {:?} whose content is not the one served under that file name",
                                    fd.name
                                ));
                            }
                        }
                        match returned_bytes_judgement(reg, &fd, &v[0]) {
                            Err(e) => return Some(format!("{label}: symbol '{s}': {e}")),
                            Ok(true) => notes.returned_bytes_checked_against_registered_bytes += 1,
                            Ok(false) => {}
                        }
                        let distinct: BTreeSet<usize> =
                            declaring.iter().map(|i| all.iter().position(|f| *f == all[*i]).unwrap()).collect();
                        if distinct.len() > 1 {
                            notes.duplicate_symbol_across_files += 1;
                        }
                    }
                    a if not_found(a) => {
                        if let Some(i) = strict.iter().find(|i| judged(&all[**i])) {
                            return Some(format!(
                                "{label}: declared symbol '{s}' of registered file {:?} is NOT_FOUND",
                                all[*i].name
                            ));
                        }
                        // an enum value must resolve under at least one of its two names.  (What
                        // resolves under the other name is checked where that name is asked: a
                        // registered file declaring the NAME.  If another declaration has the same
                        // name - say a message p.A next to the value p.E.A - that file need not
                        // declare this very value; a stricter reading would have to fix one naming
                        // scheme, so such cases are only counted.)
                        for (i, d) in decls.iter().enumerate() {
                            let Some(d) = d else { continue };
                            if !judged(&all[i]) {
                                continue;
                            }
                            for x in d.iter().filter(|x| x.kind == "enum value" && x.is(s)) {
                                let other = if x.name == *s { x.alt.clone().unwrap() } else { x.name.clone() };
                                // the other name's own answer (if it was not asked, this value cannot be judged here)
                                let other_answer = queries
                                    .iter()
                                    .zip(per_query)
                                    .find(|(q2, _)| **q2 == Q::Sym(other.clone()))
                                    .map(|(_, so2)| match so2.answers.first() {
                                        Some(Ans::Fd(v2)) if v2.len() == 1 => {
                                            let same_value = FileDescriptorProto::decode(&v2[0][..]).map_or(false, |fd2| {
                                                declared(&fd2).map_or(false, |d2| d2.iter().any(|y| y.kind == "enum value" && y.name == x.name))
                                            });
                                            if !same_value {
                                                notes.enum_value_other_name_resolved_to_a_clashing_declaration += 1;
                                            }
                                            true
                                        }
                                        _ => false,
                                    });
                                if other == *s || other_answer == Some(false) {
                                    return Some(format!(
                                        "{label}: enum value '{}' of registered file {:?} resolves neither as '{}' nor as '{}'",
                                        x.name, all[i].name, x.name, x.alt.clone().unwrap()
                                    ));
                                }
                            }
                        }
                        if !strict.is_empty() {
                            notes.shadowed_symbol_not_found += 1;
                        }
                    }
                    other => return Some(format!("{label}: symbol '{s}' answered {:?}", other)),
                }
            }
            Q::File(n) => {
                if !by_name.contains_key(n) && decls.iter().flatten().any(|d| d.iter().any(|x| x.is(n))) {
                    // a declared SYMBOL asked as a file name (and no file has that name)
                    if matches!(a, Ans::Fd(_)) { notes.symbol_asked_as_file_name_found += 1 } else { notes.symbol_asked_as_file_name_not_found += 1 }
                }
                match (a, by_name.get(n)) {
                    (Ans::Fd(v), Some(cands)) if v.len() == 1 => {
                        let Ok(fd) = FileDescriptorProto::decode(&v[0][..]) else {
                            return Some(format!("{label}: descriptor returned for file '{n}' does not decode"));
                        };
                        if !cands.iter().any(|i| all[*i] == fd) {
                            return Some(format!("{label}: file '{n}' does not decode to what was registered"));
                        }
                        if cands.len() > 1 {
                            notes.shadowed_file_not_retrievable += 1;
                        }
                        match returned_bytes_judgement(reg, &fd, &v[0]) {
                            Err(e) => return Some(format!("{label}: file '{n}': {e}")),
                            Ok(true) => notes.returned_bytes_checked_against_registered_bytes += 1,
                            Ok(false) => {}
                        }
                        // registered in encoded form with fields prost does not know: what comes back is
                        // prost's reading of it, not the registered bytes
                        if reg.raw.iter().any(|(f, raw)| *f == fd && *raw != v[0]) && !reg.raw.iter().any(|(f, raw)| *f == fd && *raw == v[0]) {
                            notes.encoded_with_unknown_fields_returned_without_them += 1;
                        }
                    }
                    (a, None) if not_found(a) => {}
                    (other, Some(_)) => return Some(format!("{label}: registered file '{n}' answered {:?}", other)),
                    (other, None) => return Some(format!("{label}: unknown file '{n}' answered {:?}", other)),
                }
            }
            Q::List(_) => {
                let Ans::List(l) = a else {
                    return Some(format!("{label}: ListServices answered {:?}", a));
                };
                match &reg.chosen {
                    Some(ch) => {
                        if l != ch {
                            return Some(format!("{label}: service list {:?} is not the chosen names {:?}", l, ch));
                        }
                    }
                    None => {
                        // per service name: how often the distinct registered contents declare it
                        let mut lower: BTreeMap<String, usize> = BTreeMap::new();
                        let mut upper: BTreeMap<String, usize> = BTreeMap::new();
                        for (i, f) in all.iter().enumerate() {
                            if all.iter().position(|g| g == f) != Some(i) {
                                continue; // the same content registered again declares nothing new
                            }
                            for s in declared_services(f) {
                                if judged(f) {
                                    *lower.entry(s.clone()).or_default() += 1;
                                }
                                *upper.entry(s).or_default() += 1;
                            }
                        }
                        let mut got: BTreeMap<&String, usize> = BTreeMap::new();
                        for s in l {
                            *got.entry(s).or_default() += 1;
                        }
                        if let Some((m, _)) = lower.iter().find(|(s, n)| got.get(s).copied().unwrap_or(0) < **n) {
                            return Some(format!("{label}: declared service '{m}' is not listed"));
                        }
                        if let Some((x, n)) = got.iter().find(|(s, n)| upper.get(**s).copied().unwrap_or(0) < **n) {
                            return Some(format!("{label}: service '{x}' is listed {n} times but declared {} times", upper.get(*x).copied().unwrap_or(0)));
                        }
                        if got.values().any(|n| *n > 1) {
                            notes.duplicate_service_in_list += 1;
                        }
                    }
                }
            }
            // The property does not ask for extension lookups.  Accepted: "not supported / not found"
            // (NOT_FOUND or UNIMPLEMENTED), or a correct answer; never a wrong file or wrong numbers.
            Q::Ext(t, n) => {
                let declaring: Vec<usize> =
                    (0..all.len()).filter(|i| exts[*i].iter().any(|x| same_type(&x.1, t) && x.2 == *n)).collect();
                match a {
                    Ans::Err(5) | Ans::Err(12) | Ans::InMsgErr(5) | Ans::InMsgErr(12) => {
                        if declaring.is_empty() {
                            notes.undeclared_extension_lookup_not_found += 1
                        } else {
                            notes.declared_extension_lookup_not_found += 1
                        }
                    }
                    Ans::Fd(v) if v.len() == 1 => {
                        let ok = FileDescriptorProto::decode(&v[0][..])
                            .map_or(false, |fd| declaring.iter().any(|i| all[*i] == fd));
                        if !ok {
                            return Some(format!("{label}: extension {n} of '{t}' resolved to a file that does not declare it"));
                        }
                        notes.declared_extension_lookup_found += 1;
                    }
                    other => return Some(format!("{label}: extension request answered {:?}", other)),
                }
            }
            Q::AllExt(t) => {
                let numbers: BTreeSet<i32> =
                    exts.iter().flatten().filter(|x| same_type(&x.1, t)).map(|x| x.2).collect();
                let unknown_type = numbers.is_empty() && !is_message_type(t);
                match a {
                    Ans::AllExt { base, numbers: got } => {
                        if !(base.is_empty() || same_type(base, t)) {
                            return Some(format!("{label}: all-extension-numbers of '{t}' answered for type '{base}'"));
                        }
                        if let Some(x) = got.iter().find(|x| !numbers.contains(x)) {
                            return Some(format!("{label}: all-extension-numbers of '{t}' lists {x}, which no registered file declares"));
                        }
                        if got.is_empty() && !numbers.is_empty() {
                            notes.all_extension_numbers_declared_but_empty += 1;
                        }
                        if !got.is_empty() {
                            notes.all_extension_numbers_nonempty += 1;
                        }
                        if unknown_type {
                            // tonic#1077 workaround: OK with an empty list instead of NOT_FOUND
                            notes.all_extension_numbers_unknown_type_ok_empty += 1;
                        }
                    }
                    Ans::Err(5) | Ans::Err(12) | Ans::InMsgErr(5) | Ans::InMsgErr(12) => {
                        if unknown_type {
                            notes.all_extension_numbers_unknown_type_not_found += 1;
                        }
                    }
                    other => return Some(format!("{label}: all-extension-numbers answered {:?}", other)),
                }
            }
            Q::None => {
                if *a != Ans::Err(3) {
                    return Some(format!("{label}: empty request answered {:?}", a));
                }
            }
        }
    }
    None
}

fn own_names(own: &FileDescriptorSet) -> (BTreeSet<String>, BTreeSet<String>, BTreeSet<String>) {
    let mut syms = BTreeSet::new();
    let mut files = BTreeSet::new();
    let mut svcs = BTreeSet::new();
    for f in &own.file {
        if let Some(d) = declared(f) {
            for x in d {
                syms.extend(x.alt);
                syms.insert(x.name);
            }
        }
        files.extend(f.name.clone());
        svcs.extend(declared_services(f));
    }
    (syms, files, svcs)
}

/// v1 and v1alpha give the same answers.  Each version registers its *own* descriptor when
/// include_reflection_service is on, so questions about those names (and the own service in the
/// list) are compared only when the reflection descriptor is not included.
fn oracle_cross(reg: &Registered, queries: &[Q], script: &[Sev], a: &VerObs, b: &VerObs) -> Option<String> {
    let (s1, f1, v1) = own_names(&ver1::own_fds());
    let (s2, f2, v2) = own_names(&ver1alpha::own_fds());
    let own_related = |q: &Q| match q {
        Q::Sym(s) => s1.contains(s) || s2.contains(s),
        Q::File(n) => f1.contains(n) || f2.contains(n),
        _ => false,
    };
    let strip = |so: &StreamObs| {
        let mut so = so.clone();
        if reg.include {
            for a in so.answers.iter_mut() {
                if let Ans::List(l) = a {
                    l.retain(|s| !v1.contains(s) && !v2.contains(s));
                }
            }
        }
        so
    };
    match (a, b) {
        (VerObs::BuildErr(x), VerObs::BuildErr(y)) => {
            if x != y {
                return Some(format!("v1 build error '{x}' but v1alpha build error '{y}'"));
            }
            None
        }
        (VerObs::Built { per_query: pa, script: sa }, VerObs::Built { per_query: pb, script: sb }) => {
            for ((q, x), y) in queries.iter().zip(pa).zip(pb) {
                if reg.include && own_related(q) {
                    continue;
                }
                if strip(x) != strip(y) {
                    return Some(format!("v1 and v1alpha answer {:?} differently: {:?} vs {:?}", q, x, y));
                }
            }
            let script_own = script.iter().any(|e| matches!(e, Sev::Req(q) if own_related(q)));
            if !(reg.include && script_own) && strip(sa) != strip(sb) {
                return Some(format!("v1 and v1alpha answer the scripted stream differently: {:?} vs {:?}", sa, sb));
            }
            None
        }
        _ => Some("one of v1 / v1alpha builds and the other does not".into()),
    }
}

/// the scripted stream, checked directly: answers are those of the single-request streams, the
/// first error ends the stream, a malformed request ends it silently, and the server task panics
/// only when it answers after the client has dropped the response stream
fn oracle_script(label: &str, queries: &[Q], script: &[Sev], obs: &VerObs) -> Option<String> {
    let VerObs::Built { per_query, script: so } = obs else { return None };
    let single = |q: &Q| queries.iter().position(|x| x == q).map(|i| per_query[i].answers.clone());
    let mut expect: Vec<Ans> = vec![];
    let mut expect_echo: Vec<Option<Echo>> = vec![];
    let mut dropped = false;
    let mut panic = false;
    for (j, ev) in script.iter().enumerate() {
        match ev {
            Sev::Drop => dropped = true,
            Sev::Bad => break,
            Sev::Req(q) => {
                let Some(a) = single(q) else { return None };
                if a.len() != 1 {
                    return None;
                }
                if dropped {
                    panic = true;
                    break;
                }
                let is_err = matches!(a[0], Ans::Err(_));
                expect.push(a[0].clone());
                expect_echo.push(if is_err {
                    None
                } else {
                    Some(Echo { valid_host: shost(j).to_string(), original: Some((shost(j).to_string(), q.clone())) })
                });
                if is_err {
                    break;
                }
            }
        }
    }
    if so.answers != expect {
        return Some(format!("{label}: scripted stream answered {:?}, single streams say {:?}", so.answers, expect));
    }
    if so.echoes != expect_echo {
        return Some(format!("{label}: scripted stream: response envelopes {:?}, the requests were {:?}", so.echoes, expect_echo));
    }
    if so.panicked != panic {
        return Some(format!("{label}: scripted stream: server task panicked = {}, expected {}", so.panicked, panic));
    }
    None
}

// ------------------------------------------------------------------ generators
const MSG_NAMES: &[&str] = &["M", "N", "Msg", "A", "B", "Inner"];
const ENUM_NAMES: &[&str] = &["E", "F", "A", "Kind"];
const VALUE_NAMES: &[&str] = &["V", "W", "A", "ZERO", "E"];
const FIELD_NAMES: &[&str] = &["f", "g", "id", "a", "M", "o"];
const ONEOF_NAMES: &[&str] = &["o", "kind", "f"];
const SVC_NAMES: &[&str] = &["S", "T", "Svc", "A"];
const METHOD_NAMES: &[&str] = &["Get", "Put", "m", "A"];
const EXOTIC: &[&str] = &["", "a.b", "\u{e9}", "x y", "\"q\"", "M.f", ".", "A.", "\u{8a9e}"];
const PACKAGES: &[Option<&str>] = &[
    None,
    Some(""),
    Some("p"),
    Some("p"),
    Some("p.q"),
    Some("p.q"),
    Some("p.q.r"),
    Some("q"),
    Some("grpc.reflection.v1"),
    Some("A"),
];
const FILE_NAMES: &[&str] = &["a.proto", "b.proto", "x/c.proto", "d.proto", "e.proto", "f.proto", "", "x/y/g.proto"];

/// what a generated case concentrates on (= its kind in the evidence)
#[derive(Clone, Copy, PartialEq, Debug)]
enum Mode {
    General,
    /// every set is registered encoded and carries fields prost-types does not know
    UnknownFields,
    /// bigger files, EVERY declared name is asked (no sampling)
    AllNames,
    /// file names that look like symbols and symbols that look like file names; every file name
    /// is asked as a symbol and declared names are asked as file names
    Namespace,
    /// extension declarations everywhere, extension requests for all of them and for unknown types
    Extensions,
}
impl Mode {
    fn kind(self) -> &'static str {
        match self {
            Mode::General => "descriptor_set",
            Mode::UnknownFields => "unknown_fields",
            Mode::AllNames => "all_names",
            Mode::Namespace => "namespace_collision",
            Mode::Extensions => "extensions",
        }
    }
}
const NS_FILE_NAMES: &[&str] = &["p.M", "M", "p.q.M", "p.S", "S.Get", "p.q.M.f", "a.proto", "E.V", "p", "p.q"];

struct G {
    r: Rng,
    miss: u64,
    exotic: bool,
    budget: i64,
    big: bool,
    ns: bool,
    ext_boost: bool,
}
impl G {
    fn nm(&mut self, pool: &[&str]) -> Option<String> {
        self.budget -= 1;
        if self.miss > 0 && self.r.below(self.miss) == 0 {
            return None;
        }
        if self.ns && self.r.chance(1, 8) {
            return Some("proto".to_string()); // with package "a": the symbol a.proto
        }
        if self.exotic && self.r.chance(1, 10) {
            return Some(self.r.pick(EXOTIC).to_string());
        }
        Some(self.r.pick(pool).to_string())
    }
    fn count(&mut self, max: u64) -> u64 {
        if self.budget <= 0 {
            0
        } else {
            self.r.below(max + 1)
        }
    }
    // ---- random content for every field the index does not read (it must come back unchanged)
    fn ostr(&mut self, pool: &[&str]) -> Option<String> {
        if self.r.chance(1, 3) {
            Some(self.r.pick(pool).to_string())
        } else {
            None
        }
    }
    fn ob(&mut self) -> Option<bool> {
        match self.r.below(4) {
            0 => Some(true),
            1 => Some(false),
            _ => None,
        }
    }
    fn oi(&mut self, lo: i64, hi: i64) -> Option<i32> {
        if self.r.chance(1, 3) {
            Some((lo + self.r.below((hi - lo + 1) as u64) as i64) as i32)
        } else {
            None
        }
    }
    fn uninterpreted(&mut self) -> Vec<prost_types::UninterpretedOption> {
        let n = if self.r.chance(1, 4) { self.r.range(1, 2) } else { 0 };
        (0..n)
            .map(|_| prost_types::UninterpretedOption {
                name: (0..self.r.range(0, 2))
                    .map(|_| prost_types::uninterpreted_option::NamePart {
                        name_part: self.r.pick(&["my.opt", "x", ""]).to_string(),
                        is_extension: self.r.chance(1, 2),
                    })
                    .collect(),
                identifier_value: self.ostr(&["IDENT", ""]),
                positive_int_value: if self.r.chance(1, 3) { Some(self.r.next()) } else { None },
                negative_int_value: if self.r.chance(1, 3) { Some(-(self.r.below(1 << 40) as i64)) } else { None },
                double_value: if self.r.chance(1, 3) { Some(self.r.below(1000) as f64 / 8.0 - 3.0) } else { None },
                string_value: if self.r.chance(1, 3) { Some(self.r.bytes(3)) } else { None },
                aggregate_value: self.ostr(&["{a:1}", ""]),
            })
            .collect()
    }
    fn file_options(&mut self) -> Option<prost_types::FileOptions> {
        if !self.r.chance(1, 3) {
            return None;
        }
        Some(prost_types::FileOptions {
            java_package: self.ostr(&["com.x", ""]),
            java_outer_classname: self.ostr(&["Outer"]),
            java_multiple_files: self.ob(),
            #[allow(deprecated)]
            java_generate_equals_and_hash: self.ob(),
            java_string_check_utf8: self.ob(),
            optimize_for: self.oi(1, 3),
            go_package: self.ostr(&["example.com/x;x"]),
            cc_generic_services: self.ob(),
            java_generic_services: self.ob(),
            py_generic_services: self.ob(),
            php_generic_services: self.ob(),
            deprecated: self.ob(),
            cc_enable_arenas: self.ob(),
            objc_class_prefix: self.ostr(&["OBJ"]),
            csharp_namespace: self.ostr(&["X.Y"]),
            swift_prefix: self.ostr(&["SW"]),
            php_class_prefix: self.ostr(&["PH"]),
            php_namespace: self.ostr(&["X\\Y"]),
            php_metadata_namespace: self.ostr(&["X\\M"]),
            ruby_package: self.ostr(&["X::Y"]),
            uninterpreted_option: self.uninterpreted(),
        })
    }
    fn source_info(&mut self) -> Option<prost_types::SourceCodeInfo> {
        if !self.r.chance(1, 3) {
            return None;
        }
        let n = self.r.range(0, 3);
        Some(prost_types::SourceCodeInfo {
            location: (0..n)
                .map(|_| prost_types::source_code_info::Location {
                    path: (0..self.r.range(0, 4)).map(|_| self.r.below(12) as i32).collect(),
                    span: (0..self.r.range(3, 4)).map(|_| self.r.below(200) as i32).collect(),
                    leading_comments: self.ostr(&[" leading\n", ""]),
                    trailing_comments: self.ostr(&[" trailing \u{e9}\n"]),
                    leading_detached_comments: (0..self.r.range(0, 2)).map(|_| " detached\n".to_string()).collect(),
                })
                .collect(),
        })
    }
    fn field(&mut self, name: Option<String>, number: i32, n_oneof: u64, extension: bool) -> FieldDescriptorProto {
        let ty = *self.r.pick(&[1, 3, 5, 8, 9, 11, 12, 13, 14, 17]);
        FieldDescriptorProto {
            name,
            number: if self.r.chance(9, 10) { Some(number) } else { None },
            label: self.oi(1, 3),
            r#type: if self.r.chance(4, 5) { Some(ty) } else { None },
            type_name: if ty == 11 || ty == 14 || self.r.chance(1, 6) { Some(self.r.pick(&[".p.M", ".p.q.M.N", "E", ".x.Y"]).to_string()) } else { None },
            extendee: if extension { Some(self.r.pick(&[".p.M", "p.M", ".p.q.M", "p.q.M", "M", ".x.Y"]).to_string()) } else { None },
            default_value: self.ostr(&["0", "abc", "true", "-1.5", ""]),
            oneof_index: if !extension && n_oneof > 0 && self.r.chance(1, 2) { Some(self.r.below(n_oneof) as i32) } else { None },
            json_name: self.ostr(&["jsonName", "f"]),
            options: if self.r.chance(1, 3) {
                Some(prost_types::FieldOptions {
                    ctype: self.oi(0, 2),
                    packed: self.ob(),
                    jstype: self.oi(0, 2),
                    lazy: self.ob(),
                    deprecated: self.ob(),
                    weak: self.ob(),
                    uninterpreted_option: self.uninterpreted(),
                })
            } else {
                None
            },
            proto3_optional: self.ob(),
        }
    }
    fn extensions(&mut self) -> Vec<FieldDescriptorProto> {
        let n = if self.ext_boost { self.r.range(1, 3) } else if self.r.chance(1, 4) { self.r.range(1, 2) } else { 0 };
        (0..n)
            .map(|_| {
                let name = if self.r.chance(1, 20) { None } else { Some(self.r.pick(&["ext1", "ext2", "f", "M"]).to_string()) };
                let number = 100 + self.r.below(4) as i32;
                self.field(name, number, 0, true)
            })
            .collect()
    }
    fn reserved_names(&mut self) -> Vec<String> {
        if self.r.chance(1, 4) {
            (0..self.r.range(1, 2)).map(|_| self.r.pick(&["old", "gone", "f"]).to_string()).collect()
        } else {
            vec![]
        }
    }
    fn enum_(&mut self) -> EnumDescriptorProto {
        let name = self.nm(ENUM_NAMES);
        let n = self.count(3);
        EnumDescriptorProto {
            name,
            value: (0..n)
                .map(|i| EnumValueDescriptorProto {
                    name: self.nm(VALUE_NAMES),
                    number: if self.r.chance(9, 10) { Some(i as i32 - 1) } else { None },
                    options: if self.r.chance(1, 4) {
                        Some(prost_types::EnumValueOptions { deprecated: self.ob(), uninterpreted_option: self.uninterpreted() })
                    } else {
                        None
                    },
                })
                .collect(),
            options: if self.r.chance(1, 4) {
                Some(prost_types::EnumOptions { allow_alias: self.ob(), deprecated: self.ob(), uninterpreted_option: self.uninterpreted() })
            } else {
                None
            },
            reserved_range: if self.r.chance(1, 4) {
                vec![prost_types::enum_descriptor_proto::EnumReservedRange { start: self.oi(-5, 5), end: self.oi(6, 20) }]
            } else {
                vec![]
            },
            reserved_name: self.reserved_names(),
        }
    }
    fn msg(&mut self, depth: u32) -> DescriptorProto {
        let name = self.nm(MSG_NAMES);
        let n_one = self.count(2);
        let oneof_decl: Vec<_> = (0..n_one)
            .map(|_| OneofDescriptorProto {
                name: self.nm(ONEOF_NAMES),
                options: if self.r.chance(1, 4) {
                    Some(prost_types::OneofOptions { uninterpreted_option: self.uninterpreted() })
                } else {
                    None
                },
            })
            .collect();
        let n_f = self.count(3);
        let field = (0..n_f)
            .map(|i| {
                let nm = self.nm(FIELD_NAMES);
                self.field(nm, i as i32 + 1, n_one, false)
            })
            .collect();
        let n_e = self.count(2);
        let enum_type = (0..n_e).map(|_| self.enum_()).collect();
        let n_n = if depth >= 4 {
            0
        } else if self.r.chance(1, 2) {
            self.count(2)
        } else {
            0
        };
        let nested_type = (0..n_n).map(|_| self.msg(depth + 1)).collect();
        DescriptorProto {
            name,
            field,
            extension: self.extensions(),
            nested_type,
            enum_type,
            extension_range: if self.r.chance(1, 4) {
                vec![prost_types::descriptor_proto::ExtensionRange {
                    start: self.oi(100, 100),
                    end: self.oi(200, 536870912),
                    options: if self.r.chance(1, 2) {
                        Some(prost_types::ExtensionRangeOptions { uninterpreted_option: self.uninterpreted() })
                    } else {
                        None
                    },
                }]
            } else {
                vec![]
            },
            oneof_decl,
            options: if self.r.chance(1, 4) {
                Some(prost_types::MessageOptions {
                    message_set_wire_format: self.ob(),
                    no_standard_descriptor_accessor: self.ob(),
                    deprecated: self.ob(),
                    map_entry: self.ob(),
                    uninterpreted_option: self.uninterpreted(),
                })
            } else {
                None
            },
            reserved_range: if self.r.chance(1, 4) {
                vec![prost_types::descriptor_proto::ReservedRange { start: self.oi(10, 20), end: self.oi(21, 30) }]
            } else {
                vec![]
            },
            reserved_name: self.reserved_names(),
        }
    }
    /// a chain of nested messages of the maximal depth, so that depth 4 is always exercised
    fn deep(&mut self, depth: u32) -> DescriptorProto {
        let mut m = self.msg(4);
        if depth < 4 {
            m.nested_type.push(self.deep(depth + 1));
        }
        m
    }
    fn service(&mut self) -> ServiceDescriptorProto {
        let name = self.nm(SVC_NAMES);
        let n = self.count(3);
        ServiceDescriptorProto {
            name,
            method: (0..n)
                .map(|_| MethodDescriptorProto {
                    name: self.nm(METHOD_NAMES),
                    input_type: self.ostr(&[".p.M", "M", ".google.protobuf.Empty"]),
                    output_type: self.ostr(&[".p.N", ".p.q.M.N"]),
                    options: if self.r.chance(1, 4) {
                        Some(prost_types::MethodOptions {
                            deprecated: self.ob(),
                            idempotency_level: self.oi(0, 2),
                            uninterpreted_option: self.uninterpreted(),
                        })
                    } else {
                        None
                    },
                    client_streaming: self.ob(),
                    server_streaming: self.ob(),
                })
                .collect(),
            options: if self.r.chance(1, 4) {
                Some(prost_types::ServiceOptions { deprecated: self.ob(), uninterpreted_option: self.uninterpreted() })
            } else {
                None
            },
        }
    }
    fn file(&mut self, name: Option<String>) -> FileDescriptorProto {
        self.budget = if self.big { self.r.range(30, 90) as i64 } else { self.r.range(4, 28) as i64 };
        let package = if self.ns && self.r.chance(1, 4) { Some("a".to_string()) } else { self.r.pick(PACKAGES).map(|s| s.to_string()) };
        let n_m = self.r.below(4);
        let mut message_type: Vec<_> = (0..n_m).map(|_| self.msg(0)).collect();
        if self.r.chance(1, 10) {
            self.budget = 12;
            message_type.push(self.deep(0));
        }
        self.budget = self.budget.max(3);
        let n_e = self.count(2);
        let enum_type = (0..n_e).map(|_| self.enum_()).collect();
        self.budget = self.budget.max(4);
        let n_s = self.count(2);
        let service = (0..n_s).map(|_| self.service()).collect();
        let n_dep = self.r.below(4);
        FileDescriptorProto {
            name,
            package,
            dependency: (0..n_dep).map(|_| self.r.pick(&["google/protobuf/empty.proto", "a.proto", "x/c.proto", "other.proto"]).to_string()).collect(),
            public_dependency: if n_dep > 0 && self.r.chance(1, 3) { vec![self.r.below(n_dep) as i32] } else { vec![] },
            weak_dependency: if n_dep > 0 && self.r.chance(1, 4) { vec![self.r.below(n_dep) as i32] } else { vec![] },
            message_type,
            enum_type,
            service,
            extension: self.extensions(),
            options: self.file_options(),
            source_code_info: self.source_info(),
            syntax: self.ostr(&["proto3", "proto2", "editions"]),
        }
    }
}

// ---- protobuf wire helpers, to register encoded sets that carry fields prost does not know
fn put_varint(out: &mut Vec<u8>, mut v: u64) {
    while v >= 0x80 {
        out.push((v as u8 & 0x7f) | 0x80);
        v >>= 7;
    }
    out.push(v as u8);
}
fn put_key(out: &mut Vec<u8>, field: u64, wire: u64) {
    put_varint(out, (field << 3) | wire);
}
/// the set's encoding with unknown fields added at set level, at file level and (a custom option,
/// field 50000) inside the file options; returns the bytes and the bytes of each file entry
fn encode_with_unknown_fields(set: &FileDescriptorSet) -> (Vec<u8>, Vec<Vec<u8>>) {
    let mut out = vec![];
    let mut raws = vec![];
    for f in &set.file {
        let mut f2 = f.clone();
        let opts = f2.options.take();
        let mut fb = f2.encode_to_vec();
        put_key(&mut fb, 1000, 0);
        put_varint(&mut fb, 7);
        put_key(&mut fb, 1001, 2);
        put_varint(&mut fb, 3);
        fb.extend(b"xyz");
        if let Some(o) = opts {
            let mut ob = o.encode_to_vec();
            put_key(&mut ob, 50000, 0);
            put_varint(&mut ob, 1);
            put_key(&mut fb, 8, 2);
            put_varint(&mut fb, ob.len() as u64);
            fb.extend(ob);
        }
        put_key(&mut out, 1, 2);
        put_varint(&mut out, fb.len() as u64);
        out.extend(&fb);
        raws.push(fb);
    }
    put_key(&mut out, 15, 0);
    put_varint(&mut out, 1);
    assert!(FileDescriptorSet::decode(&out[..]).ok().as_ref() == Some(set), "unknown-field injection changed the known fields");
    (out, raws)
}

fn mutate(r: &mut Rng, s: &str) -> String {
    let segs: Vec<&str> = s.split('.').collect();
    match r.below(10) {
        0 => format!("{}x", s),
        1 => {
            let mut t = s.to_string();
            t.pop();
            t
        }
        2 => segs[1.min(segs.len() - 1)..].join("."),
        3 => segs[..segs.len() - 1].join("."),
        4 => format!(".{}", s),
        5 => format!("{}.", s),
        6 => s.replace('.', ".."),
        7 => {
            // enum value as a sibling of its enum (protobuf scoping), or a member moved one level up
            if segs.len() >= 2 {
                let mut v = segs.clone();
                v.remove(segs.len() - 2);
                v.join(".")
            } else {
                s.to_uppercase()
            }
        }
        8 => s.to_lowercase(),
        _ => s.replace('.', "/"),
    }
}

fn gen_case(seed: u64, out: &mut Out, focus: Mode) -> CaseIn {
    let mut r = Rng(seed);
    let mode = r.below(20);
    let mut g = G {
        r: r.fork(),
        miss: if mode == 0 { 12 } else if mode == 1 { 40 } else { 0 },
        exotic: mode == 2 || mode == 3,
        budget: 0,
        big: focus == Mode::AllNames,
        ns: focus == Mode::Namespace,
        ext_boost: focus == Mode::Extensions,
    };
    let nfiles = match r.below(10) {
        0 if focus == Mode::General => 0,
        0..=2 => 1,
        3..=5 => 2,
        6 | 7 => 3,
        8 => 4,
        _ => 5,
    };
    let mut files: Vec<FileDescriptorProto> = vec![];
    let mut names: Vec<&str> = if focus == Mode::Namespace { NS_FILE_NAMES.to_vec() } else { FILE_NAMES.to_vec() };
    let mut dup_kind = "none";
    for i in 0..nfiles {
        if i > 0 && r.chance(1, 5) {
            let j = r.below(i as u64) as usize;
            if r.chance(3, 5) {
                files.push(files[j].clone()); // the same file registered again
                dup_kind = if dup_kind == "conflict" { "both" } else { "identical" };
            } else {
                let n = files[j].name.clone();
                files.push(g.file(n)); // another file under the same name
                dup_kind = if dup_kind == "identical" { "both" } else { "conflict" };
            }
            continue;
        }
        let k = r.below(names.len() as u64) as usize;
        let n = names.remove(k);
        let name = if g.miss > 0 && r.chance(1, 15) { None } else { Some(n.to_string()) };
        files.push(g.file(name));
    }
    out.hist("files_per_case", nfiles);
    out.hist("duplicate_file_registration", dup_kind);
    out.hist("names", if g.miss > 0 { "some missing" } else if g.exotic { "exotic" } else { "plain" });
    for f in &files {
        out.hist(
            "package",
            match f.package.as_deref() {
                None => "absent",
                Some("") => "empty",
                Some(p) if p.contains('.') => "nested",
                Some(_) => "single",
            },
        );
        match f.message_type.iter().map(msg_depth).max() {
            None => out.hist("nesting_depth", "no message"),
            Some(levels) => out.hist("nesting_depth", levels - 1),
        }
    }
    // partition into sets, each registered decoded or encoded
    let mut ops: Vec<Op> = vec![];
    let mut cur: Vec<FileDescriptorProto> = vec![];
    let flush = |cur: &mut Vec<FileDescriptorProto>, ops: &mut Vec<Op>, r: &mut Rng| {
        if cur.is_empty() && r.chance(9, 10) {
            return;
        }
        let s = FileDescriptorSet { file: std::mem::take(cur) };
        match if focus == Mode::UnknownFields { 5 } else { r.below(6) } {
            0..=2 => ops.push(Op::Set(s)),
            3 | 4 => ops.push(Op::Enc(s.encode_to_vec())),
            // encoded, carrying fields prost does not know (custom options, newer descriptor fields)
            _ => ops.push(Op::Enc(encode_with_unknown_fields(&s).0)),
        }
    };
    for f in files {
        cur.push(f);
        if r.chance(1, 2) {
            flush(&mut cur, &mut ops, &mut r);
        }
    }
    flush(&mut cur, &mut ops, &mut r);
    if r.chance(1, 25) {
        let junk: &[&[u8]] = &[&[0xff], &[0x0a, 0x05, 0x01], &[0x08], &[0x0a, 0x02, 0x0a, 0x05]];
        let k = r.below(ops.len() as u64 + 1) as usize;
        ops.insert(k, Op::Enc(r.pick(junk).to_vec()));
    }
    if r.chance(1, 20) {
        // the user registers tonic-reflection's own descriptor set as well
        let own = if r.chance(1, 2) { tonic_reflection::pb::v1::FILE_DESCRIPTOR_SET } else { tonic_reflection::pb::v1alpha::FILE_DESCRIPTOR_SET };
        let k = r.below(ops.len() as u64 + 1) as usize;
        ops.insert(k, Op::Enc(own.to_vec()));
    }
    let inc = r.below(20);
    let include = if inc < 9 {
        out.hist("include_reflection_service", "default(true)");
        true
    } else if inc < 11 {
        let k = r.below(ops.len() as u64 + 1) as usize;
        ops.insert(k, Op::Include(true));
        out.hist("include_reflection_service", "true");
        true
    } else {
        let k = r.below(ops.len() as u64 + 1) as usize;
        ops.insert(k, Op::Include(false));
        out.hist("include_reflection_service", "false");
        false
    };
    let _ = include;
    // what is declared (independent reading), for queries
    let tmp = CaseIn { ops: ops.clone(), queries: vec![], script: vec![] };
    let reg = registered_of(&tmp);
    let mut decl: Vec<Decl> = vec![];
    let mut svcs: Vec<String> = vec![];
    let mut exts: Vec<(String, String, i32)> = vec![];
    for f in &reg.files {
        if let Some(d) = declared(f) {
            decl.extend(d);
        }
        svcs.extend(declared_services(f));
        exts.extend(declared_extensions(f));
    }
    out.hist("encoded_set_with_unknown_fields", reg.raw.iter().any(|(f, raw)| f.encode_to_vec() != *raw));
    out.hist("extensions_declared", exts.len().min(4));
    if r.chance(1, 5) {
        let n = r.range(1, 3);
        for _ in 0..n {
            let name = if !svcs.is_empty() && r.chance(7, 10) { r.pick(&svcs).clone() } else { r.pick(&["x.Y", "", "p.S", "Unknown"]).to_string() };
            let k = r.below(ops.len() as u64 + 1) as usize;
            ops.insert(k, Op::Name(name));
        }
        out.hist("service_names", "chosen");
    } else {
        out.hist("service_names", "all declared");
    }
    // queries
    let mut seen = BTreeSet::new();
    decl.retain(|d| seen.insert(d.name.clone()));
    let cap = if focus == Mode::AllNames { 2000 } else { 48 };
    out.hist("declared_names_of_the_case", if decl.len() <= cap { "all asked" } else { "48 sampled" });
    while decl.len() > cap {
        let k = r.below(decl.len() as u64) as usize;
        decl.swap_remove(k);
    }
    let mut queries: Vec<Q> = vec![];
    for d in &decl {
        out.hist("queried_declared_kind", d.kind);
        queries.push(Q::Sym(d.name.clone()));
        if let Some(alt) = &d.alt {
            queries.push(Q::Sym(alt.clone())); // the enum value under protobuf's own scoping (pkg.VALUE)
        }
    }
    let n_mut = (decl.len() as u64).min(10);
    for _ in 0..n_mut {
        let n = r.pick(&decl).name.clone();
        queries.push(Q::Sym(mutate(&mut r, &n)));
    }
    for x in exts.iter().take(if focus == Mode::Extensions { 8 } else { 3 }) {
        queries.push(Q::Sym(x.0.clone())); // the fully-qualified name of an extension field
    }
    for u in ["", ".", "nope", "p", "p.q", "p.q.M.nope"] {
        if r.chance(1, 2) {
            queries.push(Q::Sym(u.to_string()));
        }
    }
    let own_syms = [
        "grpc.reflection.v1.ServerReflection",
        "grpc.reflection.v1alpha.ServerReflection",
        "grpc.reflection.v1.ServerReflection.ServerReflectionInfo",
        "grpc.reflection.v1.ServerReflectionRequest.host",
        "grpc.reflection.v1alpha.ErrorResponse.error_code",
        "grpc.reflection.v1.ServerReflectionRequest.message_request",
    ];
    for _ in 0..2 {
        queries.push(Q::Sym(r.pick(&own_syms).to_string()));
    }
    let fnames: BTreeSet<String> = reg.files.iter().filter_map(|f| f.name.clone()).collect();
    for n in &fnames {
        queries.push(Q::File(n.clone()));
        if r.chance(1, 2) {
            queries.push(Q::File(mutate(&mut r, n)));
        }
    }
    // the two name spaces must not leak into each other: file names asked as symbols, declared
    // names asked as file names
    let (n_fs, n_sf) = if focus == Mode::Namespace { (8, 12) } else { (2, 2) };
    for n in fnames.iter().take(n_fs) {
        queries.push(Q::Sym(n.clone()));
    }
    for _ in 0..n_sf.min(decl.len()) {
        queries.push(Q::File(r.pick(&decl).name.clone()));
    }
    for u in ["nope.proto", "reflection_v1.proto", "reflection_v1alpha.proto", "a.proto", ""] {
        if r.chance(1, 2) {
            queries.push(Q::File(u.to_string()));
        }
    }
    queries.push(Q::List(r.pick(&["", "*", "x"]).to_string()));
    if focus == Mode::Extensions || r.chance(1, 2) {
        // extension requests: declared (extendee, number) pairs with and without the leading dot,
        // declared message names, unknown types, boundary numbers
        let msgs: Vec<String> = decl.iter().filter(|d| d.kind.ends_with("message")).map(|d| d.name.clone()).collect();
        let mut types: Vec<String> = vec!["p.M".into(), ".p.M".into(), "".into(), "x.Y".into(), "nope".into()];
        types.extend(msgs.iter().take(4).cloned());
        types.extend(exts.iter().map(|x| x.1.clone()));
        types.extend(exts.iter().map(|x| x.1.trim_start_matches('.').to_string()));
        let numbers = [0, 1, 7, 100, 101, 102, 103, -1, i32::MAX, i32::MIN];
        for x in exts.iter().take(if focus == Mode::Extensions { 8 } else { 3 }) {
            queries.push(Q::Ext(x.1.clone(), x.2));
            queries.push(Q::Ext(x.1.trim_start_matches('.').to_string(), x.2));
            queries.push(Q::AllExt(x.1.clone()));
        }
        for _ in 0..r.range(1, 4) {
            queries.push(Q::Ext(r.pick(&types).clone(), *r.pick(&numbers)));
        }
        for _ in 0..r.range(1, 3) {
            queries.push(Q::AllExt(r.pick(&types).clone()));
        }
        queries.push(Q::None);
    }
    let mut seenq: Vec<Q> = vec![];
    queries.retain(|q| {
        if seenq.contains(q) {
            false
        } else {
            seenq.push(q.clone());
            true
        }
    });
    // scripted stream
    let n_ev = r.below(7);
    let mut script = vec![];
    for _ in 0..n_ev {
        script.push(match r.below(12) {
            0 => Sev::Bad,
            1 => Sev::Drop,
            _ => Sev::Req(r.pick(&queries).clone()),
        });
    }
    out.hist("script_events", n_ev);
    CaseIn { ops, queries, script }
}

// ------------------------------------------------------------------ fixed corpus
fn fd(name: &str, package: Option<&str>, tag: u64) -> FileDescriptorProto {
    FileDescriptorProto {
        name: Some(name.into()),
        package: package.map(|s| s.into()),
        dependency: vec![format!("t{}", tag)],
        ..Default::default()
    }
}
fn m(name: &str) -> DescriptorProto {
    DescriptorProto { name: Some(name.into()), ..Default::default() }
}
fn en(name: &str, values: &[&str]) -> EnumDescriptorProto {
    EnumDescriptorProto {
        name: Some(name.into()),
        value: values
            .iter()
            .enumerate()
            .map(|(i, v)| EnumValueDescriptorProto { name: Some(v.to_string()), number: Some(i as i32), options: None })
            .collect(),
        ..Default::default()
    }
}
fn fld(name: &str) -> FieldDescriptorProto {
    FieldDescriptorProto { name: Some(name.into()), number: Some(1), ..Default::default() }
}
fn svc(name: &str, methods: &[&str]) -> ServiceDescriptorProto {
    ServiceDescriptorProto {
        name: Some(name.into()),
        method: methods.iter().map(|x| MethodDescriptorProto { name: Some(x.to_string()), ..Default::default() }).collect(),
        options: None,
    }
}
fn syms(names: &[&str]) -> Vec<Q> {
    names.iter().map(|s| Q::Sym(s.to_string())).collect()
}
fn corpus() -> Vec<CaseIn> {
    let mut v = vec![];
    // 0: one of everything, nested to depth 4, package p.q
    let mut a = fd("a.proto", Some("p.q"), 1);
    let mut m0 = m("M");
    m0.field.push(fld("f"));
    m0.oneof_decl.push(OneofDescriptorProto { name: Some("o".into()), options: None });
    m0.enum_type.push(en("E", &["A", "B"]));
    let mut m1 = m("N");
    let mut m2 = m("O");
    let mut m3 = m("P");
    let mut m4 = m("Q");
    m4.field.push(fld("deep"));
    m3.nested_type.push(m4);
    m2.nested_type.push(m3);
    m1.nested_type.push(m2);
    m0.nested_type.push(m1);
    a.message_type.push(m0);
    a.enum_type.push(en("Top", &["X"]));
    a.service.push(svc("S", &["Get", "Put"]));
    let all = [
        "p.q.M", "p.q.M.f", "p.q.M.o", "p.q.M.E", "p.q.M.E.A", "p.q.M.E.B", "p.q.M.N", "p.q.M.N.O", "p.q.M.N.O.P",
        "p.q.M.N.O.P.Q", "p.q.M.N.O.P.Q.deep", "p.q.Top", "p.q.Top.X", "p.q.S", "p.q.S.Get", "p.q.S.Put",
    ];
    let near = ["p.q", "p", "p.q.M.A", "p.q.A", "p.q.X", "M", "q.M", "p.q.M.", ".p.q.M", "p.q.m", "p.q.S.get", "p.q.M.N.O.P.Q.R", ""];
    let mut q = syms(&all);
    q.extend(syms(&near));
    q.extend([Q::File("a.proto".into()), Q::File("A.proto".into()), Q::File("a.prot".into()), Q::List(String::new()), Q::AllExt("p.q.M".into()), Q::Ext("p.q.M".into(), 7), Q::None]);
    v.push(CaseIn {
        ops: vec![Op::Set(FileDescriptorSet { file: vec![a.clone()] })],
        queries: q.clone(),
        script: vec![Sev::Req(Q::List(String::new())), Sev::Req(Q::Sym("p.q.M".into())), Sev::Req(Q::Sym("nope".into())), Sev::Req(Q::List(String::new()))],
    });
    // 1: the same, encoded, reflection descriptor excluded, chosen service names
    v.push(CaseIn {
        ops: vec![
            Op::Name("x.Y".into()),
            Op::Enc(FileDescriptorSet { file: vec![a.clone()] }.encode_to_vec()),
            Op::Include(false),
            Op::Name("p.q.S".into()),
        ],
        queries: q.clone(),
        script: vec![Sev::Req(Q::List(String::new())), Sev::Bad, Sev::Req(Q::List(String::new()))],
    });
    // 2: no package / empty package / file registered twice (identical)
    let mut b = fd("b.proto", None, 2);
    b.message_type.push(m("M"));
    b.enum_type.push(en("E", &["V"]));
    b.service.push(svc("S", &["m"]));
    let mut c = fd("c.proto", Some(""), 3);
    c.message_type.push(m("C"));
    v.push(CaseIn {
        ops: vec![
            Op::Set(FileDescriptorSet { file: vec![b.clone(), c.clone()] }),
            Op::Enc(FileDescriptorSet { file: vec![b.clone()] }.encode_to_vec()),
            Op::Set(FileDescriptorSet { file: vec![a.clone(), b.clone()] }),
        ],
        queries: {
            let mut q = syms(&["M", "E", "E.V", "V", "S", "S.m", "C", ".M", "p.q.M", "p.q.S"]);
            q.extend([Q::File("b.proto".into()), Q::File("c.proto".into()), Q::File("a.proto".into()), Q::List(String::new())]);
            q
        },
        script: vec![Sev::Req(Q::Sym("M".into())), Sev::Drop, Sev::Req(Q::Sym("M".into()))],
    });
    // 3: two different files under one file name (the second is shadowed), and the same symbol
    //    declared by two files with different names (the later registration answers)
    let mut a2 = fd("a.proto", Some("p.q"), 4);
    a2.message_type.push(m("OnlyInSecond"));
    a2.service.push(svc("S2", &[]));
    let mut d = fd("d.proto", Some("p.q"), 5);
    d.message_type.push(m("M"));
    d.service.push(svc("S", &["Get"]));
    v.push(CaseIn {
        ops: vec![
            Op::Enc(FileDescriptorSet { file: vec![a2.clone()] }.encode_to_vec()),
            Op::Set(FileDescriptorSet { file: vec![a.clone(), d.clone()] }),
        ],
        queries: {
            let mut q = syms(&["p.q.M", "p.q.OnlyInSecond", "p.q.S", "p.q.S2", "p.q.S.Get", "p.q.S.Put", "p.q.M.f"]);
            q.extend([Q::File("a.proto".into()), Q::File("d.proto".into()), Q::List(String::new())]);
            q
        },
        script: vec![Sev::Drop, Sev::Req(Q::Sym("nope".into()))],
    });
    // 4: missing names of every kind -> build error
    for k in 0..8 {
        let mut f = a.clone();
        match k {
            0 => f.name = None,
            1 => f.message_type[0].nested_type[0].name = None,
            2 => f.enum_type[0].name = None,
            3 => f.service[0].name = None,
            4 => f.service[0].method[1].name = None,
            5 => f.message_type[0].enum_type[0].value[1].name = None,
            6 => f.message_type[0].field[0].name = None,
            _ => f.message_type[0].oneof_decl[0].name = None,
        }
        v.push(CaseIn {
            ops: vec![Op::Set(FileDescriptorSet { file: vec![b.clone(), f] })],
            queries: vec![Q::List(String::new())],
            script: vec![],
        });
    }
    // a shadowed file with missing names is never looked at
    let mut a3 = a.clone();
    a3.message_type[0].name = None;
    v.push(CaseIn {
        ops: vec![Op::Set(FileDescriptorSet { file: vec![a.clone(), a3] })],
        queries: syms(&["p.q.M"]),
        script: vec![],
    });
    // undecodable encoded set
    v.push(CaseIn { ops: vec![Op::Enc(vec![0xff]), Op::Set(FileDescriptorSet { file: vec![a.clone()] })], queries: vec![Q::List(String::new())], script: vec![] });
    // nothing registered at all, with and without the reflection descriptor
    for inc in [true, false] {
        v.push(CaseIn {
            ops: vec![Op::Include(inc)],
            queries: {
                let mut q = syms(&[
                    "grpc.reflection.v1.ServerReflection",
                    "grpc.reflection.v1alpha.ServerReflection",
                    "grpc.reflection.v1.ServerReflectionRequest",
                    "grpc.reflection.v1.ServerReflectionRequest.message_request",
                    "grpc.reflection.v1.ServerReflection.ServerReflectionInfo",
                    "grpc.reflection.v1alpha.ServerReflectionRequest.host",
                    "",
                ]);
                q.extend([Q::File("reflection_v1.proto".into()), Q::File("reflection_v1alpha.proto".into()), Q::List(String::new())]);
                q
            },
            script: vec![Sev::Req(Q::Ext("p.q.M".into(), 7)), Sev::Req(Q::List(String::new()))],
        });
    }
    // the user registers the v1 reflection descriptor too (duplicate registration of a real file)
    v.push(CaseIn {
        ops: vec![Op::Enc(tonic_reflection::pb::v1::FILE_DESCRIPTOR_SET.to_vec()), Op::Set(FileDescriptorSet { file: vec![b.clone()] })],
        queries: {
            let mut q = syms(&["grpc.reflection.v1.ServerReflection", "grpc.reflection.v1alpha.ServerReflection", "M"]);
            q.push(Q::List(String::new()));
            q
        },
        script: vec![],
    });
    // extensions, enum values under both naming schemes, an encoded set with unknown fields
    let mut x = fd("x.proto", Some("p.q"), 7);
    let mut xm = m("M");
    xm.enum_type.push(en("E", &["A"]));
    xm.extension_range.push(prost_types::descriptor_proto::ExtensionRange { start: Some(100), end: Some(200), options: None });
    xm.extension.push(FieldDescriptorProto { name: Some("inner_ext".into()), number: Some(101), extendee: Some(".p.q.M".into()), ..Default::default() });
    x.message_type.push(xm);
    x.enum_type.push(en("Top", &["X"]));
    x.extension.push(FieldDescriptorProto { name: Some("ext1".into()), number: Some(100), extendee: Some(".p.q.M".into()), ..Default::default() });
    x.options = Some(prost_types::FileOptions { go_package: Some("example.com/x".into()), ..Default::default() });
    x.source_code_info = Some(prost_types::SourceCodeInfo {
        location: vec![prost_types::source_code_info::Location { path: vec![4, 0], span: vec![1, 2, 3], leading_comments: Some(" c\n".into()), ..Default::default() }],
    });
    v.push(CaseIn {
        ops: vec![Op::Enc(encode_with_unknown_fields(&FileDescriptorSet { file: vec![x] }).0), Op::Include(false)],
        queries: {
            let mut q = syms(&["p.q.M.E.A", "p.q.M.A", "p.q.Top.X", "p.q.X", "p.q.A", "p.q.ext1", "p.q.M.inner_ext", "p.q.M"]);
            q.extend([
                Q::File("x.proto".into()),
                Q::Ext(".p.q.M".into(), 100),
                Q::Ext("p.q.M".into(), 100),
                Q::Ext("p.q.M".into(), 101),
                Q::Ext("p.q.M".into(), 102),
                Q::Ext("nope".into(), i32::MIN),
                Q::AllExt("p.q.M".into()),
                Q::AllExt(".p.q.M".into()),
                Q::AllExt("nope".into()),
                Q::AllExt("".into()),
                Q::List("*".into()),
            ]);
            q
        },
        script: vec![Sev::Req(Q::AllExt("p.q.M".into())), Sev::Req(Q::Ext("p.q.M".into(), 100)), Sev::Req(Q::List("".into()))],
    });
    // empty names and names with dots: prefix handling of extract_name
    let mut e = fd("", Some(""), 6);
    let mut em = m("");
    em.field.push(fld("x"));
    em.nested_type.push(m("a.b"));
    e.message_type.push(em);
    e.service.push(svc("", &[""]));
    v.push(CaseIn {
        ops: vec![Op::Set(FileDescriptorSet { file: vec![e] })],
        queries: {
            let mut q = syms(&["", "x", ".x", "a.b", ".a.b", "."]);
            q.extend([Q::File("".into()), Q::List(String::new())]);
            q
        },
        script: vec![],
    });
    // the two name spaces: a FILE named like a symbol (p.q.M) that does not declare it, the symbol
    // p.q.M declared by another file, a SYMBOL spelled like a file name (package a, message proto)
    let mut n1 = fd("p.q.M", Some("p.q"), 8);
    n1.message_type.push(m("X"));
    let mut n2 = fd("x.proto", Some("p.q"), 9);
    n2.message_type.push(m("M"));
    let mut n3 = fd("y.proto", Some("a"), 10);
    n3.message_type.push(m("proto"));
    v.push(CaseIn {
        ops: vec![Op::Set(FileDescriptorSet { file: vec![n1, n2] }), Op::Enc(FileDescriptorSet { file: vec![n3] }.encode_to_vec()), Op::Include(false)],
        queries: {
            let mut q = syms(&["p.q.M", "p.q.X", "x.proto", "y.proto", "a.proto"]);
            q.extend([
                Q::File("p.q.M".into()),
                Q::File("x.proto".into()),
                Q::File("p.q.X".into()),
                Q::File("a.proto".into()),
                Q::File("y.proto".into()),
                Q::List(String::new()),
            ]);
            q
        },
        script: vec![Sev::Req(Q::Sym("x.proto".into())), Sev::Req(Q::List(String::new()))],
    });
    // an enum value whose protobuf-scoped name (p.A) is also the name of a message of ANOTHER file:
    // p.A must resolve to the message's file, p.E.A to the enum's file
    let mut v1 = fd("v1.proto", Some("p"), 11);
    v1.enum_type.push(en("E", &["A"]));
    let mut v2 = fd("v2.proto", Some("p"), 12);
    v2.message_type.push(m("A"));
    v.push(CaseIn {
        ops: vec![Op::Set(FileDescriptorSet { file: vec![v1, v2] }), Op::Include(false)],
        queries: {
            let mut q = syms(&["p.E.A", "p.A", "p.E", "p.E.B"]);
            q.extend([Q::File("v1.proto".into()), Q::File("v2.proto".into()), Q::AllExt("p.A".into()), Q::AllExt("p.Nope".into()), Q::AllExt("".into())]);
            q
        },
        script: vec![
            Sev::Req(Q::Sym("p.E.A".into())),
            Sev::Req(Q::AllExt("p.Nope".into())),
            Sev::Req(Q::File("v2.proto".into())),
            Sev::Req(Q::Ext("p.A".into(), 1)),
            Sev::Req(Q::List(String::new())),
        ],
    });
    v
}

// ------------------------------------------------------------------ one case
fn run_case(rt: &tokio::runtime::Runtime, out: &mut Out, kind: &str, c: CaseIn, input: serde_json::Value, notes: &mut Notes) {
    let (o1, o2) = rt.block_on(async {
        let a = ver1::run(make_builder(&c), &c.queries, &c.script).await;
        let b = ver1alpha::run(make_builder(&c), &c.queries, &c.script).await;
        (a, b)
    });
    let reg = registered_of(&c);
    let mut oracle = oracle_version("v1", &reg, &ver1::own_fds(), &c.queries, &o1, notes);
    if oracle.is_none() {
        oracle = oracle_version("v1alpha", &reg, &ver1alpha::own_fds(), &c.queries, &o2, notes);
    }
    if oracle.is_none() {
        oracle = oracle_cross(&reg, &c.queries, &c.script, &o1, &o2);
    }
    if oracle.is_none() {
        oracle = oracle_script("v1", &c.queries, &c.script, &o1);
    }
    if oracle.is_none() {
        oracle = oracle_script("v1alpha", &c.queries, &c.script, &o2);
    }
    if OTHER_PANICS.swap(0, Ordering::SeqCst) != 0 && oracle.is_none() {
        oracle = Some("a panic other than the modelled send failure".into());
    }
    let model = format!(
        "obs_case own_v1 own_v1alpha {} {} {}",
        coq_list(&c.ops, coq_op),
        coq_indexed(&c.queries, |i, q| format!("({}, {})", coq_name(qhost(i)), coq_q(q))),
        coq_indexed(&c.script, coq_sev)
    );
    let built = matches!(o1, VerObs::Built { .. });
    out.hist("build", if built { "ok".to_string() } else { format!("{:?}", o1).chars().take(70).collect() });
    if let VerObs::Built { per_query, script } = &o1 {
        for (q, so) in c.queries.iter().zip(per_query) {
            let what = match (q, so.answers.first()) {
                (Q::Sym(_), Some(Ans::Fd(_))) => "symbol found",
                (Q::Sym(_), _) => "symbol NOT_FOUND",
                (Q::File(_), Some(Ans::Fd(_))) => "file found",
                (Q::File(_), _) => "file NOT_FOUND",
                _ => "other request",
            };
            out.hist("answers(v1)", what);
        }
        out.hist("script_panicked(v1)", script.panicked);
    }
    let n_found = match &o1 {
        VerObs::Built { per_query, .. } => per_query.iter().filter(|s| matches!(s.answers.first(), Some(Ans::Fd(_)))).count(),
        _ => 0,
    };
    out.push(Case {
        kind: kind.into(),
        input,
        model,
        impl_obs: Tr::L(vec![ver_tr(&o1), ver_tr(&o2)]),
        oracle,
        nontrivial: n_found >= 3,
    });
}

fn describe(c: &CaseIn) -> serde_json::Value {
    json!({
        "ops": c.ops.iter().map(|o| match o {
            Op::Set(s) => json!({"register_file_descriptor_set": hex(&s.encode_to_vec()), "files": s.file.iter().map(|f| f.name.clone()).collect::<Vec<_>>()}),
            Op::Enc(e) => json!({"register_encoded_file_descriptor_set": hex(e)}),
            Op::Include(i) => json!({"include_reflection_service": i}),
            Op::Name(n) => json!({"with_service_name": n}),
        }).collect::<Vec<_>>(),
        "queries": c.queries.iter().map(|q| format!("{:?}", q)).collect::<Vec<_>>(),
        "script": c.script.iter().map(|q| format!("{:?}", q)).collect::<Vec<_>>(),
    })
}

fn main() {
    let a = args();
    std::panic::set_hook(Box::new(|info| {
        let msg = info
            .payload()
            .downcast_ref::<String>()
            .cloned()
            .or_else(|| info.payload().downcast_ref::<&str>().map(|s| s.to_string()))
            .unwrap_or_default();
        let in_reflection = info.location().map_or(false, |l| l.file().contains("tonic-reflection"));
        if msg.starts_with("send") && in_reflection {
            SEND_PANICS.fetch_add(1, Ordering::SeqCst);
        } else {
            OTHER_PANICS.fetch_add(1, Ordering::SeqCst);
            eprintln!("panic: {} at {:?}", msg, info.location());
        }
    }));
    let rt = tokio::runtime::Builder::new_current_thread().enable_time().build().unwrap();
    let mut out = Out::new(&a.out);
    let mut notes = Notes::default();
    let own1 = ver1::own_fds();
    let own2 = ver1alpha::own_fds();
    let own_coq = (coq_fds(&own1), coq_fds(&own2));
    let imports = format!(
        "From Verif Require Import Lib.Bytes Lib.Obs Model.Reflection.\nFrom Coq Require Import String List NArith.\nImport ListNotations.\nOpen Scope N_scope.\n(* tonic-reflection's own descriptor sets, decoded from the crate's FILE_DESCRIPTOR_SET constants by this run *)\nDefinition own_v1 : fds := {}.\nDefinition own_v1alpha : fds := {}.",
        own_coq.0, own_coq.1
    );

    // replay of one stored case
    let replay: Option<serde_json::Value> =
        a.replay.as_ref().map(|p| serde_json::from_str(&std::fs::read_to_string(p).expect("replay file")).expect("replay json"));
    let want = replay.as_ref().map(|v| v["input"]["case"].clone());

    let cases = corpus();
    for (i, c) in cases.into_iter().enumerate() {
        let id = json!({"corpus": i});
        if want.as_ref().map_or(false, |w| *w != id) {
            continue;
        }
        let input = json!({"case": id, "descr": describe(&c)});
        run_case(&rt, &mut out, "corpus.descriptor_set", c, input, &mut notes);
    }
    let mut r = Rng::new(a.seed);
    let plan: &[(Mode, u64, u64)] = &[
        // (focus, quick, thorough)
        (Mode::General, 1000, 5000),
        (Mode::UnknownFields, 150, 800),
        (Mode::AllNames, 100, 500),
        (Mode::Namespace, 150, 800),
        (Mode::Extensions, 150, 800),
    ];
    for (focus, quick, thorough) in plan {
        let n = if a.thorough { *thorough } else { *quick } * a.scale;
        for _ in 0..n {
            let seed = r.next();
            let id = json!({"seed": seed.to_string(), "focus": focus.kind()});
            if want.as_ref().map_or(false, |w| *w != id) {
                continue;
            }
            let c = gen_case(seed, &mut out, *focus);
            let input = json!({"case": id, "descr": describe(&c)});
            run_case(&rt, &mut out, focus.kind(), c, input, &mut notes);
        }
    }
    // the oracle's own reading of "the names a file declares" against the Coq relation [declares]
    // (as the list declared_names): the theorems and the oracle must talk about the same set
    let n_spec = if a.thorough { 1500 } else { 300 } * a.scale;
    for _ in 0..n_spec {
        let seed = r.next();
        let id = json!({"spec": seed.to_string()});
        if want.as_ref().map_or(false, |w| *w != id) {
            continue;
        }
        let mut r2 = Rng(seed);
        let mode = r2.below(10);
        let mut g = G { r: r2.fork(), miss: 0, exotic: mode < 3, budget: 0, big: mode == 9, ns: mode == 8, ext_boost: false };
        let f = g.file(Some("s.proto".to_string()));
        let names: Vec<String> = declared(&f).expect("no name is missing").into_iter().map(|d| d.name).collect();
        out.push(Case {
            kind: "spec.declared_names".into(),
            input: json!({"case": id, "file": hex(&f.encode_to_vec())}),
            model: format!("obs_declared {} {}", coq_file(&f), coq_list(&names, |n| coq_name(n))),
            impl_obs: Tr::L(vec![Tr::n(1u8), Tr::n(1u8), Tr::n(names.len() as u64)]),
            oracle: None,
            nontrivial: names.len() >= 3,
        });
    }
    // the strict oracle clauses must actually have been exercised by this run (a generator that
    // stops producing the inputs they need would otherwise pass silently)
    if want.is_none() {
        let floors: &[(&str, u64, u64)] = &[
            ("response envelopes checked", notes.envelopes_checked, 20000),
            ("returned bytes compared with registered bytes", notes.returned_bytes_checked_against_registered_bytes, 10000),
            ("file names asked as symbols", notes.file_name_asked_as_symbol_found + notes.file_name_asked_as_symbol_not_found, 1000),
            ("declared symbols asked as file names", notes.symbol_asked_as_file_name_found + notes.symbol_asked_as_file_name_not_found, 1500),
            ("files judged in full under a file name with two contents", notes.live_content_judged, 50),
            ("enum values resolved under one of their names", notes.enum_value_scoped_found + notes.enum_value_sibling_found, 4000),
            ("extension lookups of declared extensions", notes.declared_extension_lookup_found + notes.declared_extension_lookup_not_found, 1200),
            ("all-extension-numbers requests for unknown types", notes.all_extension_numbers_unknown_type_ok_empty + notes.all_extension_numbers_unknown_type_not_found, 200),
        ];
        let short: Vec<String> = floors.iter().filter(|f| f.1 < f.2).map(|f| format!("{}: {} < {}", f.0, f.1, f.2)).collect();
        out.push(Case {
            kind: "summary.strict_clauses_exercised".into(),
            input: json!({"case": {"summary": true}, "counts": floors.iter().map(|f| json!({"what": f.0, "count": f.1, "floor": f.2})).collect::<Vec<_>>()}),
            model: "Nd [Nn 1]".into(),
            impl_obs: Tr::L(vec![Tr::n(1u8)]),
            oracle: if short.is_empty() { None } else { Some(format!("strict oracle clauses were not exercised often enough by this run: {}", short.join("; "))) },
            nontrivial: false,
        });
    }
    out.finish(
        &imports,
        "kinds: descriptor_set = one random descriptor set (0-5 files; package absent/empty/single/nested; messages nested to depth 4 with fields, oneofs, enums and values; services with methods; every other field of File/Descriptor/Field/Enum/EnumValue/Oneof/Service/Method descriptors filled at random (options with uninterpreted options, source_code_info, extensions, extension and reserved ranges/names, public/weak dependencies, json_name, default_value, ...) and tied as a digest of the full encoding; encoded sets with unknown fields; the same file registered twice; two files under one name; the same symbol in several files; sometimes a missing name or an undecodable set) registered through register_file_descriptor_set / register_encoded_file_descriptor_set / with_service_name / include_reflection_service in random call order, then build_v1 and build_v1alpha each asked (generated clients, in-process, one stream per request, request hosts varied) for the declared names (all of them if at most 48, else a sample of 48), mutated and unknown names, every file name, file names as symbols and declared names as file names, ListServices, extension requests, every asked enum value under both naming schemes, plus one scripted multi-request stream through a raw-payload client (malformed request, client drops the response stream); all_names = the same with bigger files and EVERY declared name asked; unknown_fields = every set registered encoded with fields prost-types has no slot for; namespace_collision = file names that are spelled like symbols and symbols spelled like file names; extensions = extension declarations in every scope, requests for each declared (extendee, number), for declared messages without extensions and for unknown types; spec.declared_names = the oracle's own list of the names a random file declares against the Coq list declared_names (= the relation declares of the theorems). Non-trivial = at least 3 descriptors returned (spec: at least 3 names). Distinct = distinct (kind, model expression).",
        json!({
            "oracle_naming_schemes": "every name is scope + '.' + name (no dot after an empty package). Enum values: the oracle accepts BOTH protobuf's own fully-qualified name pkg.VALUE (sibling of the enum) and the enum-scoped pkg.Enum.VALUE; each value must resolve under at least one of the two, and whatever resolves must be a registered file declaring that value. The counts below show which scheme the implementation serves.",
            "enum_value_lookups": {
                "scoped_by_enum(pkg.Enum.VALUE)": {"found": notes.enum_value_scoped_found, "NOT_FOUND": notes.enum_value_scoped_not_found},
                "protobuf_scoping(pkg.VALUE)": {"found": notes.enum_value_sibling_found, "NOT_FOUND": notes.enum_value_sibling_not_found},
                "one_name_NOT_FOUND_and_the_other_resolved_to_a_file_that_declares_the_name_but_not_this_value(name clash across files)": notes.enum_value_other_name_resolved_to_a_clashing_declaration,
            },
            "extension_lookups": {
                "oracle": "the property does not ask for extension lookups: NOT_FOUND/UNIMPLEMENTED or a correct answer are accepted, a wrong file or an undeclared number is not",
                "file_containing_extension_declared": {"found": notes.declared_extension_lookup_found, "NOT_FOUND": notes.declared_extension_lookup_not_found},
                "file_containing_extension_undeclared_NOT_FOUND": notes.undeclared_extension_lookup_not_found,
                "all_extension_numbers_empty_although_declared": notes.all_extension_numbers_declared_but_empty,
                "all_extension_numbers_nonempty": notes.all_extension_numbers_nonempty,
                "all_extension_numbers_of_a_type_no_registered_file_declares": {"OK_with_empty_list(tonic#1077 workaround)": notes.all_extension_numbers_unknown_type_ok_empty, "NOT_FOUND": notes.all_extension_numbers_unknown_type_not_found},
                "extension_field_name_as_symbol": {"found": notes.extension_name_found, "NOT_FOUND": notes.extension_name_not_found},
            },
            "name_space_probes": {
                "registered_file_name_asked_as_symbol(nothing declares that name)": {"found": notes.file_name_asked_as_symbol_found, "NOT_FOUND": notes.file_name_asked_as_symbol_not_found},
                "declared_symbol_asked_as_file_name(no file has that name)": {"found": notes.symbol_asked_as_file_name_found, "NOT_FOUND": notes.symbol_asked_as_file_name_not_found},
            },
            "strict_clauses_exercised": {
                "response_envelopes_checked(valid_host, original_request)": notes.envelopes_checked,
                "returned_bytes_compared_at_wire_level_with_the_registered_bytes": notes.returned_bytes_checked_against_registered_bytes,
                "files_judged_in_full_because_the_service_serves_them_under_a_file_name_with_two_contents": notes.live_content_judged,
                "in_message_ErrorResponse_seen": notes.in_message_error_responses,
            },
            "observations": {
            "file_registered_encoded_with_unknown_fields_is_returned_without_them(prost decode is what is registered)": notes.encoded_with_unknown_fields_returned_without_them,

            "symbol_of_a_file_shadowed_by_an_earlier_file_of_the_same_name_is_NOT_FOUND": notes.shadowed_symbol_not_found,
            "file_name_registered_with_two_contents_returns_only_one": notes.shadowed_file_not_retrievable,
            "symbol_declared_by_several_files_resolved_to_one_of_them": notes.duplicate_symbol_across_files,
            "service_listed_more_than_once": notes.duplicate_service_in_list,
        }}),
    );
}
