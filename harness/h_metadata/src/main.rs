//! C08 correspondence harness: user metadata through the real client / server / Status paths,
//! read back with MetadataMap::from_headers and the typed accessors.
use bytes::{Buf, BufMut, Bytes};
use http::{HeaderMap, HeaderName, HeaderValue};
use http_body_util::BodyExt;
use serde_json::{json, Value};
use std::future::Future;
use std::pin::Pin;
use std::sync::{Arc, Mutex};
use std::task::{Context, Poll};
use tonic::codec::{Codec, CompressionEncoding, DecodeBuf, Decoder, EncodeBuf, Encoder};
use tonic::metadata::{
    Ascii, Binary, Entry, KeyAndMutValueRef, KeyAndValueRef, KeyRef, MetadataKey, MetadataMap, MetadataValue, ValueRef, ValueRefMut,
};
use tonic::{Code, Request, Response, Status};
use vcommon::body::{spin, Ev, ScriptBody};
use vcommon::*;

const IMPORTS: &str =
    "From Verif Require Import Lib.Bytes Lib.Obs Lib.HeaderMap Model.Status Model.Metadata.";

const RESERVED: [&str; 6] = ["te", "user-agent", "content-type", "grpc-message", "grpc-message-type", "grpc-status"];
fn is_reserved(k: &str) -> bool {
    RESERVED.contains(&k)
}

// ------------------------------------------------------------------ independent base64
const B64: &[u8; 64] = b"ABCDEFGHIJKLMNOPQRSTUVWXYZabcdefghijklmnopqrstuvwxyz0123456789+/";
fn b64(data: &[u8], pad: bool) -> Vec<u8> {
    let mut o = vec![];
    for c in data.chunks(3) {
        let n = (c[0] as u32) << 16 | (*c.get(1).unwrap_or(&0) as u32) << 8 | *c.get(2).unwrap_or(&0) as u32;
        o.push(B64[(n >> 18) as usize & 63]);
        o.push(B64[(n >> 12) as usize & 63]);
        if c.len() > 1 {
            o.push(B64[(n >> 6) as usize & 63]);
        } else if pad {
            o.push(b'=');
        }
        if c.len() > 2 {
            o.push(B64[n as usize & 63]);
        } else if pad {
            o.push(b'=');
        }
    }
    o
}

// ------------------------------------------------------------------ observables
fn bin_val_tr(v: &MetadataValue<Binary>) -> Tr {
    Tr::L(vec![
        Tr::b(v.as_encoded_bytes()),
        Tr::opt(v.to_bytes().ok().map(|b| Tr::b(&b))),
        Tr::bool(v.is_empty()),
    ])
}
/// true iff the static type of the value mentions the Binary encoding (the only way to see the
/// `VE` of a MetadataKey<VE> / MetadataValue<VE> / OccupiedEntry<VE> at run time: the
/// ValueEncoding trait is not nameable outside tonic)
fn is_bin_ty<T: ?Sized>(_: &T) -> bool {
    let n = std::any::type_name::<T>();
    assert!(n.contains("Binary") != n.contains("Ascii"), "{}", n);
    n.contains("Binary")
}
/// the `String` and `&String` key impls answer exactly like the `&str` impl
fn string_kinds_agree(md: &MetadataMap, p: &str) -> bool {
    let s: String = p.to_string();
    let enc = |v: Option<&MetadataValue<Ascii>>| v.map(|v| v.as_encoded_bytes().to_vec());
    let encb = |v: Option<&MetadataValue<Binary>>| v.map(|v| v.as_encoded_bytes().to_vec());
    let mut ok = enc(md.get(p)) == enc(md.get(s.clone())) && enc(md.get(p)) == enc(md.get(&s));
    ok &= encb(md.get_bin(p)) == encb(md.get_bin(s.clone())) && encb(md.get_bin(p)) == encb(md.get_bin(&s));
    let all = |g: tonic::metadata::GetAll<'_, Ascii>| g.iter().map(|v| v.as_encoded_bytes().to_vec()).collect::<Vec<_>>();
    let allb = |g: tonic::metadata::GetAll<'_, Binary>| g.iter().map(|v| v.as_encoded_bytes().to_vec()).collect::<Vec<_>>();
    ok &= all(md.get_all(p)) == all(md.get_all(s.clone())) && all(md.get_all(p)) == all(md.get_all(&s));
    ok &= allb(md.get_all_bin(p)) == allb(md.get_all_bin(s.clone())) && allb(md.get_all_bin(p)) == allb(md.get_all_bin(&s));
    ok &= md.contains_key(p) == md.contains_key(s.clone()) && md.contains_key(p) == md.contains_key(&s);
    let (mut m1, mut m2, mut m3) = (md.clone(), md.clone(), md.clone());
    ok &= m1.get_mut(p).is_some() == m2.get_mut(s.clone()).is_some() && m1.get_mut(p).is_some() == m3.get_mut(&s).is_some();
    ok &= m1.get_bin_mut(p).is_some() == m2.get_bin_mut(s.clone()).is_some() && m1.get_bin_mut(p).is_some() == m3.get_bin_mut(&s).is_some();
    let st = |e: Result<Entry<'_, Ascii>, tonic::metadata::errors::InvalidMetadataKey>| match e {
        Err(_) => (0, String::new()),
        Ok(Entry::Vacant(v)) => (1, v.key().as_str().to_string()),
        Ok(Entry::Occupied(o)) => (2, o.key().as_str().to_string()),
    };
    let stb = |e: Result<Entry<'_, Binary>, tonic::metadata::errors::InvalidMetadataKey>| match e {
        Err(_) => (0, String::new()),
        Ok(Entry::Vacant(v)) => (1, v.key().as_str().to_string()),
        Ok(Entry::Occupied(o)) => (2, o.key().as_str().to_string()),
    };
    let e1 = st(m1.entry(p));
    ok &= e1 == st(m2.entry(s.clone())) && e1 == st(m3.entry(&s));
    let b1 = stb(m1.entry_bin(p));
    ok &= b1 == stb(m2.entry_bin(s.clone())) && b1 == stb(m3.entry_bin(&s));
    let r1 = enc(m1.remove(p).as_ref());
    ok &= r1 == enc(m2.remove(s.clone()).as_ref()) && r1 == enc(m3.remove(&s).as_ref());
    let (mut m1, mut m2, mut m3) = (md.clone(), md.clone(), md.clone());
    let r1 = encb(m1.remove_bin(p).as_ref());
    ok &= r1 == encb(m2.remove_bin(s.clone()).as_ref()) && r1 == encb(m3.remove_bin(&s).as_ref());
    ok && m1.into_headers() == m2.into_headers()
}
fn probe_tr(md: &MetadataMap, p: &str) -> Tr {
    let mut m = md.clone();
    let gm = m.get_mut(p).map(|v| Tr::b(v.as_encoded_bytes()));
    let gbm = m.get_bin_mut(p).map(|v| bin_val_tr(v));
    Tr::L(vec![
        Tr::opt(md.get(p).map(|v| Tr::b(v.as_encoded_bytes()))),
        Tr::opt(md.get_bin(p).map(bin_val_tr)),
        Tr::L(md.get_all(p).iter().map(|v| Tr::b(v.as_encoded_bytes())).collect()),
        Tr::L(md.get_all_bin(p).iter().map(bin_val_tr).collect()),
        Tr::bool(md.contains_key(p)),
        Tr::opt(gm),
        Tr::opt(gbm),
        Tr::bool(string_kinds_agree(md, p)),
    ])
}
fn split_pairs(items: Vec<(bool, String, Vec<u8>)>) -> (HeaderMap, HeaderMap) {
    let (mut a, mut b) = (HeaderMap::new(), HeaderMap::new());
    for (bin, k, v) in items {
        // a name with a double quote exists only through from_static
        let k = HeaderName::from_bytes(k.as_bytes()).unwrap_or_else(|_| HeaderName::from_static(leak(&k)));
        let v = HeaderValue::from_bytes(&v).unwrap();
        if bin {
            b.append(k, v);
        } else {
            a.append(k, v);
        }
    }
    (a, b)
}
fn iter_split(md: &MetadataMap) -> (HeaderMap, HeaderMap) {
    split_pairs(
        md.iter()
            .map(|kv| match kv {
                KeyAndValueRef::Ascii(k, v) => (is_bin_ty(k) || is_bin_ty(v), k.as_str().to_string(), v.as_encoded_bytes().to_vec()),
                KeyAndValueRef::Binary(k, v) => (is_bin_ty(k) && is_bin_ty(v), k.as_str().to_string(), v.as_encoded_bytes().to_vec()),
            })
            .collect(),
    )
}
fn iter_mut_split(md: &MetadataMap) -> (HeaderMap, HeaderMap) {
    let mut m = md.clone();
    split_pairs(
        m.iter_mut()
            .map(|kv| match kv {
                KeyAndMutValueRef::Ascii(k, v) => (false, k.as_str().to_string(), v.as_encoded_bytes().to_vec()),
                KeyAndMutValueRef::Binary(k, v) => (true, k.as_str().to_string(), v.as_encoded_bytes().to_vec()),
            })
            .collect(),
    )
}
/// (ASCII-tagged items, binary-tagged items), each sorted
type Tagged = (Vec<Vec<u8>>, Vec<Vec<u8>>);
fn tagged(items: Vec<(bool, Vec<u8>)>) -> Tagged {
    let mut a: Vec<Vec<u8>> = items.iter().filter(|x| !x.0).map(|x| x.1.clone()).collect();
    let mut b: Vec<Vec<u8>> = items.iter().filter(|x| x.0).map(|x| x.1.clone()).collect();
    a.sort();
    b.sort();
    (a, b)
}
fn tagged_tr(t: &Tagged) -> Tr {
    Tr::L(vec![Tr::L(t.0.iter().map(|x| Tr::b(x)).collect()), Tr::L(t.1.iter().map(|x| Tr::b(x)).collect())])
}
fn keys_tagged(md: &MetadataMap) -> Tagged {
    tagged(
        md.keys()
            .map(|k| match k {
                KeyRef::Ascii(k) => (false, k.as_str().as_bytes().to_vec()),
                KeyRef::Binary(k) => (true, k.as_str().as_bytes().to_vec()),
            })
            .collect(),
    )
}
fn values_tagged(md: &MetadataMap) -> Tagged {
    tagged(
        md.values()
            .map(|v| match v {
                ValueRef::Ascii(v) => (false, v.as_encoded_bytes().to_vec()),
                ValueRef::Binary(v) => (true, v.as_encoded_bytes().to_vec()),
            })
            .collect(),
    )
}
fn values_mut_tagged(md: &MetadataMap) -> Tagged {
    let mut m = md.clone();
    tagged(
        m.values_mut()
            .map(|v| match v {
                ValueRefMut::Ascii(v) => (false, v.as_encoded_bytes().to_vec()),
                ValueRefMut::Binary(v) => (true, v.as_encoded_bytes().to_vec()),
            })
            .collect(),
    )
}
fn read_tr(h: &HeaderMap, probes: &[String]) -> Tr {
    let md = MetadataMap::from_headers(h.clone());
    let (a, b) = iter_split(&md);
    let (am, bm) = iter_mut_split(&md);
    Tr::L(vec![
        hm_tr(&md.clone().into_headers()),
        Tr::L(vec![hm_tr(&a), hm_tr(&b)]),
        Tr::L(vec![hm_tr(&am), hm_tr(&bm)]),
        tagged_tr(&keys_tagged(&md)),
        tagged_tr(&values_tagged(&md)),
        tagged_tr(&values_mut_tagged(&md)),
        Tr::L(probes.iter().map(|p| probe_tr(&md, p)).collect()),
    ])
}
fn coq_probes(p: &[String]) -> String {
    coq_list(p, |s| coq_bytes(s.as_bytes()))
}
fn coq_optv(v: Option<&str>) -> String {
    match v {
        None => "None".into(),
        Some(s) => format!("(Some {})", coq_bytes(s.as_bytes())),
    }
}
fn status_coq(code: u32, msg: &str, details: &[u8], md: &HeaderMap) -> String {
    format!("(mkStatus {} {} {} {})", code, coq_bytes(msg.as_bytes()), coq_bytes(details), coq_hm(md))
}

// ------------------------------------------------------------------ direct oracles
/// typed reading of a received header map: accessors and iter are typed by the suffix, every
/// entry is presented once
fn oracle_typed(h: &HeaderMap) -> Option<String> {
    let md = MetadataMap::from_headers(h.clone());
    let (a, b) = iter_split(&md);
    if a.len() + b.len() != h.len() {
        return Some(format!("iter yields {} entries of {}", a.len() + b.len(), h.len()));
    }
    if iter_mut_split(&md) != (a.clone(), b.clone()) {
        return Some("iter_mut does not present the entries like iter".to_string());
    }
    // keys: every name once, typed by its suffix
    let mut want_k: Tagged = (vec![], vec![]);
    let mut want_v: Tagged = (vec![], vec![]);
    for k in h.keys() {
        let bin = k.as_str().ends_with("-bin");
        let slot_k = if bin { &mut want_k.1 } else { &mut want_k.0 };
        slot_k.push(k.as_str().as_bytes().to_vec());
        let slot_v = if bin { &mut want_v.1 } else { &mut want_v.0 };
        for v in h.get_all(k) {
            slot_v.push(v.as_bytes().to_vec());
        }
    }
    want_k.0.sort();
    want_k.1.sort();
    want_v.0.sort();
    want_v.1.sort();
    if keys_tagged(&md) != want_k {
        return Some("keys() does not yield every name once with the type of its suffix".to_string());
    }
    if values_tagged(&md) != want_v {
        return Some("values() does not yield every value once with the type of its name's suffix".to_string());
    }
    if values_mut_tagged(&md) != want_v {
        return Some("values_mut() does not yield every value once with the type of its name's suffix".to_string());
    }
    for k in h.keys() {
        let ks = k.as_str();
        if ks.contains('"') {
            // not a header name (premise of c08_static_key_is_from_bytes): crate http's from_static lets a
            // double quote through, its from_bytes / string lookups do not, so such an entry is only
            // reachable through iter / a typed key; modelled (hn_norm fails), not judged
            continue;
        }
        let bin = ks.ends_with("-bin");
        let all: Vec<&[u8]> = h.get_all(k).iter().map(|v| v.as_bytes()).collect();
        let ia: Vec<&[u8]> = a.get_all(k).iter().map(|v| v.as_bytes()).collect();
        let ib: Vec<&[u8]> = b.get_all(k).iter().map(|v| v.as_bytes()).collect();
        let mut m = md.clone();
        if !string_kinds_agree(&md, ks) || !string_kinds_agree(&md, &ks.to_ascii_uppercase()) {
            return Some(format!("String / &String keys do not behave like &str for {}", ks));
        }
        if bin {
            if md.get(ks).is_some() || md.get_all(ks).iter().next().is_some() || !ia.is_empty() || m.get_mut(ks).is_some() {
                return Some(format!("binary entry presented as ASCII: {}", ks));
            }
            if m.entry(ks).is_ok() || m.entry(ks.to_ascii_uppercase()).is_ok() {
                return Some(format!("ASCII entry handle on the binary name {}", ks));
            }
            let got: Vec<&[u8]> = md.get_all_bin(ks).iter().map(|v| v.as_encoded_bytes()).collect();
            if got != all || ib != all || md.get_bin(ks).map(|v| v.as_encoded_bytes()) != all.first().copied() {
                return Some(format!("binary accessors do not return the entries of {}", ks));
            }
            if m.get_bin_mut(ks).map(|v| v.as_encoded_bytes().to_vec()) != all.first().map(|v| v.to_vec()) {
                return Some(format!("get_bin_mut does not return the first entry of {}", ks));
            }
            match m.entry_bin(ks) {
                Ok(Entry::Occupied(o)) if is_bin_ty(&o) && is_bin_ty(o.key()) && is_bin_ty(o.get()) => {
                    if o.iter().map(|v| v.as_encoded_bytes()).collect::<Vec<_>>() != all {
                        return Some(format!("entry_bin handle does not show the entries of {}", ks));
                    }
                }
                _ => return Some(format!("entry_bin does not give a binary occupied handle on {}", ks)),
            }
        } else {
            if md.get_bin(ks).is_some() || md.get_all_bin(ks).iter().next().is_some() || !ib.is_empty() || m.get_bin_mut(ks).is_some() {
                return Some(format!("ASCII entry presented as binary: {}", ks));
            }
            if m.entry_bin(ks).is_ok() {
                return Some(format!("binary entry handle on the ASCII name {}", ks));
            }
            let got: Vec<&[u8]> = md.get_all(ks).iter().map(|v| v.as_encoded_bytes()).collect();
            if got != all || ia != all || md.get(ks).map(|v| v.as_encoded_bytes()) != all.first().copied() {
                return Some(format!("ASCII accessors do not return the entries of {}", ks));
            }
            if m.get_mut(ks).map(|v| v.as_encoded_bytes().to_vec()) != all.first().map(|v| v.to_vec()) {
                return Some(format!("get_mut does not return the first entry of {}", ks));
            }
            match m.entry(ks) {
                Ok(Entry::Occupied(o)) if !is_bin_ty(&o) && !is_bin_ty(o.key()) && !is_bin_ty(o.get()) => {
                    if o.iter().map(|v| v.as_encoded_bytes()).collect::<Vec<_>>() != all {
                        return Some(format!("entry handle does not show the entries of {}", ks));
                    }
                }
                _ => return Some(format!("entry does not give an ASCII occupied handle on {}", ks)),
            }
        }
    }
    None
}
/// `sent` = the user's metadata, `recv` = what the peer got, `own` = the headers tonic writes
/// itself on this path (name -> exact values); `raw` = the bytes behind the binary values
/// `excl` = the non-reserved protocol names whose user entries the theorem of this path does
/// not cover (exactly its premises: c08_md_wire_roundtrip_{client,server,status}); for those the
/// oracle checks instead that the wire carries tonic's own value (`own`).
fn oracle_wire(sent: &HeaderMap, recv: &HeaderMap, own: &[(&str, Vec<Vec<u8>>)], excl: &[&str], raw: &RawBin) -> Option<String> {
    let own_of = |k: &str| own.iter().find(|(n, _)| *n == k).map(|(_, v)| v.clone());
    for e in excl {
        if is_reserved(e) || own_of(e).is_none() {
            return Some(format!("harness: excluded name {} is not a protocol header tonic writes here", e));
        }
    }
    for k in sent.keys() {
        let ks = k.as_str();
        if is_reserved(ks) || excl.contains(&ks) {
            continue;
        }
        if own_of(ks).is_some() {
            return Some(format!("user metadata {} is overwritten by a protocol header outside the stated premises", ks));
        }
        let a: Vec<&[u8]> = sent.get_all(k).iter().map(|v| v.as_bytes()).collect();
        let c: Vec<&[u8]> = recv.get_all(k).iter().map(|v| v.as_bytes()).collect();
        if a != c {
            return Some(format!("metadata {} did not arrive intact", ks));
        }
        if ks.ends_with("-bin") {
            if let Some(want) = raw.get(ks) {
                let md = MetadataMap::from_headers(recv.clone());
                let got: Vec<Option<Vec<u8>>> =
                    md.get_all_bin(ks).iter().map(|v| v.to_bytes().ok().map(|b| b.to_vec())).collect();
                let want: Vec<Option<Vec<u8>>> = want.iter().cloned().map(Some).collect();
                if got != want {
                    return Some(format!("binary metadata {} does not decode to the original bytes", ks));
                }
            }
        }
    }
    for r in RESERVED {
        let want = own_of(r).unwrap_or_default();
        let got: Vec<Vec<u8>> = recv.get_all(r).iter().map(|v| v.as_bytes().to_vec()).collect();
        if got != want {
            return Some(format!("reserved header {} emitted with a value that is not tonic's own", r));
        }
    }
    for (n, want) in own {
        let got: Vec<Vec<u8>> = recv.get_all(*n).iter().map(|v| v.as_bytes().to_vec()).collect();
        if &got != want {
            return Some(format!("protocol header {} is not what tonic sets on this path", n));
        }
    }
    for k in recv.keys() {
        if !sent.contains_key(k) && own_of(k.as_str()).is_none() {
            return Some(format!("header {} appeared", k));
        }
    }
    oracle_typed(recv)
}

// ------------------------------------------------------------------ generators
type RawBin = std::collections::BTreeMap<String, Vec<Vec<u8>>>;

const ASCII_KEYS: &[&str] = &[
    "x-a", "x-b", "x-trace-id", "authorization", "a", "x-bin-x", "xbin", "bin", "x-binary", "x!#$%&'*+.^_`|~z",
    "te", "user-agent", "content-type", "grpc-message", "grpc-message-type", "grpc-status",
    "grpc-timeout", "grpc-encoding", "grpc-accept-encoding", "grpc-previous-rpc-attempts", "content-length", "tE",
    // standard HTTP names: none of them is reserved by gRPC, all must cross like any custom entry
    "connection", "transfer-encoding", "upgrade", "keep-alive", "host", "accept", "accept-encoding", "accept-language",
    "cookie", "set-cookie", "x-forwarded-for", "via", "trailer", "date", "expect", "range", "referer", "origin",
    "proxy-authorization", "cache-control", "content-encoding", "content-language", "location", "server", "warning",
    "Connection", "Keep-Alive", "Transfer-Encoding",
    "X-A", "X-Trace-Id", "Content-Type", "GRPC-STATUS", "User-Agent",
];
const BIN_KEYS: &[&str] = &[
    "x-payload-bin", "x-other-bin", "-bin", "x-bin", "te-bin", "grpc-status-details-bin", "grpc-trace-bin",
    "content-type-bin", "X-Payload-Bin", "x-other-BIN", "X-BIN", "grpc-status-bin",
];
fn gen_ascii_value(r: &mut Rng) -> Vec<u8> {
    let n = match r.below(8) {
        0 => 0,
        1..=5 => r.range(1, 6),
        _ => r.range(7, 20),
    } as usize;
    (0..n)
        .map(|_| match r.below(12) {
            0 => b' ',
            1 => b'\t',
            2 => r.range(0x80, 0xff) as u8,
            3 => *r.pick(b"=,;:%\"~"),
            _ => r.range(0x21, 0x7e) as u8,
        })
        .collect()
}
fn gen_bin_value(r: &mut Rng) -> Vec<u8> {
    let n = match r.below(10) {
        0 => 0,
        1..=7 => r.range(1, 7),
        8 => r.range(8, 24),
        _ => r.range(30, 70),
    } as usize;
    match r.below(6) {
        0 => vec![0u8; n],
        1 => vec![0xffu8; n],
        _ => r.bytes(n),
    }
}
/// one mutation through the public API; mirrors Model/Metadata.v apply_op
#[derive(Clone, Debug)]
struct Op {
    t: u8,
    key: String,
    val: Vec<u8>,
}
fn gen_ops(r: &mut Rng, allow_remove: bool) -> Vec<Op> {
    let n = match r.below(8) {
        0 => 0,
        1..=4 => r.range(1, 4),
        _ => r.range(5, 9),
    };
    let mut ops = vec![];
    for _ in 0..n {
        let t = match r.below(if allow_remove { 12 } else { 10 }) {
            0 => 0,
            1..=4 => 1,
            5 => 2,
            6..=9 => 3,
            10 => 4,
            _ => 5,
        } as u8;
        // mostly the right kind of key, sometimes the wrong kind or an invalid name
        let key: String = match r.below(20) {
            0 => (*r.pick(&["", "x a", "x\u{e9}", "x:y", "a\n", "(x)", "x-bin "])).to_string(),
            1 => (*r.pick(if t == 2 || t == 3 || t == 5 { ASCII_KEYS } else { BIN_KEYS })).to_string(),
            _ if !ops.is_empty() && r.chance(1, 4) => {
                let o: &Op = r.pick(&ops);
                o.key.clone()
            }
            _ => (*r.pick(if t == 2 || t == 3 || t == 5 { BIN_KEYS } else { ASCII_KEYS })).to_string(),
        };
        let val = match t {
            0 | 1 => {
                if r.chance(1, 25) {
                    vec![b'a', *r.pick(&[0u8, 10, 13, 127, 31]), b'b']
                } else {
                    gen_ascii_value(r)
                }
            }
            2 | 3 => gen_bin_value(r),
            _ => vec![],
        };
        ops.push(Op { t, key, val });
    }
    ops
}
fn apply_ops(ops: &[Op]) -> (MetadataMap, RawBin) {
    let mut m = MetadataMap::new();
    let mut raw: RawBin = Default::default();
    for o in ops {
        match o.t {
            0 | 1 => {
                let k = MetadataKey::<Ascii>::from_bytes(o.key.as_bytes());
                let v = MetadataValue::<Ascii>::try_from(&o.val[..]);
                if let (Ok(k), Ok(v)) = (k, v) {
                    if o.t == 0 {
                        m.insert(k, v);
                    } else {
                        m.append(k, v);
                    }
                }
            }
            2 | 3 => {
                if let Ok(k) = MetadataKey::<Binary>::from_bytes(o.key.as_bytes()) {
                    let v = MetadataValue::<Binary>::from_bytes(&o.val);
                    let e = raw.entry(k.as_str().to_string()).or_default();
                    if o.t == 2 {
                        e.clear();
                        m.insert_bin(k, v);
                    } else {
                        m.append_bin(k, v);
                    }
                    e.push(o.val.clone());
                }
            }
            4 => {
                m.remove(o.key.as_str());
                if !o.key.to_ascii_lowercase().ends_with("-bin") {
                    raw.remove(&o.key.to_ascii_lowercase());
                }
            }
            _ => {
                m.remove_bin(o.key.as_str());
                if o.key.to_ascii_lowercase().ends_with("-bin") {
                    raw.remove(&o.key.to_ascii_lowercase());
                }
            }
        }
    }
    (m, raw)
}
fn coq_ops(ops: &[Op]) -> String {
    coq_list(ops, |o| format!("({},({},{}))", o.t, coq_bytes(o.key.as_bytes()), coq_bytes(&o.val)))
}
fn ops_json(ops: &[Op]) -> Value {
    Value::Array(ops.iter().map(|o| json!([o.t, hex(o.key.as_bytes()), hex(&o.val)])).collect())
}
fn flip_case(r: &mut Rng, s: &str) -> String {
    s.chars()
        .map(|c| if r.chance(1, 2) { c.to_ascii_uppercase() } else { c.to_ascii_lowercase() })
        .collect()
}
fn gen_probes(r: &mut Rng, h: &HeaderMap, n: usize) -> Vec<String> {
    let keys: Vec<String> = h.keys().map(|k| k.as_str().to_string()).collect();
    let mut p = vec![];
    for _ in 0..n {
        let s = match r.below(10) {
            0..=3 if !keys.is_empty() => r.pick(&keys).clone(),
            4 | 5 if !keys.is_empty() => {
                let k = r.pick(&keys).clone();
                flip_case(r, &k)
            }
            6 => (*r.pick(&RESERVED)).to_string(),
            7 => (*r.pick(BIN_KEYS)).to_string(),
            8 => (*r.pick(ASCII_KEYS)).to_string(),
            _ => (*r.pick(&["", "no such key", "x\u{e9}-bin", "-BIN", "-bin", "bin", "x-a-bi", "X-A-BIN", "a:b"])).to_string(),
        };
        p.push(s);
    }
    p
}
fn gen_message(r: &mut Rng) -> String {
    let pieces: &[&str] = &["a", "Z", " ", "%", "\"", "\u{7f}", "\n", "é", "€", "😀", "%41", ":", "~"];
    let n = match r.below(6) {
        0 | 1 => 0,
        _ => r.range(1, 8),
    };
    (0..n).map(|_| *r.pick(pieces)).collect()
}
fn gen_details(r: &mut Rng) -> Vec<u8> {
    let n = match r.below(6) {
        0..=2 => 0,
        _ => r.range(1, 9),
    } as usize;
    r.bytes(n)
}
fn hist_md(out: &mut Out, name: &str, h: &HeaderMap, raw: &RawBin) {
    out.hist(&format!("{}.entries", name), match h.len() { 0 => "0", 1..=3 => "1-3", _ => ">3" });
    out.hist(&format!("{}.has_reserved", name), h.keys().any(|k| is_reserved(k.as_str())));
    out.hist(&format!("{}.has_repeated_key", name), h.keys().any(|k| h.get_all(k).iter().count() > 1));
    out.hist(&format!("{}.has_binary", name), h.keys().any(|k| k.as_str().ends_with("-bin")));
    for vs in raw.values() {
        for v in vs {
            out.hist("binary.len_mod3", v.len() % 3);
        }
    }
}

// ------------------------------------------------------------------ raw message codec
#[derive(Default, Clone)]
struct RawCodec;
#[derive(Default, Clone)]
struct RawEnc;
#[derive(Default, Clone)]
struct RawDec;
impl Encoder for RawEnc {
    type Item = Vec<u8>;
    type Error = Status;
    fn encode(&mut self, item: Vec<u8>, dst: &mut EncodeBuf<'_>) -> Result<(), Status> {
        dst.put_slice(&item);
        Ok(())
    }
}
impl Decoder for RawDec {
    type Item = Vec<u8>;
    type Error = Status;
    fn decode(&mut self, src: &mut DecodeBuf<'_>) -> Result<Option<Vec<u8>>, Status> {
        let mut v = vec![0u8; src.remaining()];
        src.copy_to_slice(&mut v);
        Ok(Some(v))
    }
}
impl Codec for RawCodec {
    type Encode = Vec<u8>;
    type Decode = Vec<u8>;
    type Encoder = RawEnc;
    type Decoder = RawDec;
    fn encoder(&mut self) -> RawEnc {
        RawEnc
    }
    fn decoder(&mut self) -> RawDec {
        RawDec
    }
}
fn frame(payload: &[u8]) -> Vec<u8> {
    let mut v = vec![0u8];
    v.extend_from_slice(&(payload.len() as u32).to_be_bytes());
    v.extend_from_slice(payload);
    v
}

// ------------------------------------------------------------------ (a) client path
#[derive(Clone)]
struct Capture(Arc<Mutex<Option<HeaderMap>>>);
impl tower_service::Service<http::Request<tonic::body::Body>> for Capture {
    type Response = http::Response<http_body_util::Empty<Bytes>>;
    type Error = std::convert::Infallible;
    type Future = std::future::Ready<Result<Self::Response, Self::Error>>;
    fn poll_ready(&mut self, _: &mut Context<'_>) -> Poll<Result<(), Self::Error>> {
        Poll::Ready(Ok(()))
    }
    fn call(&mut self, req: http::Request<tonic::body::Body>) -> Self::Future {
        *self.0.lock().unwrap() = Some(req.headers().clone());
        let mut res = http::Response::new(http_body_util::Empty::new());
        res.headers_mut().insert("grpc-status", HeaderValue::from_static("0"));
        std::future::ready(Ok(res))
    }
}
fn case_client(out: &mut Out, r: &mut Rng, ops: &[Op], compress: bool, streaming: bool, corpus: bool) {
    let (md, raw) = apply_ops(ops);
    let sent = md.clone().into_headers();
    let slot = Arc::new(Mutex::new(None));
    let mut grpc = tonic::client::Grpc::new(Capture(slot.clone()));
    if compress {
        grpc = grpc.send_compressed(CompressionEncoding::Gzip).accept_compressed(CompressionEncoding::Gzip);
    }
    let (send, accept) = if compress { (Some("gzip"), Some("gzip,identity")) } else { (None, None) };
    let res = catch(std::panic::AssertUnwindSafe(|| {
        let path = http::uri::PathAndQuery::from_static("/pkg.Svc/Method");
        if streaming {
            let mut req = Request::new(tokio_stream::iter(vec![b"a".to_vec(), b"b".to_vec()]));
            *req.metadata_mut() = md.clone();
            let _ = spin(async { grpc.streaming(req, path, RawCodec).await.map(|_| ()) }, 1000);
        } else {
            let mut req = Request::new(b"hello".to_vec());
            *req.metadata_mut() = md.clone();
            let _ = spin(async { grpc.unary(req, path, RawCodec).await.map(|_| ()) }, 1000);
        }
    }));
    let recv = slot.lock().unwrap().take();
    let probes = match &recv {
        Some(h) => gen_probes(r, h, 3),
        None => vec![],
    };
    let (obs, oracle) = match (&res, &recv) {
        (Err(p), _) => (Tr::L(vec![Tr::n(99u8)]), Some(format!("panic: {}", p))),
        (_, None) => (Tr::L(vec![Tr::n(98u8)]), Some("the transport was never called".to_string())),
        (_, Some(h)) => {
            let mut own = vec![("te", vec![b"trailers".to_vec()]), ("content-type", vec![b"application/grpc".to_vec()])];
            if compress {
                own.push(("grpc-encoding", vec![b"gzip".to_vec()]));
                own.push(("grpc-accept-encoding", vec![b"gzip,identity".to_vec()]));
            }
            {
                let excl: &[&str] = if compress { &["grpc-encoding", "grpc-accept-encoding"] } else { &[] };
                (read_tr(h, &probes), oracle_wire(&sent, h, &own, excl, &raw))
            }
        }
    };
    hist_md(out, "client", &sent, &raw);
    out.hist("client.compression", compress);
    out.push(Case {
        kind: if corpus { "corpus.client".into() } else { "client".into() },
        input: json!({"ops": ops_json(ops), "compress": compress, "streaming": streaming, "probes": probes}),
        model: format!("obs_client {} {} {} {}", coq_optv(send), coq_optv(accept), coq_hm(&sent), coq_probes(&probes)),
        impl_obs: obs,
        oracle,
        nontrivial: !sent.is_empty(),
    });
}

// ------------------------------------------------------------------ (b) server paths
#[derive(Clone)]
struct Handler {
    reply: Arc<Mutex<Option<Result<(MetadataMap, Vec<Result<Vec<u8>, Status>>), Status>>>>,
    seen: Arc<Mutex<Option<MetadataMap>>>,
}
impl tonic::server::UnaryService<Vec<u8>> for Handler {
    type Response = Vec<u8>;
    type Future = Pin<Box<dyn Future<Output = Result<Response<Vec<u8>>, Status>> + Send>>;
    fn call(&mut self, request: Request<Vec<u8>>) -> Self::Future {
        *self.seen.lock().unwrap() = Some(request.metadata().clone());
        let reply = self.reply.lock().unwrap().take().unwrap();
        Box::pin(async move {
            reply.map(|(md, mut items)| {
                let mut res = Response::new(items.remove(0).unwrap());
                *res.metadata_mut() = md;
                res
            })
        })
    }
}
type ItemStream = tokio_stream::Iter<std::vec::IntoIter<Result<Vec<u8>, Status>>>;
impl tonic::server::ServerStreamingService<Vec<u8>> for Handler {
    type Response = Vec<u8>;
    type ResponseStream = ItemStream;
    type Future = Pin<Box<dyn Future<Output = Result<Response<ItemStream>, Status>> + Send>>;
    fn call(&mut self, request: Request<Vec<u8>>) -> Self::Future {
        *self.seen.lock().unwrap() = Some(request.metadata().clone());
        let reply = self.reply.lock().unwrap().take().unwrap();
        Box::pin(async move {
            reply.map(|(md, items)| {
                let mut res = Response::new(tokio_stream::iter(items));
                *res.metadata_mut() = md;
                res
            })
        })
    }
}
struct ServerOut {
    status: u16,
    headers: HeaderMap,
    data: Vec<u8>,
    trailers: Option<HeaderMap>,
    seen: Option<MetadataMap>,
}
fn run_server(
    req_headers: HeaderMap,
    reply: Result<(MetadataMap, Vec<Result<Vec<u8>, Status>>), Status>,
    streaming: bool,
    compress: bool,
    req_trailers: Option<HeaderMap>,
) -> Result<ServerOut, String> {
    let h = Handler { reply: Arc::new(Mutex::new(Some(reply))), seen: Arc::new(Mutex::new(None)) };
    let seen = h.seen.clone();
    catch(std::panic::AssertUnwindSafe(move || {
        let mut evs = vec![Ev::Data(frame(b"req"))];
        if let Some(t) = req_trailers {
            evs.push(Ev::Trailers(t));
        }
        let (body, _) = ScriptBody::<Status>::new(evs);
        let mut req = http::Request::new(body);
        *req.method_mut() = http::Method::POST;
        *req.uri_mut() = "/pkg.Svc/Method".parse().unwrap();
        *req.headers_mut() = req_headers;
        let mut grpc = tonic::server::Grpc::new(RawCodec);
        if compress {
            grpc = grpc.send_compressed(CompressionEncoding::Gzip);
        }
        let res = spin(
            async {
                if streaming {
                    grpc.server_streaming(h, req).await
                } else {
                    grpc.unary(h, req).await
                }
            },
            10000,
        )
        .expect("server future hangs");
        let (parts, mut body) = res.into_parts();
        let mut data = vec![];
        let mut trailers = None;
        spin(
            async {
                while let Some(f) = body.frame().await {
                    let f = f.expect("body error");
                    if f.is_data() {
                        data.extend_from_slice(&f.into_data().ok().unwrap());
                    } else if let Ok(t) = f.into_trailers() {
                        trailers = Some(t);
                    }
                }
            },
            10000,
        )
        .expect("body hangs");
        let seen = seen.lock().unwrap().take();
        ServerOut { status: parts.status.as_u16(), headers: parts.headers, data, trailers, seen }
    }))
}
fn own_status(code: u32, msg: &str, details: &[u8], trailers_only: bool) -> Vec<(&'static str, Vec<Vec<u8>>)> {
    let mut own = vec![("grpc-status", vec![code.to_string().into_bytes()])];
    if !msg.is_empty() {
        // independent percent-encoding of the message (gRPC: everything but 0x20..0x7E minus %, and
        // tonic's set additionally escapes space " # < > ? ` { })
        let mut e = vec![];
        for b in msg.bytes() {
            if b < 0x21 || b > 0x7e || b"\"#%<>?`{}".contains(&b) {
                e.extend_from_slice(format!("%{:02X}", b).as_bytes());
            } else {
                e.push(b);
            }
        }
        own.push(("grpc-message", vec![e]));
    }
    // grpc-status-details-bin is the protocol's on every status path: the status's own details or,
    // without details, NO header of that name (an empty value list = must be absent) - whatever the
    // user's metadata or the base map holds under it (F-C04e, fixed by ed827503: strict)
    if !details.is_empty() {
        own.push(("grpc-status-details-bin", vec![b64(details, false)]));
    } else {
        own.push(("grpc-status-details-bin", vec![]));
    }
    if trailers_only {
        own.push(("content-type", vec![b"application/grpc".to_vec()]));
    }
    own
}
/// premise of c08_md_wire_roundtrip_status: grpc-status-details-bin is tonic's on every status path,
/// with or without details (since fix ed827503 of F-C04e); what the wire holds under it is judged
/// through `own_status` (the details, or nothing)
fn excl_status(_details: &[u8]) -> &'static [&'static str] {
    &["grpc-status-details-bin"]
}
/// request headers as a (possibly padding) peer sends them
fn gen_peer_request(r: &mut Rng) -> (HeaderMap, RawBin) {
    let mut h = HeaderMap::new();
    let mut raw: RawBin = Default::default();
    h.insert("te", HeaderValue::from_static("trailers"));
    h.insert("content-type", HeaderValue::from_static("application/grpc"));
    for _ in 0..r.below(4) {
        if r.chance(1, 2) {
            let k = r.pick(BIN_KEYS).to_ascii_lowercase();
            let b = gen_bin_value(r);
            let pad = r.chance(2, 3);
            h.append(HeaderName::from_bytes(k.as_bytes()).unwrap(), HeaderValue::from_bytes(&b64(&b, pad)).unwrap());
            raw.entry(k).or_default().push(b);
        } else {
            let k = r.pick(ASCII_KEYS).to_ascii_lowercase();
            if let Ok(v) = HeaderValue::from_bytes(&gen_ascii_value(r)) {
                if k != "grpc-encoding" && k != "grpc-timeout" && k != "content-type" {
                    h.append(HeaderName::from_bytes(k.as_bytes()).unwrap(), v);
                }
            }
        }
    }
    (h, raw)
}
#[derive(Clone, Copy, PartialEq, Debug)]
enum Reply {
    Ok,
    StreamErr,
    Err,
}
fn case_server(out: &mut Out, r: &mut Rng, ops: &[Op], reply: Reply, streaming: bool, compress: bool, st: (u32, String, Vec<u8>), corpus: bool) {
    let (md, raw) = apply_ops(ops);
    let sent = md.clone().into_headers();
    let (code, msg, details) = st;
    let (mut req_headers, req_raw) = gen_peer_request(r);
    if compress {
        req_headers.insert("grpc-accept-encoding", HeaderValue::from_static("gzip"));
    }
    let status = Status::with_details_and_metadata(Code::from_i32(code as i32), msg.clone(), Bytes::copy_from_slice(&details), md.clone());
    let rep = match reply {
        Reply::Ok => Ok((md.clone(), vec![Ok(b"resp".to_vec())])),
        // response headers carry their own small metadata, the error status carries `md`
        Reply::StreamErr => Ok((MetadataMap::new(), vec![Ok(b"one".to_vec()), Err(status.clone())])),
        Reply::Err => Err(status.clone()),
    };
    let res = run_server(req_headers.clone(), rep, streaming, compress, None);
    let enc = if compress { Some("gzip") } else { None };
    let kind;
    let (model, obs, oracle);
    match res {
        Err(p) => {
            kind = "server.panic";
            model = "Nd [Nn 0]".to_string();
            obs = Tr::L(vec![Tr::n(99u8)]);
            oracle = Some(format!("panic: {}", p));
        }
        Ok(o) => {
            // what the handler saw of the peer's request: from_headers of exactly those headers
            let probes_req: Vec<String> = req_raw.keys().take(2).cloned().collect();
            let seen_tr = match &o.seen {
                Some(m) => read_tr(&m.clone().into_headers(), &probes_req),
                None => Tr::L(vec![]),
            };
            let mut why = None;
            match &o.seen {
                None => why = Some("handler not called".to_string()),
                Some(m) => {
                    let mh = m.clone().into_headers();
                    for k in req_headers.keys() {
                        let a: Vec<_> = req_headers.get_all(k).iter().collect();
                        let c: Vec<_> = mh.get_all(k).iter().collect();
                        if a != c {
                            why = Some(format!("request metadata {} changed before the handler", k));
                        }
                    }
                    for (k, want) in &req_raw {
                        let got: Vec<Option<Vec<u8>>> = m.get_all_bin(k.as_str()).iter().map(|v| v.to_bytes().ok().map(|b| b.to_vec())).collect();
                        let want: Vec<Option<Vec<u8>>> = want.iter().cloned().map(Some).collect();
                        if got != want {
                            why = Some(format!("peer-coded binary metadata {} does not decode to the original bytes", k));
                        }
                    }
                    if why.is_none() {
                        why = oracle_typed(&mh);
                    }
                }
            }
            if o.status != 200 {
                why = Some(format!("HTTP status {}", o.status));
            }
            let seen_model = format!("obs_read {} {}", coq_hm(&req_headers), coq_probes(&probes_req));
            match reply {
                Reply::Ok => {
                    kind = "server.response";
                    let probes = gen_probes(r, &o.headers, 3);
                    let mut own = vec![("content-type", vec![b"application/grpc".to_vec()])];
                    if compress {
                        own.push(("grpc-encoding", vec![b"gzip".to_vec()]));
                    }
                    if why.is_none() {
                        let excl: &[&str] = if compress { &["grpc-encoding"] } else { &[] };
                        why = oracle_wire(&sent, &o.headers, &own, excl, &raw);
                    }
                    let ok_trailers = o.trailers.clone().unwrap_or_default();
                    if why.is_none() && (ok_trailers.len() != 1 || ok_trailers.get("grpc-status").map(|v| v.as_bytes()) != Some(b"0")) {
                        why = Some("trailers of an OK call are not exactly grpc-status: 0".to_string());
                    }
                    if why.is_none() && o.data.is_empty() {
                        why = Some("no response message".to_string());
                    }
                    model = format!(
                        "Nd [{}; obs_server_headers {} {} {}; obs_trailers (mkStatus 0 [] [] []) []]",
                        seen_model, coq_optv(enc), coq_hm(&sent), coq_probes(&probes)
                    );
                    obs = Tr::L(vec![
                        seen_tr,
                        read_tr(&o.headers, &probes),
                        Tr::L(vec![Tr::n(1u8), read_tr(&ok_trailers, &[])]),
                    ]);
                }
                Reply::StreamErr => {
                    kind = "server.trailers";
                    let t = o.trailers.clone().unwrap_or_default();
                    let probes = gen_probes(r, &t, 3);
                    if why.is_none() && o.trailers.is_none() {
                        why = Some("no trailers".to_string());
                    }
                    if why.is_none() {
                        why = oracle_wire(&sent, &t, &own_status(code, &msg, &details, false), excl_status(&details), &raw);
                    }
                    model = format!(
                        "Nd [{}; obs_server_headers {} [] []; obs_trailers {} {}]",
                        seen_model, coq_optv(enc), status_coq(code, &msg, &details, &sent), coq_probes(&probes)
                    );
                    obs = Tr::L(vec![seen_tr, read_tr(&o.headers, &[]), Tr::L(vec![Tr::n(1u8), read_tr(&t, &probes)])]);
                }
                Reply::Err => {
                    kind = "server.trailers_only";
                    let probes = gen_probes(r, &o.headers, 3);
                    if why.is_none() {
                        why = oracle_wire(&sent, &o.headers, &own_status(code, &msg, &details, true), excl_status(&details), &raw);
                    }
                    if why.is_none() && (o.trailers.is_some() || !o.data.is_empty()) {
                        why = Some("trailers-only response has a body".to_string());
                    }
                    model = format!(
                        "Nd [{}; obs_trailers_only {} {}]",
                        seen_model, status_coq(code, &msg, &details, &sent), coq_probes(&probes)
                    );
                    obs = Tr::L(vec![seen_tr, Tr::L(vec![Tr::n(1u8), read_tr(&o.headers, &probes)])]);
                }
            }
            oracle = why;
        }
    }
    hist_md(out, "server", &sent, &raw);
    for vs in req_raw.values() {
        for v in vs {
            out.hist("peer_binary.len_mod3", v.len() % 3);
        }
    }
    out.hist("server.reply", format!("{:?}/{}", reply, if streaming { "streaming" } else { "unary" }));
    out.push(Case {
        kind: if corpus { format!("corpus.{}", kind) } else { kind.to_string() },
        input: json!({"ops": ops_json(ops), "reply": format!("{:?}", reply), "streaming": streaming, "compress": compress,
                      "status": [code, hex(msg.as_bytes()), hex(&details)], "request_headers": hm_json(&req_headers)}),
        model,
        impl_obs: obs,
        oracle,
        nontrivial: !sent.is_empty() || req_headers.len() > 2,
    });
}

// ------------------------------------------------------------------ (b') the CLIENT's view of an error status
#[derive(Clone)]
struct InMem {
    reply: Arc<Mutex<Option<Result<(MetadataMap, Vec<Result<Vec<u8>, Status>>), Status>>>>,
    streaming: bool,
}
impl tower_service::Service<http::Request<tonic::body::Body>> for InMem {
    type Response = http::Response<tonic::body::Body>;
    type Error = std::convert::Infallible;
    type Future = Pin<Box<dyn Future<Output = Result<Self::Response, Self::Error>> + Send>>;
    fn poll_ready(&mut self, _: &mut Context<'_>) -> Poll<Result<(), Self::Error>> {
        Poll::Ready(Ok(()))
    }
    fn call(&mut self, req: http::Request<tonic::body::Body>) -> Self::Future {
        let h = Handler { reply: self.reply.clone(), seen: Arc::new(Mutex::new(None)) };
        let streaming = self.streaming;
        Box::pin(async move {
            let mut g = tonic::server::Grpc::new(RawCodec);
            Ok(if streaming { g.server_streaming(h, req).await } else { g.unary(h, req).await })
        })
    }
}
/// real server::Grpc handler fails with `status` -> real client::Grpc: what Err(status) the
/// caller gets. `after_message`: the handler first yields a message, the status travels in the
/// trailers; otherwise it is a trailers-only response.
fn case_client_error(out: &mut Out, r: &mut Rng, ops: &[Op], st: (u32, String, Vec<u8>), after_message: bool, streaming: bool, corpus: bool) {
    let (md, raw) = apply_ops(ops);
    let sent = md.clone().into_headers();
    let (code, msg, details) = st;
    let status = Status::with_details_and_metadata(Code::from_i32(code as i32), msg.clone(), Bytes::copy_from_slice(&details), md);
    let reply = if after_message {
        Ok((MetadataMap::new(), vec![Ok(b"one".to_vec()), Err(status.clone())]))
    } else {
        Err(status.clone())
    };
    let svc = InMem { reply: Arc::new(Mutex::new(Some(reply))), streaming: streaming || after_message };
    let res = catch(std::panic::AssertUnwindSafe(|| {
        let mut grpc = tonic::client::Grpc::new(svc);
        let path = http::uri::PathAndQuery::from_static("/pkg.Svc/Method");
        if streaming || after_message {
            spin(
                async {
                    match grpc.server_streaming(Request::new(b"req".to_vec()), path, RawCodec).await {
                        Err(s) => (0usize, Some(s)),
                        Ok(resp) => {
                            let mut stream = resp.into_inner();
                            let mut n = 0usize;
                            loop {
                                match stream.message().await {
                                    Ok(Some(_)) => n += 1,
                                    Ok(None) => break (n, None),
                                    Err(s) => break (n, Some(s)),
                                }
                            }
                        }
                    }
                },
                10000,
            )
            .expect("client hangs")
        } else {
            spin(
                async {
                    match grpc.unary(Request::new(b"req".to_vec()), path, RawCodec).await {
                        Err(s) => (0usize, Some(s)),
                        Ok(_) => (1usize, None),
                    }
                },
                10000,
            )
            .expect("client hangs")
        }
    }));
    let mut base = HeaderMap::new();
    if !after_message {
        base.insert("content-type", HeaderValue::from_static("application/grpc"));
    }
    let mut probes = vec![];
    let mut outside = false;
    let (obs, oracle) = match res {
        Err(p) => (Tr::L(vec![Tr::n(99u8)]), Some(format!("panic: {}", p))),
        Ok((n, got)) => {
            if let Some(g) = &got {
                probes = gen_probes(r, &g.metadata().clone().into_headers(), 2);
            }
            if !after_message && sent.contains_key("grpc-encoding") {
                // outside the stated premise: client::Grpc reads grpc-encoding of the response head
                // before the status (C05); the user's entry did arrive on the wire (server.trailers_only)
                outside = true;
            }
            let mut why = if outside { None } else { oracle_received(&sent, got.as_ref(), code, &details, &base, &raw) };
            if !outside && why.is_none() && n != (after_message as usize) {
                why = Some(format!("{} messages before the error status", n));
            }
            if why.is_none() && code == 0 {
                why = None; // an OK "error" status ends the call cleanly on some paths: covered by C02
            }
            (if outside { Tr::L(vec![Tr::n(5u8)]) } else { received_tr(got.as_ref(), &probes) }, why)
        }
    };
    out.hist("client_error.outside_premise_grpc_encoding", outside);
    hist_md(out, "client_error", &sent, &raw);
    out.hist("client_error.path", format!("{}/{}", if after_message { "trailers" } else { "trailers-only" }, if streaming || after_message { "server_streaming" } else { "unary" }));
    let kind = if after_message { "client_error.trailers" } else { "client_error.trailers_only" };
    out.push(Case {
        kind: if corpus { format!("corpus.{}", kind) } else { kind.to_string() },
        input: json!({"ops": ops_json(ops), "status": [code, hex(msg.as_bytes()), hex(&details)], "after_message": after_message, "streaming": streaming, "probes": probes}),
        model: format!(
            "{} {} {}",
            if after_message { "obs_client_error_trailers" } else { "obs_client_error_trailers_only" },
            status_coq(code, &msg, &details, &sent),
            coq_probes(&probes)
        ),
        impl_obs: obs,
        oracle,
        nontrivial: !sent.is_empty(),
    });
}

// ------------------------------------------------------------------ (d) MetadataMap::merge: trailers folded into metadata
const TRAIL_KEYS: &[&str] = &["x-trail", "x-a", "x-b", "x-trace-id", "authorization", "date", "via", "x-only-trailer", "set-cookie"];
const TRAIL_BIN_KEYS: &[&str] = &["x-payload-bin", "x-other-bin", "-bin", "grpc-trace-bin", "x-trail-bin"];
/// custom entries as a peer writes them (repeated keys, binary values padded or not)
fn gen_peer_entries(r: &mut Rng, h: &mut HeaderMap, raw: &mut RawBin, max: u64) {
    for _ in 0..r.range(0, max) {
        let reps = if r.chance(1, 3) { r.range(2, 3) } else { 1 };
        if r.chance(1, 3) {
            let k = *r.pick(TRAIL_BIN_KEYS);
            for _ in 0..reps {
                let b = gen_bin_value(r);
                let pad = r.chance(1, 2);
                h.append(HeaderName::from_bytes(k.as_bytes()).unwrap(), HeaderValue::from_bytes(&b64(&b, pad)).unwrap());
                raw.entry(k.to_string()).or_default().push(b);
            }
        } else {
            let k = *r.pick(TRAIL_KEYS);
            for _ in 0..reps {
                if let Ok(v) = HeaderValue::from_bytes(&gen_ascii_value(r)) {
                    h.append(HeaderName::from_bytes(k.as_bytes()).unwrap(), v);
                }
            }
        }
    }
}
#[derive(Clone)]
struct Scripted {
    headers: HeaderMap,
    evs: Vec<Ev<Status>>,
}
impl tower_service::Service<http::Request<tonic::body::Body>> for Scripted {
    type Response = http::Response<ScriptBody<Status>>;
    type Error = std::convert::Infallible;
    type Future = std::future::Ready<Result<Self::Response, Self::Error>>;
    fn poll_ready(&mut self, _: &mut Context<'_>) -> Poll<Result<(), Self::Error>> {
        Poll::Ready(Ok(()))
    }
    fn call(&mut self, _req: http::Request<tonic::body::Body>) -> Self::Future {
        let mut res = http::Response::new(ScriptBody::new(self.evs.clone()).0);
        *res.headers_mut() = self.headers.clone();
        std::future::ready(Ok(res))
    }
}
/// merged = what the receiver shows; `over` = the map whose names win (the `other` of merge),
/// `under` = the map it is merged into; `strip` = names from_header_map removed from `under`
fn oracle_merged(merged: &HeaderMap, under: &HeaderMap, over: &HeaderMap, strip: &[&str], raw_over: &RawBin, raw_under: &RawBin) -> Option<String> {
    let md = MetadataMap::from_headers(merged.clone());
    for (name, src, raw, skip_if_over) in [("merged-in", over, raw_over, false), ("original", under, raw_under, true)] {
        for k in src.keys() {
            let ks = k.as_str();
            if skip_if_over && (over.contains_key(k) || strip.contains(&ks)) {
                continue;
            }
            let a: Vec<&[u8]> = src.get_all(k).iter().map(|v| v.as_bytes()).collect();
            let c: Vec<&[u8]> = merged.get_all(k).iter().map(|v| v.as_bytes()).collect();
            if a != c {
                return Some(format!("{} metadata {} sent with {} values arrives with {}", name, ks, a.len(), c.len()));
            }
            if ks.ends_with("-bin") {
                if let Some(want) = raw.get(ks) {
                    let got: Vec<Option<Vec<u8>>> = md.get_all_bin(ks).iter().map(|v| v.to_bytes().ok().map(|b| b.to_vec())).collect();
                    let want: Vec<Option<Vec<u8>>> = want.iter().cloned().map(Some).collect();
                    if got != want {
                        return Some(format!("binary {} metadata {} does not decode to the original bytes", name, ks));
                    }
                }
            }
        }
    }
    for k in merged.keys() {
        if !over.contains_key(k) && !under.contains_key(k) {
            return Some(format!("metadata {} appeared", k));
        }
    }
    oracle_typed(merged)
}
/// client::Grpc::unary / client_streaming against a scripted response: headers, one message (or
/// none when `error`), trailers with custom keys
fn case_client_trailers(out: &mut Out, r: &mut Rng, error: bool, client_streaming: bool, with_trailers: bool, corpus: Option<(HeaderMap, HeaderMap)>) {
    let (mut hdrs, mut raw_h) = (HeaderMap::new(), RawBin::new());
    let (mut t, mut raw_t) = (HeaderMap::new(), RawBin::new());
    hdrs.insert("content-type", HeaderValue::from_static("application/grpc"));
    match &corpus {
        Some((h, tr)) => {
            hdrs = h.clone();
            t = tr.clone();
        }
        None => {
            gen_peer_entries(r, &mut hdrs, &mut raw_h, 4);
            gen_peer_entries(r, &mut t, &mut raw_t, 5);
            // every third generated case: a name used (with several values) by headers AND trailers
            if out.count() % 3 == 0 {
                for v in ["h1", "h2"] {
                    hdrs.append("x-both", HeaderValue::from_static(v));
                }
                for v in ["t1", "t2", "t3"] {
                    t.append("x-both", HeaderValue::from_static(v));
                }
                hdrs.append("x-both-bin", HeaderValue::from_static("QQ=="));
                t.append("x-both-bin", HeaderValue::from_static("QUI"));
                t.append("x-both-bin", HeaderValue::from_static("QUJD"));
            }
            // sometimes a name of the headers is used by the trailers as well
            if r.chance(1, 3) {
                if let Some(k) = hdrs.keys().find(|k| k.as_str() != "content-type" && !k.as_str().ends_with("-bin")).cloned() {
                    t.append(k, HeaderValue::from_static("from-trailers"));
                }
            }
        }
    }
    let code = if error { r.range(1, 16) as u32 } else { 0 };
    t.insert("grpc-status", HeaderValue::from_str(&code.to_string()).unwrap());
    if error && r.chance(1, 2) {
        t.insert("grpc-message", HeaderValue::from_static("went%20wrong"));
    }
    let trailers = if with_trailers || error { Some(t.clone()) } else { None };
    let mut evs = vec![];
    if !error {
        evs.push(Ev::Data(frame(b"resp")));
    }
    if let Some(t) = &trailers {
        evs.push(Ev::Trailers(t.clone()));
    }
    let svc = Scripted { headers: hdrs.clone(), evs };
    let res = catch(std::panic::AssertUnwindSafe(|| {
        let mut grpc = tonic::client::Grpc::new(svc);
        let path = http::uri::PathAndQuery::from_static("/pkg.Svc/Method");
        spin(
            async {
                let r = if client_streaming {
                    grpc.client_streaming(Request::new(tokio_stream::iter(vec![b"a".to_vec(), b"b".to_vec()])), path, RawCodec).await
                } else {
                    grpc.unary(Request::new(b"req".to_vec()), path, RawCodec).await
                };
                match r {
                    Ok(resp) => Ok(resp.metadata().clone().into_headers()),
                    Err(st) => Err(st),
                }
            },
            10000,
        )
        .expect("client hangs")
    }));
    let mut probes = vec![];
    let (obs, oracle) = match res {
        Err(p) => (Tr::L(vec![Tr::n(99u8)]), Some(format!("panic: {}", p))),
        Ok(Ok(m)) => {
            probes = gen_probes(r, &m, 2);
            let why = if error {
                Some("an error status in the trailers gave a successful response".to_string())
            } else {
                match &trailers {
                    Some(t) => oracle_merged(&m, &hdrs, t, &[], &raw_t, &raw_h),
                    None => oracle_merged(&m, &hdrs, &HeaderMap::new(), &[], &raw_t, &raw_h),
                }
            };
            (if error { Tr::L(vec![Tr::n(97u8)]) } else { read_tr(&m, &probes) }, why)
        }
        Ok(Err(st)) => {
            let m = st.metadata().clone().into_headers();
            probes = gen_probes(r, &m, 2);
            let why = if !error {
                Some(format!("a successful scripted call failed: {:?} {}", st.code(), st.message()))
            } else if st.code() as i32 as u32 != code {
                Some(format!("code {} received as {:?}", code, st.code()))
            } else {
                // the response headers are folded into the status metadata: their names win
                oracle_merged(&m, &t, &hdrs, &["grpc-status", "grpc-message", "grpc-status-details-bin"], &raw_h, &raw_t)
            };
            (if error { Tr::opt(Some(read_tr(&m, &probes))) } else { Tr::L(vec![Tr::n(96u8)]) }, why)
        }
    };
    out.hist("merge.client.trailers_repeated_key", t.keys().any(|k| t.get_all(k).iter().count() > 1));
    out.hist(
        if error { "merge.client_error_fold.key_in_headers_and_trailers" } else { "merge.client_response.key_in_headers_and_trailers" },
        trailers.is_some() && t.keys().any(|k| hdrs.contains_key(k)),
    );
    out.hist("merge.client.call", if client_streaming { "client_streaming" } else { "unary" });
    for vs in raw_t.values() {
        for v in vs {
            out.hist("merge.trailer_binary.len_mod3", v.len() % 3);
        }
    }
    let kind = if error { "merge.client_error_fold" } else { "merge.client_response" };
    let model = if error {
        format!("obs_client_unary_error_metadata {} {} {}", coq_hm(&hdrs), coq_hm(&t), coq_probes(&probes))
    } else {
        format!("obs_client_unary_metadata {} {} {}", coq_hm(&hdrs), coq_opt(&trailers, |t| coq_hm(t)), coq_probes(&probes))
    };
    out.push(Case {
        kind: if corpus.is_some() { format!("corpus.{}", kind) } else { kind.to_string() },
        input: json!({"headers": hm_json(&hdrs), "trailers": trailers.as_ref().map(hm_json), "error": error, "client_streaming": client_streaming, "probes": probes}),
        model,
        impl_obs: obs,
        oracle,
        nontrivial: t.len() > 1,
    });
}
/// a peer's unary request whose body ends with trailers, into server::Grpc::unary /
/// server_streaming: what Request::metadata() the handler sees
fn case_server_request_trailers(out: &mut Out, r: &mut Rng, streaming: bool, corpus: Option<(HeaderMap, HeaderMap)>) {
    let (mut hdrs, mut raw_h) = gen_peer_request(r);
    let (mut t, mut raw_t) = (HeaderMap::new(), RawBin::new());
    let with_trailers;
    match &corpus {
        Some((h, tr)) => {
            hdrs = h.clone();
            raw_h = RawBin::new();
            t = tr.clone();
            with_trailers = true;
        }
        None => {
            gen_peer_entries(r, &mut t, &mut raw_t, 5);
            if out.count() % 3 == 0 {
                for v in ["h1", "h2"] {
                    hdrs.append("x-both", HeaderValue::from_static(v));
                }
                for v in ["t1", "t2", "t3"] {
                    t.append("x-both", HeaderValue::from_static(v));
                }
                hdrs.append("x-both-bin", HeaderValue::from_static("QQ=="));
                t.append("x-both-bin", HeaderValue::from_static("QUI"));
            }
            if r.chance(1, 3) {
                if let Some(k) = hdrs.keys().find(|k| !["content-type", "te", "grpc-accept-encoding"].contains(&k.as_str()) && !k.as_str().ends_with("-bin")).cloned() {
                    t.append(k, HeaderValue::from_static("from-trailers"));
                }
            }
            with_trailers = r.chance(5, 6);
        }
    }
    let trailers = if with_trailers { Some(t.clone()) } else { None };
    let res = run_server(hdrs.clone(), Ok((MetadataMap::new(), vec![Ok(b"resp".to_vec())])), streaming, false, trailers.clone());
    let mut probes = vec![];
    let (obs, oracle) = match res {
        Err(p) => (Tr::L(vec![Tr::n(99u8)]), Some(format!("panic: {}", p))),
        Ok(o) => match o.seen {
            None => (Tr::L(vec![Tr::n(98u8)]), Some("handler not called".to_string())),
            Some(m) => {
                let m = m.into_headers();
                probes = gen_probes(r, &m, 2);
                let why = oracle_merged(&m, &hdrs, trailers.as_ref().unwrap_or(&HeaderMap::new()), &[], &raw_t, &raw_h);
                (read_tr(&m, &probes), why)
            }
        },
    };
    out.hist("merge.server.trailers_repeated_key", t.keys().any(|k| t.get_all(k).iter().count() > 1));
    out.hist("merge.server.key_in_headers_and_trailers", with_trailers && t.keys().any(|k| hdrs.contains_key(k)));
    out.push(Case {
        kind: if corpus.is_some() { "corpus.merge.server_request".into() } else { "merge.server_request".into() },
        input: json!({"headers": hm_json(&hdrs), "trailers": trailers.as_ref().map(hm_json), "streaming": streaming, "probes": probes}),
        model: format!("obs_server_unary_request_metadata {} {} {}", coq_hm(&hdrs), coq_opt(&trailers, |t| coq_hm(t)), coq_probes(&probes)),
        impl_obs: obs,
        oracle,
        nontrivial: !t.is_empty(),
    });
}

// ------------------------------------------------------------------ (c) Status::add_header
// ------------------------------------------------------------------ error status, receiving side
const MSG_PREFIX: &str = "Error deserializing status message header: ";
const DET_PREFIX: &str = "Error deserializing status details header: ";
const HTTP_PREFIX: &str = "grpc-status header missing, mapped from HTTP status code ";
fn canon_msg(m: &str) -> Vec<u8> {
    for p in [MSG_PREFIX, DET_PREFIX, HTTP_PREFIX] {
        if m.starts_with(p) {
            return p.as_bytes().to_vec();
        }
    }
    m.as_bytes().to_vec()
}
fn status_tr(st: &Status) -> Tr {
    Tr::L(vec![
        Tr::n(st.code() as i32 as u32),
        Tr::B(canon_msg(st.message())),
        Tr::b(st.details()),
        hm_tr(&st.metadata().clone().into_headers()),
    ])
}
fn received_tr(st: Option<&Status>, probes: &[String]) -> Tr {
    Tr::opt(st.map(|st| Tr::L(vec![status_tr(st), read_tr(&st.metadata().clone().into_headers(), probes)])))
}
/// what the RECEIVER of an error status sees in status.metadata(): every non-reserved entry the
/// sender attached (other than grpc-status-details-bin, premise of c08_status_metadata_received)
/// with the same values in the same order, binary values decode to the original bytes; besides
/// only what the base header map had (content-type of a trailers-only response).  The DETAILS the
/// receiver reads are the status's own in every case - also when the sender's metadata (or the base
/// map) holds an entry named grpc-status-details-bin (F-C04e, fixed by ed827503: strict)
fn oracle_received(sent: &HeaderMap, got: Option<&Status>, code: u32, details: &[u8], base: &HeaderMap, raw: &RawBin) -> Option<String> {
    let st = match got {
        None => return Some("the receiver finds no status".to_string()),
        Some(s) => s,
    };
    if st.code() as i32 as u32 != code {
        return Some(format!("code {} received as {}", code, st.code() as i32));
    }
    if st.details() != details {
        return Some("the details the receiver reads are not the status's own details".to_string());
    }
    let md = st.metadata();
    let recv = md.clone().into_headers();
    for k in sent.keys() {
        let ks = k.as_str();
        if is_reserved(ks) || ks == "grpc-status-details-bin" {
            continue;
        }
        let a: Vec<&[u8]> = sent.get_all(k).iter().map(|v| v.as_bytes()).collect();
        let c: Vec<&[u8]> = recv.get_all(k).iter().map(|v| v.as_bytes()).collect();
        if a != c {
            return Some(format!(
                "status metadata {} ({} values sent) is received with {} values / other values",
                ks, a.len(), c.len()
            ));
        }
        if ks.ends_with("-bin") {
            if let Some(want) = raw.get(ks) {
                let got: Vec<Option<Vec<u8>>> = md.get_all_bin(ks).iter().map(|v| v.to_bytes().ok().map(|b| b.to_vec())).collect();
                let want: Vec<Option<Vec<u8>>> = want.iter().cloned().map(Some).collect();
                if got != want {
                    return Some(format!("binary status metadata {} does not decode to the original bytes at the receiver", ks));
                }
            } else {
                let got: Vec<&[u8]> = md.get_all_bin(ks).iter().map(|v| v.as_encoded_bytes()).collect();
                if got != a {
                    return Some(format!("get_all_bin does not show the received values of {}", ks));
                }
            }
        } else {
            let got: Vec<&[u8]> = md.get_all(ks).iter().map(|v| v.as_encoded_bytes()).collect();
            if got != a {
                return Some(format!("get_all does not show the received values of {}", ks));
            }
        }
    }
    for k in recv.keys() {
        let ks = k.as_str();
        if ["grpc-status", "grpc-message", "grpc-status-details-bin"].contains(&ks) {
            return Some(format!("status header {} left in the received metadata", ks));
        }
        let from_user = sent.contains_key(k) && !is_reserved(ks);
        if !from_user {
            let b: Vec<&[u8]> = base.get_all(k).iter().map(|v| v.as_bytes()).collect();
            let c: Vec<&[u8]> = recv.get_all(k).iter().map(|v| v.as_bytes()).collect();
            if b != c {
                return Some(format!("received status metadata has {} which nobody sent", ks));
            }
        }
    }
    oracle_typed(&recv)
}

fn case_add_header(out: &mut Out, r: &mut Rng, ops: &[Op], st: (u32, String, Vec<u8>), base: HeaderMap, corpus: bool) {
    let (md, raw) = apply_ops(ops);
    let sent = md.clone().into_headers();
    let (code, msg, details) = st;
    let status = Status::with_details_and_metadata(Code::from_i32(code as i32), msg.clone(), Bytes::copy_from_slice(&details), md);
    let res = catch(std::panic::AssertUnwindSafe(|| {
        let mut h = base.clone();
        status.add_header(&mut h).map(|_| h).map_err(|_| ())
    }));
    let mut probes = vec![];
    let (obs, oracle) = match res {
        Err(p) => (Tr::L(vec![Tr::n(99u8)]), Some(format!("panic: {}", p))),
        Ok(Err(())) => (Tr::L(vec![Tr::n(0u8)]), Some("add_header returned Err".to_string())),
        Ok(Ok(h)) => {
            probes = gen_probes(r, &h, 3);
            // entries of `base` under names the status does not write stay; the user's names replace
            let mut own = own_status(code, &msg, &details, false);
            let mut extra: Vec<(String, Vec<Vec<u8>>)> = vec![];
            for k in base.keys() {
                let ks = k.as_str();
                let user_has = sent.contains_key(k) && !is_reserved(ks);
                if !user_has && !own.iter().any(|(n, _)| *n == ks) {
                    extra.push((ks.to_string(), base.get_all(k).iter().map(|v| v.as_bytes().to_vec()).collect()));
                }
            }
            let extra_ref: Vec<(&str, Vec<Vec<u8>>)> = extra.iter().map(|(k, v)| (k.as_str(), v.clone())).collect();
            own.extend(extra_ref);
            (Tr::L(vec![Tr::n(1u8), read_tr(&h, &probes)]), oracle_wire(&sent, &h, &own, excl_status(&details), &raw))
        }
    };
    // receiving side: the same headers read back with Status::from_header_map
    {
        let res = catch(std::panic::AssertUnwindSafe(|| {
            let mut h = base.clone();
            status.add_header(&mut h).ok().and_then(|_| Status::from_header_map(&h))
        }));
        let (obs, oracle, rprobes) = match res {
            Err(p) => (Tr::L(vec![Tr::n(99u8)]), Some(format!("panic: {}", p)), vec![]),
            Ok(got) => {
                let rp = match &got {
                    Some(g) => gen_probes(r, &g.metadata().clone().into_headers(), 2),
                    None => vec![],
                };
                (received_tr(got.as_ref(), &rp), oracle_received(&sent, got.as_ref(), code, &details, &base, &raw), rp)
            }
        };
        out.hist("status_received.has_repeated_key", sent.keys().any(|k| sent.get_all(k).iter().count() > 1));
        out.push(Case {
            kind: if corpus { "corpus.status_received".into() } else { "status_received".into() },
            input: json!({"ops": ops_json(ops), "status": [code, hex(msg.as_bytes()), hex(&details)], "base": hm_json(&base), "probes": rprobes}),
            model: format!("obs_status_received {} {} {}", status_coq(code, &msg, &details, &sent), coq_hm(&base), coq_probes(&rprobes)),
            impl_obs: obs,
            oracle,
            nontrivial: !sent.is_empty(),
        });
    }
    hist_md(out, "add_header", &sent, &raw);
    out.hist("add_header.base_entries", base.len());
    out.push(Case {
        kind: if corpus { "corpus.add_header".into() } else { "add_header".into() },
        input: json!({"ops": ops_json(ops), "status": [code, hex(msg.as_bytes()), hex(&details)], "base": hm_json(&base), "probes": probes}),
        model: format!("obs_add_header {} {} {}", status_coq(code, &msg, &details, &sent), coq_hm(&base), coq_probes(&probes)),
        impl_obs: obs,
        oracle,
        nontrivial: !sent.is_empty() || !base.is_empty(),
    });
}

// ------------------------------------------------------------------ values, keys, accessors
fn case_bin_value(out: &mut Out, b: &[u8], corpus: bool) {
    let res = catch(std::panic::AssertUnwindSafe(|| {
        let v = MetadataValue::<Binary>::from_bytes(b);
        // the same bytes as a padding peer codes them, received in a header
        let mut h = HeaderMap::new();
        h.insert("x-bin", HeaderValue::from_bytes(&b64(b, true)).unwrap());
        let md = MetadataMap::from_headers(h);
        let p = md.get_bin("x-bin").unwrap().clone();
        let mut why = None;
        if v.as_encoded_bytes() != &b64(b, false)[..] {
            why = Some("from_bytes is not the unpadded standard base64 of the bytes".to_string());
        } else if v.to_bytes().ok().as_deref() != Some(b) {
            why = Some("decode(from_bytes(b)) != b".to_string());
        } else if p.to_bytes().ok().as_deref() != Some(b) {
            why = Some("a padded value does not decode to the original bytes".to_string());
        } else if v != p {
            why = Some("padded and unpadded coding of the same bytes are not equal values".to_string());
        }
        let t = Tr::L(vec![Tr::n(1u8), bin_val_tr(&v), bin_val_tr(&p), Tr::bool(v == p), Tr::bool(v == *b)]);
        (t, why)
    }));
    let (obs, oracle) = match res {
        Ok(x) => x,
        Err(p) => (Tr::L(vec![Tr::n(99u8)]), Some(format!("panic: {}", p))),
    };
    out.hist("binary.len_mod3", b.len() % 3);
    out.push(Case {
        kind: if corpus { "corpus.bin_value".into() } else { "bin_value".into() },
        input: json!({"bytes": hex(b)}),
        model: format!("obs_bin_value {}", coq_bytes(b)),
        impl_obs: obs,
        oracle,
        nontrivial: !b.is_empty(),
    });
}
const B64_TEXTS: &[&[u8]] = &[
    b"", b"QQ", b"QQ=", b"QQ==", b"QQ===", b"QR", b"Q", b"QU JD", b"!!!", b"=", b"==", b"====", b"A=", b"AA=A", b"AAAA",
    b"AAA=", b"AAA", b"AAAAA", b"AAAAAA", b"AAAAAA==", b"AAAAAAA", b"AAAAAAA=", b"/+/+", b"-_-_", b"QUJD", b"QUJDRA",
    b"QUJDRA==", b"QUJDRA=", b"QUJD=", b"QUJD====", b"Zm9vYg==", b"Zm9vYh==", b"Zm9vYmE=", b"Zm9vYmF=", b"hello world",
];
fn gen_b64_text(r: &mut Rng) -> Vec<u8> {
    if r.chance(1, 2) {
        r.pick(B64_TEXTS).to_vec()
    } else {
        let n = r.range(0, 10) as usize;
        (0..n).map(|_| *r.pick(b"ABCDQRZabcz019+/= !")).collect()
    }
}
fn case_bin_text(out: &mut Out, a: &[u8], b: &[u8], corpus: bool) {
    // arbitrary header text read as binary values: decode is total, equality as documented
    let res = catch(std::panic::AssertUnwindSafe(|| {
        let mut h = HeaderMap::new();
        h.append("a-bin", HeaderValue::from_bytes(a).unwrap());
        h.append("b-bin", HeaderValue::from_bytes(b).unwrap());
        let md = MetadataMap::from_headers(h);
        let (va, vb) = (md.get_bin("a-bin").unwrap(), md.get_bin("b-bin").unwrap());
        let ascii_eq = md.get_all("a-bin").iter().next().is_none() && a == b;
        Tr::L(vec![bin_val_tr(va), bin_val_tr(vb), Tr::L(vec![Tr::bool(va == vb), Tr::bool(ascii_eq)])])
    }));
    let (obs, oracle) = match res {
        Ok(t) => (t, None),
        Err(p) => (Tr::L(vec![Tr::n(99u8)]), Some(format!("panic reading a binary value: {}", p))),
    };
    out.push(Case {
        kind: if corpus { "corpus.bin_text".into() } else { "bin_text".into() },
        input: json!({"a": hex(a), "b": hex(b)}),
        model: format!("Nd [obs_bin_text {}; obs_bin_text {}; obs_values_equal {} {}]", coq_bytes(a), coq_bytes(b), coq_bytes(a), coq_bytes(b)),
        impl_obs: obs,
        oracle,
        nontrivial: true,
    });
}
fn case_key(out: &mut Out, raw: &[u8]) {
    let a = MetadataKey::<Ascii>::from_bytes(raw).ok();
    let b = MetadataKey::<Binary>::from_bytes(raw).ok();
    let mut oracle = None;
    if a.is_some() && b.is_some() {
        oracle = Some("a key is accepted as both ASCII and binary".to_string());
    }
    if let Some(k) = &a {
        if k.as_str().ends_with("-bin") {
            oracle = Some("ASCII key with the -bin suffix".to_string());
        }
    }
    if let Some(k) = &b {
        if !k.as_str().ends_with("-bin") {
            oracle = Some("binary key without the -bin suffix".to_string());
        }
    }
    out.push(Case {
        kind: "key".into(),
        input: json!({"raw": hex(raw)}),
        model: format!("obs_key {}", coq_bytes(raw)),
        impl_obs: Tr::L(vec![
            Tr::opt(a.map(|k| Tr::s(k.as_str()))),
            Tr::opt(b.map(|k| Tr::s(k.as_str()))),
        ]),
        oracle,
        nontrivial: true,
    });
}
fn case_ascii_value(out: &mut Out, v: &[u8]) {
    let r = MetadataValue::<Ascii>::try_from(v).ok();
    out.push(Case {
        kind: "ascii_value".into(),
        input: json!({"bytes": hex(v)}),
        model: format!("obs_ascii_value {}", coq_bytes(v)),
        impl_obs: Tr::L(vec![Tr::opt(r.as_ref().map(|x| Tr::b(x.as_encoded_bytes()))), Tr::bool(v.is_empty())]),
        oracle: match &r {
            Some(x) if x.as_encoded_bytes() != v => Some("ASCII value changed".to_string()),
            Some(x) if x.is_empty() != v.is_empty() => Some("is_empty wrong".to_string()),
            _ => None,
        },
        nontrivial: true,
    });
}
/// maps built through insert/append/remove (+ _bin) and read with string keys of any case
fn case_accessor(out: &mut Out, ops: &[Op], probes: Vec<String>, corpus: bool) {
    let res = catch(std::panic::AssertUnwindSafe(|| {
        let (md, _) = apply_ops(ops);
        let h = md.clone().into_headers();
        let mut why = oracle_typed(&h);
        for p in &probes {
            let norm = p.to_ascii_lowercase();
            let bin = norm.ends_with("-bin");
            let stored = HeaderName::from_bytes(p.as_bytes()).ok().and_then(|n| h.get(n).cloned());
            let (g, gb) = (md.get(p.as_str()), md.get_bin(p.as_str()));
            if bin {
                if g.is_some() || md.get_all(p.as_str()).iter().next().is_some() {
                    why = Some(format!("binary entry presented as ASCII by get({:?})", p));
                } else if gb.map(|v| v.as_encoded_bytes()) != stored.as_ref().map(|v| v.as_bytes()) {
                    why = Some(format!("get_bin({:?}) does not find the entry", p));
                }
            } else if gb.is_some() || md.get_all_bin(p.as_str()).iter().next().is_some() {
                why = Some(format!("ASCII entry presented as binary by get_bin({:?})", p));
            } else if g.map(|v| v.as_encoded_bytes()) != stored.as_ref().map(|v| v.as_bytes()) {
                why = Some(format!("get({:?}) does not find the entry", p));
            }
        }
        (read_tr(&h, &probes), why)
    }));
    let (obs, oracle) = match res {
        Ok(x) => x,
        Err(p) => (Tr::L(vec![Tr::n(99u8)]), Some(format!("panic: {}", p))),
    };
    out.hist("accessor.ops", ops.len());
    out.hist("accessor.probes_with_upper_case", probes.iter().any(|p| p.bytes().any(|b| b.is_ascii_uppercase())));
    out.push(Case {
        kind: if corpus { "corpus.accessor".into() } else { "accessor".into() },
        input: json!({"ops": ops_json(ops), "probes": probes}),
        model: format!("obs_build {} {}", coq_ops(ops), coq_probes(&probes)),
        impl_obs: obs,
        oracle,
        nontrivial: !ops.is_empty(),
    });
}

// ------------------------------------------------------------------ Entry API, writes through references
#[derive(Clone, Debug)]
struct EOp {
    bin: bool,
    key: String,
    act: u8,
    val: Vec<u8>,
}
macro_rules! val_tr {
    ($flags:ident, $v:expr) => {{
        let v = $v;
        $flags.push(is_bin_ty(v));
        Tr::L(vec![Tr::bool(is_bin_ty(v)), Tr::b(v.as_encoded_bytes()), Tr::opt(v.to_bytes().ok().map(|b| Tr::b(&b)))])
    }};
}
macro_rules! key_tr {
    ($flags:ident, $k:expr) => {{
        let k = $k;
        $flags.push(is_bin_ty(k));
        Tr::L(vec![Tr::bool(is_bin_ty(k)), Tr::s(k.as_str())])
    }};
}
macro_rules! occ_tr {
    ($flags:ident, $o:expr) => {{
        let o = $o;
        $flags.push(is_bin_ty(o));
        let g = val_tr!($flags, o.get());
        let mut it = vec![];
        for v in o.iter() {
            it.push(val_tr!($flags, v));
        }
        Tr::L(vec![Tr::opt(Some(g)), Tr::L(it)])
    }};
}
/// one use of the Entry API on `$md` through `$entry` (entry or entry_bin); every typed thing the
/// API hands out pushes the encoding of its static type into `$flags`
macro_rules! entry_op {
    ($flags:ident, $entry:expr, $val:expr, $act:expr) => {{
        match ($entry, $val) {
            (Err(_), _) => Tr::L(vec![Tr::n(0u8)]),
            (Ok(_), None) => Tr::L(vec![Tr::n(9u8)]),
            (Ok(e), Some(v)) => {
                if $act == 0 {
                    let st: u8 = if matches!(e, Entry::Occupied(_)) { 2 } else { 1 };
                    let k = key_tr!($flags, e.key());
                    let r = e.or_insert(v);
                    let rv = val_tr!($flags, &*r);
                    Tr::L(vec![Tr::n(st), k, if st == 2 { Tr::opt(Some(rv)) } else { rv }])
                } else {
                    match e {
                        Entry::Vacant(ve) => {
                            let k = key_tr!($flags, ve.key());
                            match $act {
                                1 => {
                                    let r = ve.insert(v);
                                    Tr::L(vec![Tr::n(1u8), k, val_tr!($flags, &*r)])
                                }
                                2 => {
                                    let o = ve.insert_entry(v);
                                    Tr::L(vec![Tr::n(1u8), k, key_tr!($flags, o.key()), occ_tr!($flags, &o)])
                                }
                                3 => {
                                    // the second value goes in with the handle's own value type, so that this
                                    // compiles whatever encoding insert_entry's handle is declared with (F-C08b)
                                    let mut o = ve.insert_entry(v);
                                    let again = o.get().clone();
                                    o.append(again);
                                    Tr::L(vec![Tr::n(1u8), k, key_tr!($flags, o.key()), occ_tr!($flags, &o)])
                                }
                                _ => {
                                    let key = ve.into_key();
                                    Tr::L(vec![Tr::n(1u8), k, key_tr!($flags, &key)])
                                }
                            }
                        }
                        Entry::Occupied(mut o) => {
                            let mut head = vec![Tr::n(2u8), key_tr!($flags, o.key()), occ_tr!($flags, &o)];
                            match $act {
                                1 => {
                                    let old = o.insert(v);
                                    head.push(Tr::opt(Some(val_tr!($flags, &old))));
                                }
                                2 => {
                                    o.append(v);
                                    head.push(occ_tr!($flags, &o));
                                }
                                3 => {
                                    let old = o.remove();
                                    head.push(Tr::opt(Some(val_tr!($flags, &old))));
                                }
                                4 => {
                                    let olds: Vec<_> = o.insert_mult(v).collect();
                                    let mut l = vec![];
                                    for x in &olds {
                                        l.push(val_tr!($flags, x));
                                    }
                                    head.push(Tr::L(l));
                                }
                                5 => {
                                    let (k2, drain) = o.remove_entry_mult();
                                    let olds: Vec<_> = drain.collect();
                                    head.push(key_tr!($flags, &k2));
                                    let mut l = vec![];
                                    for x in &olds {
                                        l.push(val_tr!($flags, x));
                                    }
                                    head.push(Tr::L(l));
                                }
                                6 => {
                                    *o.get_mut() = v;
                                }
                                _ => {
                                    for x in o.iter_mut() {
                                        *x = v.clone();
                                    }
                                }
                            }
                            Tr::L(head)
                        }
                    }
                }
            }
        }
    }};
}
fn coq_eops(e: &[EOp]) -> String {
    coq_list(e, |o| format!("({},({},({},{})))", coq_bool(o.bin), coq_bytes(o.key.as_bytes()), o.act, coq_bytes(&o.val)))
}
fn case_entry(out: &mut Out, ops: &[Op], eops: &[EOp], corpus: bool) {
    let res = catch(std::panic::AssertUnwindSafe(|| {
        let (mut md, _) = apply_ops(ops);
        let mut trs = vec![];
        let mut why: Option<String> = None;
        let mut panicked = false;
        for (i, e) in eops.iter().enumerate() {
            let mut flags: Vec<bool> = vec![];
            let name_is_bin = e.key.to_ascii_lowercase().ends_with("-bin");
            let key_kind = i % 3; // &str, String, &String in turn
            let ks: String = e.key.clone();
            let before = md.clone().into_headers();
            let t = catch(std::panic::AssertUnwindSafe(|| if e.bin {
                let v = Some(MetadataValue::<Binary>::from_bytes(&e.val));
                match key_kind {
                    0 => entry_op!(flags, md.entry_bin(e.key.as_str()), v, e.act),
                    1 => entry_op!(flags, md.entry_bin(ks), v, e.act),
                    _ => entry_op!(flags, md.entry_bin(&ks), v, e.act),
                }
            } else {
                let v = MetadataValue::<Ascii>::try_from(&e.val[..]).ok();
                match key_kind {
                    0 => entry_op!(flags, md.entry(e.key.as_str()), v, e.act),
                    1 => entry_op!(flags, md.entry(ks), v, e.act),
                    _ => entry_op!(flags, md.entry(&ks), v, e.act),
                }
            }));
            let t = match t {
                Ok(t) => t,
                Err(p) => {
                    // crate http 1.5.0: OccupiedEntry::insert_mult on a name with >= 3 values panics
                    // (modelled: occ_insert_mult = Panic, c08_insert_mult); anything else is a failure
                    let n = HeaderName::from_bytes(e.key.as_bytes()).ok().map(|n| before.get_all(n).iter().count()).unwrap_or(0);
                    if !(e.act == 4 && n >= 3) && why.is_none() {
                        why = Some(format!("panic in the Entry API: {}", p));
                    }
                    panicked = true;
                    trs.push(Tr::L(vec![Tr::n(98u8)]));
                    break;
                }
            };
            // strict typing oracle: a handle exists only on a name of its own kind, and every key /
            // value / handle it gives out is statically typed with that kind
            let got_handle = t != Tr::L(vec![Tr::n(0u8)]);
            if got_handle && name_is_bin != e.bin && why.is_none() {
                why = Some(format!("{} handle on the {} name {:?}", if e.bin { "binary" } else { "ASCII" }, if name_is_bin { "binary" } else { "ASCII" }, e.key));
            }
            if let Some(f) = flags.iter().find(|f| **f != name_is_bin) {
                if why.is_none() {
                    why = Some(format!(
                        "the Entry API presents a {} entry as {} (key {:?}, action {})",
                        if name_is_bin { "binary" } else { "ASCII" }, if *f { "binary" } else { "ASCII" }, e.key, e.act
                    ));
                }
            }
            // names other than the handle's are untouched
            let after = md.clone().into_headers();
            for k in before.keys() {
                if k.as_str() != e.key.to_ascii_lowercase() && before.get_all(k).iter().collect::<Vec<_>>() != after.get_all(k).iter().collect::<Vec<_>>() && why.is_none() {
                    why = Some(format!("entry operation on {:?} changed {}", e.key, k));
                }
            }
            // a binary value stored through a handle reads back as the bytes that were stored
            let status = match &t {
                Tr::L(l) => match l.first() {
                    Some(Tr::N(n)) => *n,
                    _ => 0,
                },
                _ => 0,
            };
            let stores = (status == 1 && e.act <= 3) || (status == 2 && matches!(e.act, 1 | 2 | 4 | 6 | 7));
            if e.bin && stores && name_is_bin {
                let back: Vec<Option<Vec<u8>>> = md.get_all_bin(e.key.as_str()).iter().map(|v| v.to_bytes().ok().map(|b| b.to_vec())).collect();
                if !back.contains(&Some(e.val.clone())) && why.is_none() {
                    why = Some(format!("bytes stored through an entry_bin handle on {:?} do not read back", e.key));
                }
            }
            trs.push(t);
        }
        if panicked {
            // the map is in an unspecified state after a panic inside http: not looked at
            return (Tr::L(vec![Tr::L(trs), Tr::L(vec![])]), why, true);
        }
        let h = md.clone().into_headers();
        if why.is_none() {
            why = oracle_typed(&h);
        }
        let (a, b) = iter_split(&md);
        (Tr::L(vec![Tr::L(trs), Tr::L(vec![hm_tr(&h), Tr::L(vec![hm_tr(&a), hm_tr(&b)])])]), why, false)
    }));
    let (obs, oracle, panicked) = match res {
        Ok(x) => x,
        Err(p) => (Tr::L(vec![Tr::n(99u8)]), Some(format!("panic: {}", p)), false),
    };
    out.hist("entry.insert_mult_panic_in_http", panicked);
    for e in eops {
        out.hist("entry.action", format!("{}{}", if e.bin { "entry_bin/" } else { "entry/" }, e.act));
    }
    out.push(Case {
        kind: if corpus { "corpus.entry".into() } else { "entry".into() },
        input: json!({"ops": ops_json(ops), "eops": eops.iter().map(|e| json!([e.bin, hex(e.key.as_bytes()), e.act, hex(&e.val)])).collect::<Vec<_>>()}),
        model: format!("obs_entry {} {}", coq_ops(ops), coq_eops(eops)),
        impl_obs: obs,
        oracle,
        nontrivial: !eops.is_empty(),
    });
}
fn gen_eops(r: &mut Rng, ops: &[Op]) -> Vec<EOp> {
    let n = r.range(1, 4);
    (0..n)
        .map(|_| {
            let bin = r.chance(1, 2);
            let key: String = match r.below(12) {
                0 => (*r.pick(&["", "x a", "x\u{e9}-bin"])).to_string(),
                1 => (*r.pick(if bin { ASCII_KEYS } else { BIN_KEYS })).to_string(),
                2..=6 if !ops.is_empty() => {
                    let k = r.pick(ops).key.clone();
                    if r.chance(1, 3) {
                        flip_case(r, &k)
                    } else {
                        k
                    }
                }
                _ => (*r.pick(if bin { BIN_KEYS } else { ASCII_KEYS })).to_string(),
            };
            let val = if bin {
                gen_bin_value(r)
            } else {
                let n = r.range(0, 6) as usize;
                (0..n).map(|_| r.range(0x21, 0x7e) as u8).collect()
            };
            EOp { bin, key, act: r.below(8) as u8, val }
        })
        .collect()
}
fn case_mutate(out: &mut Out, ops: &[Op], probe: &str, va: &[u8], vb: &[u8]) {
    let res = catch(std::panic::AssertUnwindSafe(|| {
        let (md, _) = apply_ops(ops);
        let a = MetadataValue::<Ascii>::try_from(va).unwrap();
        let b = MetadataValue::<Binary>::from_bytes(vb);
        let (mut m1, mut m2, mut m3, mut m4) = (md.clone(), md.clone(), md.clone(), md.clone());
        let g = m1.get_mut(probe).map(|v| Tr::b(v.as_encoded_bytes()));
        if let Some(v) = m1.get_mut(probe) {
            *v = a.clone();
        }
        let gb = m2.get_bin_mut(probe).map(|v| bin_val_tr(v));
        if let Some(v) = m2.get_bin_mut(probe) {
            *v = b.clone();
        }
        let bang = |v: &[u8]| {
            let mut x = v.to_vec();
            x.push(b'!');
            MetadataValue::<Ascii>::try_from(&x[..]).unwrap()
        };
        for v in m3.values_mut() {
            match v {
                ValueRefMut::Ascii(v) => *v = bang(v.as_encoded_bytes()),
                ValueRefMut::Binary(v) => *v = MetadataValue::from_bytes(&[1]),
            }
        }
        for kv in m4.iter_mut() {
            match kv {
                KeyAndMutValueRef::Ascii(_, v) => *v = bang(v.as_encoded_bytes()),
                KeyAndMutValueRef::Binary(_, v) => *v = MetadataValue::from_bytes(&[1]),
            }
        }
        // direct oracle: after the pass every -bin entry is the marker, every other one got a '!'
        let h0 = md.clone().into_headers();
        let mut why = None;
        for (name, m) in [("values_mut", &m3), ("iter_mut", &m4)] {
            let h = m.clone().into_headers();
            for k in h0.keys() {
                let want: Vec<Vec<u8>> = h0
                    .get_all(k)
                    .iter()
                    .map(|v| if k.as_str().ends_with("-bin") { b"AQ".to_vec() } else { [v.as_bytes(), b"!"].concat() })
                    .collect();
                let got: Vec<Vec<u8>> = h.get_all(k).iter().map(|v| v.as_bytes().to_vec()).collect();
                if got != want {
                    why = Some(format!("{} handed out the entries of {} with the wrong type", name, k));
                }
            }
        }
        let pbin = probe.to_ascii_lowercase().ends_with("-bin");
        if (pbin && g.is_some()) || (!pbin && gb.is_some()) {
            why = Some(format!("get_mut / get_bin_mut presents an entry of the other kind for {:?}", probe));
        }
        (
            Tr::L(vec![
                Tr::opt(g),
                Tr::opt(gb),
                hm_tr(&m1.into_headers()),
                hm_tr(&m2.into_headers()),
                hm_tr(&m3.into_headers()),
                hm_tr(&m4.into_headers()),
            ]),
            why,
        )
    }));
    let (obs, oracle) = match res {
        Ok(x) => x,
        Err(p) => (Tr::L(vec![Tr::n(99u8)]), Some(format!("panic: {}", p))),
    };
    out.push(Case {
        kind: "mutate".into(),
        input: json!({"ops": ops_json(ops), "probe": probe, "ascii": hex(va), "bin": hex(vb)}),
        model: format!("obs_mutate {} {} {} {}", coq_ops(ops), coq_bytes(probe.as_bytes()), coq_bytes(va), coq_bytes(vb)),
        impl_obs: obs,
        oracle,
        nontrivial: !ops.is_empty(),
    });
}

// ------------------------------------------------------------------ literal keys and values
fn leak(s: &str) -> &'static str {
    Box::leak(s.to_string().into_boxed_str())
}
fn res_tr(r: Result<Tr, String>) -> Tr {
    match r {
        Ok(t) => Tr::L(vec![Tr::n(1u8), t]),
        Err(_) => Tr::L(vec![Tr::n(99u8)]),
    }
}
/// accessors keyed by MetadataKey<VE> / &MetadataKey<VE> answer like the string-keyed ones
fn typed_keys_agree(md: &MetadataMap, raw: &str) -> bool {
    let mut ok = true;
    let enc = |v: Option<&MetadataValue<Ascii>>| v.map(|v| v.as_encoded_bytes().to_vec());
    let encb = |v: Option<&MetadataValue<Binary>>| v.map(|v| v.as_encoded_bytes().to_vec());
    if let Ok(k) = MetadataKey::<Ascii>::from_bytes(raw.as_bytes()) {
        let s = k.as_str().to_string();
        ok &= enc(md.get(k.clone())) == enc(md.get(s.as_str())) && enc(md.get(&k)) == enc(md.get(s.as_str()));
        let all = |g: tonic::metadata::GetAll<'_, Ascii>| g.iter().map(|v| v.as_encoded_bytes().to_vec()).collect::<Vec<_>>();
        ok &= all(md.get_all(&k)) == all(md.get_all(s.as_str())) && all(md.get_all(k.clone())) == all(md.get_all(s.as_str()));
        ok &= md.contains_key(&k) == md.contains_key(s.as_str());
        let (mut m1, mut m2, mut m3) = (md.clone(), md.clone(), md.clone());
        ok &= m1.get_mut(&k).is_some() == m2.get_mut(s.as_str()).is_some();
        ok &= matches!(m1.entry(&k), Ok(Entry::Occupied(_))) == matches!(m2.entry(s.as_str()), Ok(Entry::Occupied(_)));
        ok &= matches!(m3.entry(k.clone()), Ok(Entry::Occupied(_))) == matches!(m2.entry(s.as_str()), Ok(Entry::Occupied(_)));
        ok &= enc(m1.remove(&k).as_ref()) == enc(m2.remove(s.as_str()).as_ref());
        m3.remove(k);
        ok &= m1.clone().into_headers() == m2.into_headers() && m1.into_headers() == m3.into_headers();
    }
    if let Ok(k) = MetadataKey::<Binary>::from_bytes(raw.as_bytes()) {
        let s = k.as_str().to_string();
        ok &= encb(md.get_bin(k.clone())) == encb(md.get_bin(s.as_str())) && encb(md.get_bin(&k)) == encb(md.get_bin(s.as_str()));
        let all = |g: tonic::metadata::GetAll<'_, Binary>| g.iter().map(|v| v.as_encoded_bytes().to_vec()).collect::<Vec<_>>();
        ok &= all(md.get_all_bin(&k)) == all(md.get_all_bin(s.as_str())) && all(md.get_all_bin(k.clone())) == all(md.get_all_bin(s.as_str()));
        ok &= md.contains_key(&k) == md.contains_key(s.as_str());
        let (mut m1, mut m2, mut m3) = (md.clone(), md.clone(), md.clone());
        ok &= m1.get_bin_mut(&k).is_some() == m2.get_bin_mut(s.as_str()).is_some();
        ok &= matches!(m1.entry_bin(&k), Ok(Entry::Occupied(_))) == matches!(m2.entry_bin(s.as_str()), Ok(Entry::Occupied(_)));
        ok &= matches!(m3.entry_bin(k.clone()), Ok(Entry::Occupied(_))) == matches!(m2.entry_bin(s.as_str()), Ok(Entry::Occupied(_)));
        ok &= encb(m1.remove_bin(&k).as_ref()) == encb(m2.remove_bin(s.as_str()).as_ref());
        m3.remove_bin(k);
        ok &= m1.clone().into_headers() == m2.into_headers() && m1.into_headers() == m3.into_headers();
    }
    ok
}
fn case_static(out: &mut Out, ops: &[Op], raw: &str, v: &str, corpus: bool) {
    let (md, _) = apply_ops(ops);
    let (sraw, sv) = (leak(raw), leak(v));
    let mut why: Option<String> = None;
    let ka = catch(move || MetadataKey::<Ascii>::from_static(sraw).as_str().to_string());
    let kb = catch(move || MetadataKey::<Binary>::from_static(sraw).as_str().to_string());
    let is_bin_name = raw.ends_with("-bin");
    if ka.is_ok() && kb.is_ok() {
        why = Some("a literal key is accepted as both ASCII and binary".into());
    } else if ka.is_ok() && is_bin_name {
        why = Some(format!("AsciiMetadataKey::from_static accepts the -bin name {:?}", raw));
    } else if kb.is_ok() && !is_bin_name {
        why = Some(format!("BinaryMetadataKey::from_static accepts the name {:?} without -bin", raw));
    } else if ka.as_ref().ok().or(kb.as_ref().ok()).map(|k| k != raw).unwrap_or(false) {
        why = Some("from_static changed the key".into());
    }
    let pa = raw.parse::<MetadataKey<Ascii>>().ok().map(|k| Tr::s(k.as_str()));
    let pb = raw.parse::<MetadataKey<Binary>>().ok().map(|k| Tr::s(k.as_str()));
    let va = catch(move || MetadataValue::<Ascii>::from_static(sv));
    let vb = catch(move || MetadataValue::<Binary>::from_static(sv));
    if let Ok(x) = &va {
        if x.as_encoded_bytes() != v.as_bytes() && why.is_none() {
            why = Some("an ASCII literal value changed".into());
        }
    }
    if let Ok(x) = &vb {
        if (x.as_encoded_bytes() != v.as_bytes() || x.to_bytes().is_err()) && why.is_none() {
            why = Some("a binary literal value is not kept as written / does not decode".into());
        }
    }
    let fs = v.parse::<MetadataValue<Ascii>>().ok().map(|x| Tr::b(x.as_encoded_bytes()));
    let sh = MetadataValue::<Ascii>::try_from(Bytes::copy_from_slice(v.as_bytes())).ok().map(|x| Tr::b(x.as_encoded_bytes()));
    let shb = MetadataValue::<Binary>::try_from(Bytes::copy_from_slice(v.as_bytes())).ok();
    if let Some(x) = &shb {
        if x.to_bytes().ok().as_deref() != Some(v.as_bytes()) && why.is_none() {
            why = Some("a binary value made from shared bytes does not decode to them".into());
        }
    }
    let mut ins = vec![];
    for (bin, append) in [(false, false), (false, true), (true, false), (true, true)] {
        let mut m = md.clone();
        let r = catch(std::panic::AssertUnwindSafe(move || {
            match (bin, append) {
                (false, false) => {
                    m.insert(sraw, MetadataValue::<Ascii>::from_static("sv"));
                }
                (false, true) => {
                    m.append(sraw, MetadataValue::<Ascii>::from_static("sv"));
                }
                (true, false) => {
                    m.insert_bin(sraw, MetadataValue::<Binary>::from_bytes(&[1]));
                }
                (true, true) => {
                    m.append_bin(sraw, MetadataValue::<Binary>::from_bytes(&[1]));
                }
            }
            m.into_headers()
        }));
        if let Ok(h) = &r {
            // (HeaderName::from_static accepts a double quote in a name, from_bytes does not: look the name up by text)
            let stored = h.keys().any(|k| k.as_str() == raw);
            if (!stored || is_bin_name != bin) && why.is_none() {
                why = Some(format!(
                    "{} with the literal key {:?} stored a {} value under a {} name",
                    if append { "append" } else { "insert" }, raw, if bin { "binary" } else { "ASCII" }, if is_bin_name { "-bin" } else { "non -bin" }
                ));
            }
            if why.is_none() {
                why = oracle_typed(h);
            }
        }
        ins.push(res_tr(r.map(|h| hm_tr(&h))));
    }
    let agree = typed_keys_agree(&md, raw);
    if !agree && why.is_none() {
        why = Some(format!("accessors keyed by MetadataKey differ from the string-keyed ones for {:?}", raw));
    }
    let mut l = vec![
        res_tr(ka.map(|k| Tr::s(&k))),
        res_tr(kb.map(|k| Tr::s(&k))),
        Tr::opt(pa),
        Tr::opt(pb),
        res_tr(va.map(|x| Tr::b(x.as_encoded_bytes()))),
        res_tr(vb.map(|x| bin_val_tr(&x))),
        Tr::opt(fs),
        Tr::opt(sh),
        Tr::opt(shb.as_ref().map(bin_val_tr)),
    ];
    l.extend(ins);
    l.push(Tr::bool(agree));
    out.hist("static.key", if raw.is_empty() { "empty" } else if raw.bytes().any(|b| b.is_ascii_uppercase()) { "upper-case" } else if is_bin_name { "-bin" } else { "other" });
    out.push(Case {
        kind: if corpus { "corpus.static".into() } else { "static".into() },
        input: json!({"ops": ops_json(ops), "key": raw, "value": v}),
        model: format!("obs_static {} {} {}", coq_ops(ops), coq_bytes(raw.as_bytes()), coq_bytes(v.as_bytes())),
        impl_obs: Tr::L(l),
        oracle: why,
        nontrivial: true,
    });
}

fn op(t: u8, k: &str, v: &[u8]) -> Op {
    Op { t, key: k.to_string(), val: v.to_vec() }
}

fn main() {
    let a = args();
    let mut out = Out::new(&a.out);
    let mut r = Rng::new(a.seed);

    // ---- corpus: F-C08a witness, all reserved names on every path, boundary values
    let w = vec![op(2, "x-data-bin", b"hello"), op(0, "x-a", b"v")];
    case_accessor(
        &mut out,
        &w,
        ["X-DATA-BIN", "x-data-Bin", "x-data-bin", "X-A", "x-a", "X-A-BIN"].iter().map(|s| s.to_string()).collect(),
        true,
    );
    case_accessor(&mut out, &[op(3, "-bin", b"\x00"), op(1, "bin", b"x"), op(4, "-BIN", b""), op(5, "-BIN", b"")],
        ["-bin", "-BIN", "bin", "BIN"].iter().map(|s| s.to_string()).collect(), true);
    // F-C08b: entry_bin on a vacant name -> insert_entry -> the handle must be a binary handle:
    // its key and get() are typed Binary and get().to_bytes() gives back the stored bytes
    let eb = |act: u8| EOp { bin: true, key: "x-data-bin".into(), act, val: b"hello".to_vec() };
    case_entry(&mut out, &[], &[eb(2)], true);
    case_entry(&mut out, &[], &[eb(3)], true);
    case_entry(&mut out, &[op(1, "x-a", b"v")], &[eb(2), eb(2), eb(4), EOp { bin: false, key: "X-DATA-BIN".into(), act: 1, val: b"ascii".to_vec() }], true);
    for act in 0..8u8 {
        let ea = EOp { bin: false, key: "X-A".into(), act, val: b"new".to_vec() };
        case_entry(&mut out, &[op(1, "x-a", b"1"), op(1, "x-a", b"2"), op(3, "x-p-bin", b"\x00\x01")], &[ea.clone()], true);
        case_entry(&mut out, &[op(1, "x-a", b"1"), op(1, "x-a", b"2"), op(3, "x-p-bin", b"\x00\x01")], &[EOp { bin: true, key: "x-p-BIN".into(), act, val: vec![9, 8, 7, 6] }], true);
        case_entry(&mut out, &[], &[ea, eb(act)], true);
    }
    // crate http 1.5.0: insert_mult on a name with three values panics (modelled as Panic)
    for n in 1..=4usize {
        let o: Vec<Op> = (0..n).map(|i| op(1, "x-a", &[b'1' + i as u8])).collect();
        case_entry(&mut out, &o, &[EOp { bin: false, key: "x-a".into(), act: 4, val: b"z".to_vec() }, EOp { bin: false, key: "x-a".into(), act: 2, val: b"y".to_vec() }], true);
    }
    let mut forged: Vec<Op> = RESERVED.iter().map(|k| op(1, k, b"forged")).collect();
    forged.push(op(1, "x-a", b"1"));
    forged.push(op(3, "x-p-bin", b"\x00\xff\x07"));
    forged.push(op(1, "x-a", b"2"));
    forged.push(op(1, "grpc-status", b"0"));
    forged.push(op(1, "grpc-encoding", b"zstd"));
    forged.push(op(3, "grpc-status-details-bin", b"user"));
    for compress in [false, true] {
        case_client(&mut out, &mut r, &forged, compress, false, true);
        case_client(&mut out, &mut r, &forged, compress, true, true);
        for (reply, streaming) in [(Reply::Ok, false), (Reply::Ok, true), (Reply::StreamErr, true), (Reply::Err, false), (Reply::Err, true)] {
            case_server(&mut out, &mut r, &forged, reply, streaming, compress, (7, "no: 100%".into(), vec![]), true);
            case_server(&mut out, &mut r, &forged, reply, streaming, compress, (13, "".into(), vec![1, 2, 3, 4]), true);
        }
    }
    // literal keys and values
    for k in ["x-a", "x-bin", "x-data-bin", "-bin", "bin", "X-A", "X-BIN", "x-Bin", "", "x a", "x\"y", "x{y}", "te", "grpc-status-details-bin", "x\u{e9}"] {
        for v in ["", "text", "QQ==", "QQ", "QQ=", "Q", "!!!", "a\tb", "caf\u{e9}", "del\u{7f}"] {
            case_static(&mut out, &[op(1, "x-a", b"1"), op(3, "x-data-bin", b"\x00\x01")], k, v, true);
        }
    }
    // trailers of a successful unary response with repeated custom keys (merge)
    {
        let mut h = HeaderMap::new();
        h.insert("content-type", HeaderValue::from_static("application/grpc"));
        h.append("x-a", HeaderValue::from_static("h1"));
        h.append("x-a", HeaderValue::from_static("h2"));
        h.append("x-head", HeaderValue::from_static("only-in-headers"));
        let mut t = HeaderMap::new();
        for v in ["one", "two", "three"] {
            t.append("x-trail", HeaderValue::from_static(v));
        }
        t.append("x-trail-bin", HeaderValue::from_static("AP8H"));
        t.append("x-trail-bin", HeaderValue::from_static("QQ=="));
        t.append("x-trail-bin", HeaderValue::from_static("QUI"));
        t.append("x-a", HeaderValue::from_static("t1"));
        for cs in [false, true] {
            case_client_trailers(&mut out, &mut r, false, cs, true, Some((h.clone(), t.clone())));
            case_client_trailers(&mut out, &mut r, true, cs, true, Some((h.clone(), t.clone())));
        }
        let mut rh = HeaderMap::new();
        rh.insert("te", HeaderValue::from_static("trailers"));
        rh.insert("content-type", HeaderValue::from_static("application/grpc"));
        rh.append("x-a", HeaderValue::from_static("h1"));
        for st in [false, true] {
            case_server_request_trailers(&mut out, &mut r, st, Some((rh.clone(), t.clone())));
        }
    }
    // error status with repeated ASCII and binary keys, as the client sees it
    let rep = vec![op(1, "x-a", b"1"), op(1, "x-a", b"2"), op(1, "x-a", b"3"), op(3, "x-p-bin", b"\x00"), op(3, "x-p-bin", b"\x01\x02"), op(1, "x-b", b"only"), op(1, "te", b"forged")];
    for (after, streaming) in [(false, false), (false, true), (true, true)] {
        case_client_error(&mut out, &mut r, &rep, (7, "denied".into(), vec![]), after, streaming, true);
        case_client_error(&mut out, &mut r, &rep, (13, "".into(), vec![1, 2, 3]), after, streaming, true);
        case_client_error(&mut out, &mut r, &forged, (5, "m %".into(), vec![9]), after, streaming, true);
    }
    // F-C04e (fixed by ed827503): a status WITHOUT details whose metadata holds an entry named
    // grpc-status-details-bin - the entry must not reach the wire, the receiver must read no details
    let own_det = vec![op(1, "x-a", b"1"), op(3, "grpc-status-details-bin", b"user"), op(3, "grpc-status-details-bin", b"\x00\x01"), op(1, "x-b", b"2")];
    for (after, streaming) in [(false, false), (false, true), (true, true)] {
        case_client_error(&mut out, &mut r, &own_det, (7, "no".into(), vec![]), after, streaming, true);
        case_client_error(&mut out, &mut r, &own_det, (7, "".into(), vec![5, 6]), after, streaming, true);
    }
    for (reply, streaming) in [(Reply::StreamErr, true), (Reply::Err, false), (Reply::Err, true)] {
        case_server(&mut out, &mut r, &own_det, reply, streaming, false, (7, "no".into(), vec![]), true);
    }
    {
        let mut stale = HeaderMap::new();
        stale.append("grpc-status-details-bin", HeaderValue::from_static("c3RhbGU"));
        stale.append("x-keep", HeaderValue::from_static("k"));
        case_add_header(&mut out, &mut r, &own_det, (7, "no".into(), vec![]), HeaderMap::new(), true);
        case_add_header(&mut out, &mut r, &own_det, (7, "no".into(), vec![]), stale.clone(), true);
        case_add_header(&mut out, &mut r, &[op(1, "x-a", b"1")], (7, "".into(), vec![]), stale.clone(), true);
        case_add_header(&mut out, &mut r, &own_det, (7, "no".into(), vec![1]), stale, true);
    }
    case_add_header(&mut out, &mut r, &rep, (3, "bad".into(), vec![]), HeaderMap::new(), true);
    let mut base = HeaderMap::new();
    base.insert("content-type", HeaderValue::from_static("application/grpc"));
    base.append("x-a", HeaderValue::from_static("old"));
    base.append("x-keep", HeaderValue::from_static("k"));
    base.insert("grpc-status", HeaderValue::from_static("0"));
    case_add_header(&mut out, &mut r, &forged, (5, "m".into(), vec![9]), base.clone(), true);
    case_add_header(&mut out, &mut r, &forged, (0, "".into(), vec![]), HeaderMap::new(), true);
    for n in 0..=9usize {
        let b: Vec<u8> = (0..n).map(|i| (i * 37 + 200) as u8).collect();
        case_bin_value(&mut out, &b, true);
    }
    for t in B64_TEXTS {
        case_bin_text(&mut out, t, b"QQ==", true);
    }
    for k in ["x-a", "X-A", "x-bin", "X-BIN", "x-Bin", "-bin", "bin", "", "x a", "x-bin ", "x\u{e9}", "te", "grpc-status-details-bin", "a-bin-b"] {
        case_key(&mut out, k.as_bytes());
    }

    // ---- generated
    let n = if a.thorough { 4000 } else { 300 } * a.scale.max(1);
    for i in 0..n {
        let ops = gen_ops(&mut r, false);
        case_client(&mut out, &mut r, &ops, i % 3 == 0, i % 2 == 0, false);
    }
    for i in 0..n {
        let ops = gen_ops(&mut r, false);
        let st = (r.below(17) as u32, gen_message(&mut r), gen_details(&mut r));
        let (reply, streaming) = *r.pick(&[(Reply::Ok, false), (Reply::Ok, true), (Reply::StreamErr, true), (Reply::Err, false), (Reply::Err, true)]);
        case_server(&mut out, &mut r, &ops, reply, streaming, i % 4 == 0, st, false);
    }
    for _ in 0..n / 2 {
        let ops = gen_ops(&mut r, false);
        let st = (r.below(17) as u32, gen_message(&mut r), gen_details(&mut r));
        let mut base = HeaderMap::new();
        for _ in 0..r.below(4) {
            let k = r.pick(&["content-type", "x-a", "x-keep", "grpc-status", "grpc-message", "x-payload-bin", "date"]);
            base.append(*k, HeaderValue::from_static("base"));
        }
        case_add_header(&mut out, &mut r, &ops, st, base, false);
    }
    for _ in 0..n / 2 {
        let ops = gen_ops(&mut r, false);
        let k: String = match r.below(6) {
            0 => (*r.pick(&["", "x a", "x\"y", "x{y}", "x\u{e9}", "a\n"])).to_string(),
            1 => {
                let k = *r.pick(BIN_KEYS);
                flip_case(&mut r, k)
            }
            2 | 3 => r.pick(BIN_KEYS).to_ascii_lowercase(),
            _ => (*r.pick(ASCII_KEYS)).to_string(),
        };
        let v: String = match r.below(4) {
            0 => String::from_utf8_lossy(&gen_b64_text(&mut r)).to_string(),
            1 => String::from_utf8(b64(&gen_bin_value(&mut r), r.chance(1, 2))).unwrap(),
            _ => String::from_utf8_lossy(&gen_ascii_value(&mut r)).to_string(),
        };
        case_static(&mut out, &ops, &k, &v, false);
    }
    for i in 0..n / 2 {
        case_client_trailers(&mut out, &mut r, i % 4 == 3, i % 2 == 0, i % 7 != 0, None);
    }
    for i in 0..n / 3 {
        case_server_request_trailers(&mut out, &mut r, i % 2 == 0, None);
    }
    for _ in 0..n / 2 {
        let ops = gen_ops(&mut r, false);
        let st = (r.range(1, 16) as u32, gen_message(&mut r), gen_details(&mut r));
        let (after, streaming) = *r.pick(&[(false, false), (false, true), (true, true)]);
        case_client_error(&mut out, &mut r, &ops, st, after, streaming, false);
    }
    for _ in 0..n {
        let ops = gen_ops(&mut r, true);
        let (md, _) = apply_ops(&ops);
        let probes = gen_probes(&mut r, &md.into_headers(), 4);
        case_accessor(&mut out, &ops, probes, false);
    }
    for _ in 0..n {
        let ops = gen_ops(&mut r, true);
        let eops = gen_eops(&mut r, &ops);
        case_entry(&mut out, &ops, &eops, false);
    }
    for _ in 0..n / 2 {
        let ops = gen_ops(&mut r, true);
        let (md, _) = apply_ops(&ops);
        let probe = gen_probes(&mut r, &md.into_headers(), 1).remove(0);
        let va: Vec<u8> = (0..r.range(0, 5)).map(|_| r.range(0x21, 0x7e) as u8).collect();
        let vb = gen_bin_value(&mut r);
        case_mutate(&mut out, &ops, &probe, &va, &vb);
    }
    for _ in 0..n / 2 {
        let b = gen_bin_value(&mut r);
        case_bin_value(&mut out, &b, false);
    }
    for _ in 0..n / 2 {
        let (x, y) = (gen_b64_text(&mut r), gen_b64_text(&mut r));
        case_bin_text(&mut out, &x, &y, false);
    }
    for _ in 0..n / 3 {
        let k: String = match r.below(4) {
            0 => {
                let len = r.range(0, 8) as usize;
                (0..len).map(|_| *r.pick(b"abXY-09_.! :@\xc3\xa9~bin") as char).collect()
            }
            1 => {
                let k = *r.pick(BIN_KEYS);
                flip_case(&mut r, k)
            }
            _ => {
                let k = *r.pick(ASCII_KEYS);
                flip_case(&mut r, k)
            }
        };
        case_key(&mut out, k.as_bytes());
        let vl = r.range(0, 6) as usize;
        let v = if r.chance(1, 4) { r.bytes(vl) } else { gen_ascii_value(&mut r) };
        case_ascii_value(&mut out, &v);
    }

    out.finish(
        IMPORTS,
        "client / server.response / server.trailers / server.trailers_only / add_header: random MetadataMaps built through the public API (keys +-bin in any case, visible-ASCII, space/tab and obs-text values, binary values of every length mod 3, repeated keys, the six reserved names and grpc-encoding / grpc-status-details-bin anywhere) sent through the real client::Grpc (capturing transport), server::Grpc unary / server-streaming handlers (Response metadata, error status in trailers, trailers-only) and Status::add_header, with and without compression configured; the peer's request reaches the handler with padded and unpadded binary values; non-trivial = non-empty metadata. status_received: the headers written by Status::add_header read back with Status::from_header_map, the received status.metadata() read with the typed accessors. client_error.trailers_only / client_error.trailers: a real server::Grpc handler (unary and server-streaming) failing with a status that carries repeated ASCII and binary keys, called by a real client::Grpc over an in-memory transport; the Err(status).metadata() the caller gets. merge.client_response / merge.client_error_fold / merge.server_request: MetadataMap::merge at its three call sites - client::Grpc::unary and client_streaming against a scripted response (headers, one message, trailers with repeated custom keys, padded and unpadded binary values, names shared with the headers), an error status in the trailers of a unary call (headers folded into the status metadata), and a scripted request with trailers into server::Grpc::unary / server_streaming. static: literal keys and values - MetadataKey::<Ascii|Binary>::from_static and FromStr, MetadataValue::<Ascii|Binary>::from_static / FromStr / TryFrom<Bytes>, insert / append / insert_bin / append_bin with &'static str keys (panics observed under catch), accessors keyed by MetadataKey<VE> and &MetadataKey<VE>. accessor: maps built by insert/append/remove(+_bin) and read with string keys of any case (&str, String and &String). Every received map is also read through iter, iter_mut, keys, values, values_mut, get_mut, get_bin_mut and entry / entry_bin. entry: the Entry API (or_insert, VacantEntry insert / insert_entry / into_key, OccupiedEntry get / iter / insert / insert_mult / append / remove / remove_entry_mult / get_mut / iter_mut) with keys of any case and of the wrong kind, the static encoding of every key / value / handle it hands out is observed. mutate: writes through get_mut / get_bin_mut / values_mut / iter_mut. bin_value / bin_text: byte strings and arbitrary base64 texts. key / ascii_value: validation. Distinct = distinct (kind, model expression).",
        json!({}),
    );
}
