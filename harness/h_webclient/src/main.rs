//! C17 correspondence harness: the grpc-web CLIENT layer of tonic-web.
//! The real `GrpcWebClientService` wraps a scripted inner service; the `GrpcWebCall` response
//! body it returns is polled frame by frame (kinds without `stack`), or read by the real
//! `tonic::client::Grpc` (kinds `*stack*`: what the caller of a generated client sees).  Every case
//! is checked by a direct oracle (what the property demands, computed from the frames, trailers
//! and statuses that were ENCODED by this harness, never from the model) and is also evaluated by
//! the Coq model (`obs_client_x`, `obs_client_hyper_x`, `obs_stack`).
use bytes::{Buf, BufMut, Bytes};
use http::{HeaderMap, HeaderName, HeaderValue, Request, Response, Version};
use http_body::{Body as HttpBody, Frame};
use serde_json::{json, Value};
use std::convert::Infallible;
use std::pin::Pin;
use std::sync::atomic::{AtomicUsize, Ordering};
use std::sync::{Arc, Mutex};
use std::task::{Context, Poll};
use tonic::codec::{Codec, DecodeBuf, Decoder, EncodeBuf, Encoder};
use tonic::Status;
use tonic_web::{GrpcWebCall, GrpcWebClientService};
use tower_service::Service;
use vcommon::body::{spin, Ev, ScriptBody};
use vcommon::*;

const IMPORTS: &str =
    "From Verif Require Import Lib.Bytes Lib.Obs Lib.HeaderMap Model.Frame Model.WebServer Model.WebClient.";

/// Cases are collected and written at the end in a stride-16 order: the driver evaluates the
/// model in 16 shards of consecutive cases and the large sized cases are generated in one block;
/// case i of the run goes to shard i mod 16 so that the shards stay balanced.
struct OutB {
    inner: Out,
    cases: Vec<Option<Case>>,
}
impl OutB {
    fn new(dir: &str) -> OutB {
        OutB { inner: Out::new(dir), cases: vec![] }
    }
    fn hist(&mut self, name: &str, bucket: impl ToString) {
        self.inner.hist(name, bucket)
    }
    fn push(&mut self, c: Case) {
        self.cases.push(Some(c));
    }
    fn finish(mut self, imports: &str, rule: &str, extra: Value) {
        let n = self.cases.len();
        for j in 0..16 {
            let mut i = j;
            while i < n {
                self.inner.push(self.cases[i].take().unwrap());
                i += 16;
            }
        }
        self.inner.finish(imports, rule, extra)
    }
}

// ------------------------------------------------------------------ scripted inner body
#[derive(Clone, Debug)]
struct InnerErr;
impl std::fmt::Display for InnerErr {
    fn fmt(&self, f: &mut std::fmt::Formatter<'_>) -> std::fmt::Result {
        f.write_str("inner-error")
    }
}

/// counts polls and `None` answers of the wrapped script; breaks a busy loop by panicking
struct CountBody {
    inner: ScriptBody<InnerErr>,
    polls: Arc<AtomicUsize>,
    ends: Arc<AtomicUsize>,
    /// how `is_end_stream` answers: 0 never, 1 once the script is exhausted, 2 once no data is left
    eos_mode: u8,
}
impl CountBody {
    fn eos(&self) -> bool {
        match self.eos_mode {
            1 => self.inner.evs.is_empty(),
            2 => !self.inner.evs.iter().any(|e| matches!(e, Ev::Data(_))),
            _ => false,
        }
    }
}
impl HttpBody for CountBody {
    fn is_end_stream(&self) -> bool {
        self.eos()
    }
    /// the wrapped body knows its length exactly (like a hyper body with a content-length):
    /// a GrpcWebCall that forwarded this hint would be caught (its DATA is shorter)
    fn size_hint(&self) -> http_body::SizeHint {
        let n: usize = self.inner.evs.iter().map(|e| if let Ev::Data(d) = e { d.len() } else { 0 }).sum();
        http_body::SizeHint::with_exact(n as u64)
    }
    type Data = Bytes;
    type Error = InnerErr;
    fn poll_frame(
        mut self: Pin<&mut Self>,
        cx: &mut Context<'_>,
    ) -> Poll<Option<Result<Frame<Bytes>, InnerErr>>> {
        self.polls.fetch_add(1, Ordering::SeqCst);
        let r = Pin::new(&mut self.inner).poll_frame(cx);
        if let Poll::Ready(None) = r {
            if self.ends.fetch_add(1, Ordering::SeqCst) > 1000 {
                panic!("BUSYLOOP: ended inner body polled more than 1000 times");
            }
        }
        r
    }
}

/// one scripted poll result, serialisable
#[derive(Clone, Debug)]
enum E {
    P,
    D(Vec<u8>),
    /// a data chunk that is one whole frame: flag, payload length, fill byte (compact for Coq)
    Fr(u8, usize, u8),
    T(Vec<(String, Vec<u8>)>),
    X,
}
fn pairs_to_map(t: &[(String, Vec<u8>)]) -> HeaderMap {
    let mut m = HeaderMap::new();
    for (k, v) in t {
        m.append(
            HeaderName::from_bytes(k.as_bytes()).unwrap(),
            HeaderValue::from_bytes(v).unwrap(),
        );
    }
    m
}
fn to_ev(e: &E) -> Ev<InnerErr> {
    match e {
        E::P => Ev::Pending,
        E::D(d) => Ev::Data(d.clone()),
        E::Fr(f, n, b) => Ev::Data(frame(*f, &vec![*b; *n])),
        E::T(t) => Ev::Trailers(pairs_to_map(t)),
        E::X => Ev::Err(InnerErr),
    }
}
fn ev_coq(e: &E) -> String {
    match e {
        E::P => "EvPending".into(),
        E::D(d) => format!("(EvData {})", coq_bytes(d)),
        E::Fr(f, n, b) => format!("(EvData (frame {} (rep {} {})))", f, n, b),
        E::T(t) => format!("(EvTrailers {})", coq_hm(&pairs_to_map(t))),
        E::X => "EvErr".into(),
    }
}
fn evs_coq(evs: &[E]) -> String {
    coq_list(evs, ev_coq)
}
fn ev_json(e: &E) -> Value {
    match e {
        E::P => json!("p"),
        E::D(d) => json!({ "d": hex(d) }),
        E::Fr(f, n, b) => json!({ "frame": [f, n, b] }),
        E::T(t) => json!({"t": t.iter().map(|(k, v)| json!([k, hex(v)])).collect::<Vec<_>>()}),
        E::X => json!("x"),
    }
}
fn pairs_from_json(v: &Value) -> Vec<(String, Vec<u8>)> {
    v.as_array()
        .map(|a| {
            a.iter()
                .map(|p| (p[0].as_str().unwrap().to_string(), unhex(p[1].as_str().unwrap())))
                .collect()
        })
        .unwrap_or_default()
}
fn ev_from_json(v: &Value) -> E {
    if v == "p" {
        E::P
    } else if v == "x" {
        E::X
    } else if let Some(d) = v.get("d") {
        E::D(unhex(d.as_str().unwrap()))
    } else if let Some(f) = v.get("frame") {
        E::Fr(f[0].as_u64().unwrap() as u8, f[1].as_u64().unwrap() as usize, f[2].as_u64().unwrap() as u8)
    } else {
        E::T(pairs_from_json(&v["t"]))
    }
}

// ------------------------------------------------------------------ what was observed
#[derive(Clone, Debug, PartialEq)]
enum Item {
    None,
    Data(Vec<u8>),
    Trailers(HeaderMap),
    Err(u32, Option<u32>),
    Busy,
    Panic,
}
impl Item {
    fn tr(&self) -> Tr {
        match self {
            Item::None => Tr::L(vec![Tr::n(0u8)]),
            Item::Data(d) if d.len() > 2048 => Tr::L(vec![Tr::n(5u8), Tr::n(d.len() as u64), Tr::n(digest(d))]),
            Item::Data(d) => Tr::L(vec![Tr::n(1u8), Tr::b(d)]),
            Item::Trailers(t) => Tr::L(vec![Tr::n(2u8), hm_tr(t)]),
            Item::Err(c, None) => Tr::L(vec![Tr::n(3u8), Tr::L(vec![Tr::n(*c)])]),
            Item::Err(c, Some(f)) => Tr::L(vec![Tr::n(3u8), Tr::L(vec![Tr::n(*c), Tr::n(*f)])]),
            Item::Busy => Tr::L(vec![Tr::n(98u8)]),
            Item::Panic => Tr::L(vec![Tr::n(99u8)]),
        }
    }
    fn is_err(&self) -> bool {
        matches!(self, Item::Err(..))
    }
}
/// the digest of Model/WebServer.v
fn digest(d: &[u8]) -> u64 {
    d.iter().fold(7u64, |h, b| (h * 31 + *b as u64 + 1) % 4294967291)
}
/// error class from the code and the fixed prefix of the message (never the full text)
fn classify(code: i32, msg: &str) -> Item {
    if code != 13 {
        return Item::Err(51, None);
    }
    if msg.starts_with("tonic-web: unexpected data after trailers") {
        Item::Err(1, None)
    } else if let Some(rest) = msg.strip_prefix("Invalid header bit ") {
        let n: u32 = rest.split(' ').next().and_then(|x| x.parse().ok()).unwrap_or(9999);
        Item::Err(2, Some(n))
    } else if msg.starts_with("tonic-web: unexpected EOF, incomplete frame") {
        Item::Err(3, None)
    } else if msg.starts_with("tonic-web: unexpected EOF, missing trailers") {
        Item::Err(8, None)
    } else if msg.starts_with("tonic-web: inner-error") {
        Item::Err(4, None)
    } else if msg.starts_with("trailers couldn't parse value") {
        Item::Err(5, None)
    } else if msg.starts_with("Unable to parse HeaderName") {
        Item::Err(6, None)
    } else if msg.starts_with("Unable to parse HeaderValue") {
        Item::Err(7, None)
    } else {
        Item::Err(50, None)
    }
}

type Hint = (u64, Option<u64>);
fn hint_of(h: http_body::SizeHint) -> Hint {
    (h.lower(), h.upper())
}
fn hint_tr(h: &Hint) -> Tr {
    Tr::L(vec![Tr::n(h.0), Tr::opt(h.1.map(Tr::n))])
}
struct Observed {
    items: Vec<Item>,
    extra: Vec<Item>,
    polls: usize,
    ends: usize,
    /// Body::size_hint before the first poll and after the last one
    hint0: Hint,
    hint1: Hint,
    /// (hint, DATA bytes still delivered after it) before every poll of the drain
    hints: Vec<(Hint, usize)>,
}
impl Observed {
    fn tr(&self) -> Tr {
        Tr::L(vec![
            Tr::L(self.items.iter().map(|i| i.tr()).collect()),
            Tr::L(self.extra.iter().map(|i| i.tr()).collect()),
            Tr::n(self.polls as u64),
            Tr::n(self.ends as u64),
            hint_tr(&self.hint0),
            hint_tr(&self.hint1),
        ])
    }
}

// ------------------------------------------------------------------ the inner service
type Seen = Arc<Mutex<Option<(Version, HeaderMap, Vec<Item>)>>>;
struct Inner {
    resp: Option<Response<CountBody>>,
    seen: Seen,
}
impl Service<Request<GrpcWebCall<ScriptBody<InnerErr>>>> for Inner {
    type Response = Response<CountBody>;
    type Error = Infallible;
    type Future = std::future::Ready<Result<Response<CountBody>, Infallible>>;
    fn poll_ready(&mut self, _: &mut Context<'_>) -> Poll<Result<(), Infallible>> {
        Poll::Ready(Ok(()))
    }
    fn call(&mut self, req: Request<GrpcWebCall<ScriptBody<InnerErr>>>) -> Self::Future {
        let (parts, body) = req.into_parts();
        let mut body = Box::pin(body);
        let mut items = vec![];
        for _ in 0..10_000 {
            match spin(std::future::poll_fn(|cx| body.as_mut().poll_frame(cx)), 10_000) {
                Err(()) => {
                    items.push(Item::Busy);
                    break;
                }
                Ok(None) => {
                    items.push(Item::None);
                    break;
                }
                Ok(Some(Ok(f))) => {
                    if f.is_data() {
                        items.push(Item::Data(f.into_data().unwrap().to_vec()));
                    } else {
                        items.push(Item::Trailers(f.into_trailers().unwrap()));
                    }
                }
                Ok(Some(Err(st))) => {
                    items.push(classify(st.code() as i32, st.message()));
                    break;
                }
            }
        }
        *self.seen.lock().unwrap() = Some((parts.version, parts.headers, items));
        std::future::ready(Ok(self.resp.take().expect("called once")))
    }
}

fn version_num(v: Version) -> u32 {
    match v {
        Version::HTTP_09 => 0,
        Version::HTTP_10 => 1,
        Version::HTTP_11 => 2,
        Version::HTTP_2 => 3,
        Version::HTTP_3 => 4,
        _ => 9,
    }
}

/// drive one response body through the real client layer
fn run_client(evs: &[E]) -> Observed {
    let polls = Arc::new(AtomicUsize::new(0));
    let ends = Arc::new(AtomicUsize::new(0));
    let mut items: Vec<Item> = vec![];
    let mut extra: Vec<Item> = vec![];
    let mut hint0: Hint = (u64::MAX, None);
    let mut hint1: Hint = (u64::MAX, None);
    let mut hints_at: Vec<(Hint, usize)> = vec![];
    let res = catch(std::panic::AssertUnwindSafe(|| {
        let (sb, _) = ScriptBody::new(evs.iter().map(to_ev).collect());
        let body = CountBody { inner: sb, polls: polls.clone(), ends: ends.clone(), eos_mode: 0 };
        let seen: Seen = Arc::new(Mutex::new(None));
        let mut svc = GrpcWebClientService::new(Inner { resp: Some(Response::new(body)), seen });
        let (req_body, _) = ScriptBody::<InnerErr>::new(vec![]);
        let req = Request::builder()
            .version(Version::HTTP_2)
            .uri("http://example.test/pkg.Svc/Method")
            .body(req_body)
            .unwrap();
        let resp = spin(svc.call(req), 100).expect("response future is ready").unwrap();
        let mut body = Box::pin(resp.into_body());
        let per_frame = evs.len() + 10;
        let mut finished = false;
        hint0 = hint_of(body.size_hint());
        hint1 = hint0;
        for _ in 0..100_000 {
            hints_at.push((hint_of(body.size_hint()), items.len()));
            match spin(std::future::poll_fn(|cx| body.as_mut().poll_frame(cx)), per_frame) {
                Err(()) => {
                    items.push(Item::Busy);
                    return;
                }
                Ok(None) => {
                    items.push(Item::None);
                    finished = true;
                    break;
                }
                Ok(Some(Ok(f))) => {
                    if f.is_data() {
                        items.push(Item::Data(f.into_data().unwrap().to_vec()));
                    } else if f.is_trailers() {
                        items.push(Item::Trailers(f.into_trailers().unwrap()));
                    }
                }
                Ok(Some(Err(st))) => {
                    items.push(classify(st.code() as i32, st.message()));
                    finished = true;
                    break;
                }
            }
        }
        if !finished {
            items.push(Item::Busy);
            return;
        }
        // two further polls: the end / the error must be final
        for _ in 0..2 {
            match spin(std::future::poll_fn(|cx| body.as_mut().poll_frame(cx)), per_frame) {
                Err(()) => extra.push(Item::Busy),
                Ok(None) => extra.push(Item::None),
                Ok(Some(Ok(f))) => {
                    if f.is_data() {
                        extra.push(Item::Data(f.into_data().unwrap().to_vec()));
                    } else {
                        extra.push(Item::Trailers(f.into_trailers().unwrap()));
                    }
                }
                Ok(Some(Err(st))) => extra.push(classify(st.code() as i32, st.message())),
            }
        }
        hint1 = hint_of(body.size_hint());
    }));
    if let Err(p) = res {
        extra.clear();
        items.push(if p.contains("BUSYLOOP") { Item::Busy } else { Item::Panic });
    }
    // DATA bytes delivered after each recorded hint
    let lens: Vec<usize> = items.iter().map(|i| if let Item::Data(d) = i { d.len() } else { 0 }).collect();
    let hints = hints_at.iter().map(|(h, at)| (*h, lens[(*at).min(lens.len())..].iter().sum())).collect();
    Observed { items, extra, polls: polls.load(Ordering::SeqCst), ends: ends.load(Ordering::SeqCst), hint0, hint1, hints }
}

/// The response body read by a hyper-like consumer: `is_end_stream()` is asked before the first
/// poll and after every data frame, and the consumer stops when it answers true.  Afterwards the
/// body is drained on (what an `is_end_stream() == true` body must not have: more frames).
fn case_client_hyper(out: &mut OutB, kind: &str, evs: &[E], mode: u8, judged: bool) {
    let polls = Arc::new(AtomicUsize::new(0));
    let ends = Arc::new(AtomicUsize::new(0));
    let (sb, _) = ScriptBody::new(evs.iter().map(to_ev).collect());
    let body = CountBody { inner: sb, polls, ends, eos_mode: mode };
    let seen: Seen = Arc::new(Mutex::new(None));
    let mut svc = GrpcWebClientService::new(Inner { resp: Some(Response::new(body)), seen });
    let (req_body, _) = ScriptBody::<InnerErr>::new(vec![]);
    let req = Request::builder().version(Version::HTTP_2).uri("http://example.test/pkg.Svc/Method").body(req_body).unwrap();
    let resp = spin(svc.call(req), 100).expect("response future is ready").unwrap();
    let mut body = Box::pin(resp.into_body());
    let per_frame = evs.len() + 10;
    let mut items: Vec<Item> = vec![];
    let mut rest: Vec<Item> = vec![];
    let mut by_eos = false;
    let next = |body: &mut Pin<Box<GrpcWebCall<CountBody>>>| -> Item {
        match spin(std::future::poll_fn(|cx| body.as_mut().poll_frame(cx)), per_frame) {
            Err(()) => Item::Busy,
            Ok(None) => Item::None,
            Ok(Some(Ok(f))) => {
                if f.is_data() {
                    Item::Data(f.into_data().unwrap().to_vec())
                } else {
                    Item::Trailers(f.into_trailers().unwrap())
                }
            }
            Ok(Some(Err(st))) => classify(st.code() as i32, st.message()),
        }
    };
    if body.is_end_stream() {
        by_eos = true;
    } else {
        for _ in 0..100_000 {
            let it = next(&mut body);
            let is_data = matches!(it, Item::Data(_));
            items.push(it);
            if !is_data {
                break;
            }
            if body.is_end_stream() {
                by_eos = true;
                break;
            }
        }
    }
    if by_eos {
        for _ in 0..100_000 {
            let it = next(&mut body);
            let go = matches!(it, Item::Data(_) | Item::Trailers(_));
            rest.push(it);
            if !go {
                break;
            }
        }
    }
    let mut oracle = None;
    let late = rest.iter().filter(|i| matches!(i, Item::Data(_) | Item::Trailers(_) | Item::Err(..))).count();
    if judged && late > 0 {
        oracle = Some(format!(
            "is_end_stream() answered true after {} frame(s) although {} more item(s) (data / trailers / an error) were still to be yielded: a consumer that honours it loses them",
            items.len(),
            late
        ));
    }
    out.hist("eos.client.mode", mode);
    out.hist("eos.client.stopped_by_is_end_stream", by_eos);
    out.hist("eos.client.frames_lost_to_is_end_stream", late.min(3));
    out.push(Case {
        kind: kind.to_string(),
        input: json!({"evs": evs.iter().map(ev_json).collect::<Vec<_>>(), "eos_mode": mode}),
        model: format!("obs_client_hyper_x {} {}", mode, evs_coq(evs)),
        impl_obs: Tr::L(vec![
            Tr::L(items.iter().map(|i| i.tr()).collect()),
            Tr::bool(by_eos),
            Tr::L(rest.iter().map(|i| i.tr()).collect()),
        ]),
        oracle,
        nontrivial: !evs.is_empty(),
    });
}


// ------------------------------------------------------------------ the real client stack
// tonic::client::Grpc -> GrpcWebClientService -> scripted inner service: what the CALLER of a
// generated client sees ("so the caller sees the server's real status").
#[derive(Clone, Copy, Default)]
struct RawCodec;
struct RawEnc;
struct RawDec;
impl Encoder for RawEnc {
    type Item = Vec<u8>;
    type Error = Status;
    fn encode(&mut self, item: Vec<u8>, dst: &mut EncodeBuf<'_>) -> Result<(), Status> {
        dst.put_slice(&item);
        Ok(())
    }
}
impl Decoder for RawDec {
    type Item = Vec<u8>;
    type Error = Status;
    fn decode(&mut self, src: &mut DecodeBuf<'_>) -> Result<Option<Vec<u8>>, Status> {
        let n = src.remaining();
        Ok(Some(src.copy_to_bytes(n).to_vec()))
    }
}
impl Codec for RawCodec {
    type Encode = Vec<u8>;
    type Decode = Vec<u8>;
    type Encoder = RawEnc;
    type Decoder = RawDec;
    fn encoder(&mut self) -> RawEnc {
        RawEnc
    }
    fn decoder(&mut self) -> RawDec {
        RawDec
    }
}

type SeenReq = Arc<Mutex<Option<(Version, Option<Vec<u8>>)>>>;
struct StackInner {
    resp: Option<Response<CountBody>>,
    seen: SeenReq,
}
impl Service<Request<GrpcWebCall<tonic::body::Body>>> for StackInner {
    type Response = Response<CountBody>;
    type Error = Infallible;
    type Future = std::future::Ready<Result<Response<CountBody>, Infallible>>;
    fn poll_ready(&mut self, _: &mut Context<'_>) -> Poll<Result<(), Infallible>> {
        Poll::Ready(Ok(()))
    }
    fn call(&mut self, req: Request<GrpcWebCall<tonic::body::Body>>) -> Self::Future {
        let ct = req.headers().get("content-type").map(|v| v.as_bytes().to_vec());
        *self.seen.lock().unwrap() = Some((req.version(), ct));
        std::future::ready(Ok(self.resp.take().expect("called once")))
    }
}

/// the texts of statuses are compared by a fixed prefix only (Model/WebClient.v werr_text, the
/// prefixes of Model/Status.v; statuses made by tonic's decoder carry no text in Model/Decoder.v)
fn canon_status_msg(m: &str) -> Vec<u8> {
    for full in [
        "tonic-web: unexpected data after trailers",
        "tonic-web: unexpected EOF, incomplete frame",
        "tonic-web: unexpected EOF, missing trailers",
    ] {
        if m.starts_with(full) {
            return full.as_bytes().to_vec();
        }
    }
    for p in [
        "tonic-web: ",
        "Invalid header bit ",
        "Unable to parse HeaderName: ",
        "Unable to parse HeaderValue: ",
        "Error deserializing status message header: ",
        "Error deserializing status details header: ",
        "grpc-status header missing, mapped from HTTP status code ",
    ] {
        if m.starts_with(p) {
            return p.as_bytes().to_vec();
        }
    }
    for p in ["Unexpected EOF decoding stream.", "protocol error: received message with", "Error, decoded message length too large: "] {
        if m.starts_with(p) {
            return vec![];
        }
    }
    m.as_bytes().to_vec()
}
fn status_tr(st: &Status) -> Tr {
    Tr::L(vec![
        Tr::n(st.code() as i32 as u32),
        Tr::B(canon_status_msg(st.message())),
        Tr::b(st.details()),
        hm_tr(&st.metadata().clone().into_headers()),
    ])
}

/// what the caller got
#[derive(Debug)]
enum Caller {
    /// the call itself failed (unary: any failure; streaming: before a stream was returned)
    Err(Status),
    Unary(HeaderMap, Vec<u8>),
    /// streaming: initial metadata, the messages, then Ok(trailers()) or the status that ended it
    Stream(HeaderMap, Vec<Vec<u8>>, Result<Option<HeaderMap>, Status>),
    Hang,
    Panic,
}
impl Caller {
    fn tr(&self) -> Tr {
        match self {
            Caller::Err(st) => Tr::L(vec![Tr::n(0u8), status_tr(st)]),
            Caller::Unary(md, m) => Tr::L(vec![Tr::n(1u8), hm_tr(md), Tr::b(m)]),
            Caller::Stream(md, ms, end) => Tr::L(vec![
                Tr::n(2u8),
                hm_tr(md),
                Tr::L(ms.iter().map(|m| Tr::b(m)).collect()),
                match end {
                    Ok(t) => Tr::L(vec![Tr::n(0u8), Tr::opt(t.as_ref().map(hm_tr))]),
                    Err(st) => Tr::L(vec![Tr::n(1u8), status_tr(st)]),
                },
            ]),
            Caller::Hang => Tr::L(vec![Tr::n(8u8)]),
            Caller::Panic => Tr::L(vec![Tr::n(9u8)]),
        }
    }
    /// the status the caller ends up with: Ok(()) or the error
    fn final_status(&self) -> Option<Result<(), &Status>> {
        match self {
            Caller::Err(st) => Some(Err(st)),
            Caller::Unary(..) => Some(Ok(())),
            Caller::Stream(_, _, Ok(_)) => Some(Ok(())),
            Caller::Stream(_, _, Err(st)) => Some(Err(st)),
            _ => None,
        }
    }
}

/// one call through the real stack; `shape` 0 = unary(), 2 = server_streaming()
fn run_stack(shape: u8, http: u16, headers: &[(String, Vec<u8>)], evs: &[E]) -> (Caller, Option<(Version, Option<Vec<u8>>)>) {
    let seen: SeenReq = Arc::new(Mutex::new(None));
    let seen2 = seen.clone();
    let res = catch(std::panic::AssertUnwindSafe(move || {
        let (sb, _) = ScriptBody::new(evs.iter().map(to_ev).collect());
        let body = CountBody { inner: sb, polls: Default::default(), ends: Default::default(), eos_mode: 0 };
        let mut resp = Response::new(body);
        *resp.status_mut() = http::StatusCode::from_u16(http).unwrap();
        *resp.headers_mut() = pairs_to_map(headers);
        let mut grpc = tonic::client::Grpc::new(GrpcWebClientService::new(StackInner { resp: Some(resp), seen: seen2 }));
        let cap = 20 * evs.len() + 200;
        let path = http::uri::PathAndQuery::from_static("/pkg.Svc/Method");
        if spin(grpc.ready(), 10).is_err() {
            return Caller::Hang;
        }
        if shape == 0 {
            return match spin(grpc.unary(tonic::Request::new(vec![1u8, 2, 3]), path, RawCodec), cap) {
                Err(()) => Caller::Hang,
                Ok(Err(st)) => Caller::Err(st),
                Ok(Ok(r)) => {
                    let (md, m, _) = r.into_parts();
                    Caller::Unary(md.into_headers(), m)
                }
            };
        }
        let r = match spin(grpc.server_streaming(tonic::Request::new(vec![1u8, 2, 3]), path, RawCodec), cap) {
            Err(()) => return Caller::Hang,
            Ok(Err(st)) => return Caller::Err(st),
            Ok(Ok(r)) => r,
        };
        let (md, mut stream, _) = r.into_parts();
        let md = md.into_headers();
        let mut msgs = vec![];
        for _ in 0..100_000 {
            match spin(stream.message(), cap) {
                Err(()) => return Caller::Hang,
                Ok(Ok(Some(m))) => msgs.push(m),
                Ok(Ok(None)) => {
                    return match spin(stream.trailers(), cap) {
                        Err(()) => Caller::Hang,
                        Ok(Ok(t)) => Caller::Stream(md, msgs, Ok(t.map(|t| t.into_headers()))),
                        Ok(Err(st)) => Caller::Stream(md, msgs, Err(st)),
                    }
                }
                Ok(Err(st)) => return Caller::Stream(md, msgs, Err(st)),
            }
        }
        Caller::Hang
    }));
    let c = match res {
        Ok(c) => c,
        Err(p) => {
            if p.contains("BUSYLOOP") {
                Caller::Hang
            } else {
                Caller::Panic
            }
        }
    };
    let sreq = seen.lock().unwrap().take();
    (c, sreq)
}

/// what the server meant (encoded into the response by this harness, never by tonic)
#[derive(Clone, Debug)]
struct ServerStatus {
    code: u32,
    message: String,
    details: Vec<u8>,
    /// custom metadata (names that are neither grpc-status, grpc-message nor grpc-status-details-bin)
    md: Vec<(String, Vec<u8>)>,
}
fn pct(m: &str) -> Vec<u8> {
    let mut v = vec![];
    for b in m.bytes() {
        if (0x20..=0x7e).contains(&b) && b != b'%' {
            v.push(b);
        } else {
            v.extend(format!("%{:02X}", b).into_bytes());
        }
    }
    v
}
fn b64_nopad(d: &[u8]) -> Vec<u8> {
    const A: &[u8] = b"ABCDEFGHIJKLMNOPQRSTUVWXYZabcdefghijklmnopqrstuvwxyz0123456789+/";
    let mut v = vec![];
    for c in d.chunks(3) {
        let n = (c[0] as u32) << 16 | (*c.get(1).unwrap_or(&0) as u32) << 8 | *c.get(2).unwrap_or(&0) as u32;
        v.push(A[(n >> 18) as usize & 63]);
        v.push(A[(n >> 12) as usize & 63]);
        if c.len() > 1 {
            v.push(A[(n >> 6) as usize & 63]);
        }
        if c.len() > 2 {
            v.push(A[n as usize & 63]);
        }
    }
    v
}
impl ServerStatus {
    fn trailers(&self) -> Vec<(String, Vec<u8>)> {
        let mut t = vec![(s("grpc-status"), self.code.to_string().into_bytes())];
        if !self.message.is_empty() {
            t.push((s("grpc-message"), pct(&self.message)));
        }
        if !self.details.is_empty() {
            t.push((s("grpc-status-details-bin"), b64_nopad(&self.details)));
        }
        t.extend(self.md.iter().cloned());
        t
    }
    fn json(&self) -> Value {
        json!({"code": self.code, "message": self.message, "details": hex(&self.details),
               "md": self.md.iter().map(|(k, v)| json!([k, hex(v)])).collect::<Vec<_>>()})
    }
    fn from_json(v: &Value) -> ServerStatus {
        ServerStatus {
            code: v["code"].as_u64().unwrap() as u32,
            message: v["message"].as_str().unwrap().to_string(),
            details: unhex(v["details"].as_str().unwrap()),
            md: pairs_from_json(&v["md"]),
        }
    }
}
#[derive(Clone, Debug)]
enum StackExpect {
    /// a complete response: these messages (payloads, all frames with flag 0), then this status
    Status { payloads: Vec<Vec<u8>>, st: ServerStatus, in_headers: bool },
    /// cut inside a frame / malformed: the caller must end with an error, never with OK
    MustFail { payloads: Vec<Vec<u8>> },
    /// message frames without a trailers frame: the caller must end with an error (F-C17j)
    NoTrailers { payloads: Vec<Vec<u8>> },
    /// not decided by the property (compared with the model only)
    Observe,
}
fn payloads_json(p: &[Vec<u8>]) -> Value {
    json!(p.iter().map(|x| hex(x)).collect::<Vec<_>>())
}
fn payloads_from(v: &Value) -> Vec<Vec<u8>> {
    v.as_array().map(|a| a.iter().map(|x| unhex(x.as_str().unwrap())).collect()).unwrap_or_default()
}
fn stack_expect_json(e: &StackExpect) -> Value {
    match e {
        StackExpect::Status { payloads, st, in_headers } => json!({"status": {"payloads": payloads_json(payloads), "st": st.json(), "in_headers": in_headers}}),
        StackExpect::MustFail { payloads } => json!({"must_fail": payloads_json(payloads)}),
        StackExpect::NoTrailers { payloads } => json!({"no_trailers": payloads_json(payloads)}),
        StackExpect::Observe => json!("observe"),
    }
}
fn stack_expect_from(v: &Value) -> StackExpect {
    if let Some(x) = v.get("status") {
        StackExpect::Status { payloads: payloads_from(&x["payloads"]), st: ServerStatus::from_json(&x["st"]), in_headers: x["in_headers"].as_bool().unwrap_or(false) }
    } else if let Some(x) = v.get("must_fail") {
        StackExpect::MustFail { payloads: payloads_from(x) }
    } else if let Some(x) = v.get("no_trailers") {
        StackExpect::NoTrailers { payloads: payloads_from(x) }
    } else {
        StackExpect::Observe
    }
}
fn is_prefix_of(a: &[Vec<u8>], b: &[Vec<u8>]) -> bool {
    a.len() <= b.len() && a.iter().zip(b.iter()).all(|(x, y)| x == y)
}
/// the caller's error is the server's status
fn same_status(got: &Status, want: &ServerStatus) -> Option<String> {
    if got.code() as i32 as u32 != want.code {
        return Some(format!("caller sees code {} but the server sent grpc-status {}", got.code() as i32, want.code));
    }
    if got.message() != want.message {
        return Some(format!("caller sees message {:?} but the server sent {:?}", got.message(), want.message));
    }
    if got.details() != &want.details[..] {
        return Some("caller sees other status details than the server sent".into());
    }
    let h = got.metadata().clone().into_headers();
    same_md(&h, &want.md)
}
/// every custom entry of the server arrives with all its values, in order
fn same_md(got: &HeaderMap, want: &[(String, Vec<u8>)]) -> Option<String> {
    let g: Vec<(String, Vec<u8>)> = got.iter().map(|(k, v)| (k.as_str().to_string(), v.as_bytes().to_vec())).collect();
    for (k, _) in want {
        if values_of(&g, k) != values_of(want, k) {
            return Some(format!("metadata {}: the server sent {:?}, the caller sees {:?}", k, values_of(want, k), values_of(&g, k)));
        }
    }
    None
}
fn stack_oracle(shape: u8, c: &Caller, e: &StackExpect, sreq: &Option<(Version, Option<Vec<u8>>)>) -> Option<String> {
    match c {
        Caller::Hang => return Some("hang / busy loop: the call did not complete".into()),
        Caller::Panic => return Some("panic inside the call".into()),
        _ => {}
    }
    match sreq {
        Some((v, ct)) => {
            if *v != Version::HTTP_11 {
                return Some(format!("the request reached the inner service as {:?}, not HTTP/1.1", v));
            }
            if ct.as_deref() != Some(&b"application/grpc-web"[..]) {
                return Some("the request reached the inner service without content-type application/grpc-web".into());
            }
        }
        None => return Some("the inner service was not called".into()),
    }
    let fin = c.final_status().unwrap();
    match e {
        StackExpect::Status { payloads, st, in_headers } => {
            match c {
                Caller::Stream(head, ms, end) => {
                    if ms != payloads {
                        return Some(format!("the caller got {} messages, the server sent {}", ms.len(), payloads.len()));
                    }
                    match end {
                        // a trailers-only response carries its metadata in the head
                        Ok(_) if st.code == 0 && *in_headers => same_md(head, &st.md),
                        Ok(t) if st.code == 0 => {
                            let empty = HeaderMap::new();
                            same_md(t.as_ref().unwrap_or(&empty), &st.md)
                        }
                        Ok(_) => Some(format!("the stream ended OK but the server sent grpc-status {}", st.code)),
                        Err(g) if st.code != 0 => same_status(g, st),
                        Err(g) => Some(format!("the server sent grpc-status 0 but the stream ended with code {} {:?}", g.code() as i32, g.message())),
                    }
                }
                Caller::Unary(md, m) => {
                    if st.code != 0 {
                        return Some(format!("unary call returned OK but the server sent grpc-status {}", st.code));
                    }
                    // (more than one message is a cardinality violation of the server, which tonic's
                    // unary() tolerates by taking the first: gRPC semantics, not this layer's)
                    if payloads.is_empty() || &payloads[0] != m {
                        return Some("unary call returned another message than the server sent".into());
                    }
                    same_md(md, &st.md)
                }
                Caller::Err(g) => {
                    if st.code != 0 {
                        same_status(g, st)
                    } else if shape == 0 && payloads.len() != 1 {
                        // unary with a message count other than 1 is a cardinality violation of the server
                        None
                    } else {
                        Some(format!("the server sent grpc-status 0 but the call failed with code {} {:?}", g.code() as i32, g.message()))
                    }
                }
                _ => None,
            }
        }
        StackExpect::MustFail { payloads } => {
            if let Caller::Stream(_, ms, _) = c {
                if !is_prefix_of(ms, payloads) {
                    return Some("messages delivered before the failure are not a prefix of the messages sent".into());
                }
            }
            match fin {
                Ok(()) => Some("a response that was cut off inside a frame / is malformed completed with OK".into()),
                Err(st) if st.code() as i32 == 0 => Some("error status with code OK".into()),
                Err(_) => None,
            }
        }
        StackExpect::NoTrailers { payloads } => {
            if let Caller::Stream(_, ms, _) = c {
                if !is_prefix_of(ms, payloads) {
                    return Some("messages delivered are not a prefix of the messages sent".into());
                }
            }
            match fin {
                Ok(()) if !payloads.is_empty() => {
                    Some(format!("{}: the caller sees OK, the server's status never arrived", NO_TRAILERS_TEXT))
                }
                _ => None,
            }
        }
        StackExpect::Observe => None,
    }
}
fn case_stack(out: &mut OutB, kind: &str, shape: u8, http: u16, headers: &[(String, Vec<u8>)], evs: &[E], expect: &StackExpect) {
    let (c, sreq) = run_stack(shape, http, headers, evs);
    out.hist("stack.shape", if shape == 0 { "unary" } else { "server_streaming" });
    out.hist(
        "stack.caller_sees",
        match c.final_status() {
            Some(Ok(())) => "OK".to_string(),
            Some(Err(st)) => format!("code {}", st.code() as i32),
            None => "hang/panic".to_string(),
        },
    );
    if let StackExpect::Status { st, .. } = expect {
        out.hist("stack.server_code", st.code);
    }
    let hm = pairs_to_map(headers);
    out.push(Case {
        kind: kind.to_string(),
        input: json!({"stack": {"shape": shape, "http": http,
            "headers": headers.iter().map(|(k, v)| json!([k, hex(v)])).collect::<Vec<_>>(),
            "evs": evs.iter().map(ev_json).collect::<Vec<_>>(), "expect": stack_expect_json(expect)}}),
        model: format!("obs_stack {} {} {} {}", shape, http, coq_hm(&hm), evs_coq(evs)),
        impl_obs: c.tr(),
        oracle: stack_oracle(shape, &c, expect, &sreq),
        nontrivial: !evs.is_empty() || headers.len() > 1,
    });
}

// ------------------------------------------------------------------ expectations (the oracle)
#[derive(Clone, Debug)]
enum Expect {
    /// complete body: these message bytes, then these trailers (name, value) in order, then end
    Valid { msgs: Vec<u8>, trailers: Vec<(String, Vec<u8>)> },
    /// cut inside a frame: an error, never a clean end; data delivered is a prefix of `msgs`
    Truncated { msgs: Vec<u8> },
    /// cut exactly between frames / no trailers frame at all: every frame is delivered (`msgs`),
    /// no trailers, then an ERROR - unless the body is empty (clean end or error)
    Boundary { msgs: Vec<u8> },
    /// malformed: an error must be produced
    MustErr,
    /// malformed after / inside the valid message frames `msgs`: an error must be produced and what
    /// was delivered before it is whole frames of `msgs`, in order
    MustErrAfter { msgs: Vec<u8> },
    /// a complete body whose wrapped body ALSO has HTTP trailers (not a grpc-web thing; the code
    /// merges them with HeaderMap::extend): the messages, one trailers item, a clean end; every
    /// in-body trailer whose name is not among the HTTP trailers in full, every HTTP trailer in full
    Merged { msgs: Vec<u8>, frame: Vec<(String, Vec<u8>)>, http: Vec<(String, Vec<u8>)> },
    /// behaviour the property text does not decide: no hang, no panic; compared with the model only
    Observe,
    /// as Observe, a panic is recorded as well (capacity limit of http::HeaderMap)
    ObserveAny,
}
fn expect_json(e: &Expect) -> Value {
    let pj = |t: &Vec<(String, Vec<u8>)>| json!(t.iter().map(|(k, v)| json!([k, hex(v)])).collect::<Vec<_>>());
    match e {
        Expect::Valid { msgs, trailers } => json!({"valid": {"msgs": hex(msgs), "trailers": pj(trailers)}}),
        Expect::Truncated { msgs } => json!({"truncated": {"msgs": hex(msgs)}}),
        Expect::Boundary { msgs } => json!({"boundary": {"msgs": hex(msgs)}}),
        Expect::MustErr => json!("must_err"),
        Expect::MustErrAfter { msgs } => json!({"must_err_after": {"msgs": hex(msgs)}}),
        Expect::Merged { msgs, frame, http } => json!({"merged": {"msgs": hex(msgs), "frame": pj(frame), "http": pj(http)}}),
        Expect::Observe => json!("observe"),
        Expect::ObserveAny => json!("observe_any"),
    }
}
fn expect_from_json(v: &Value) -> Expect {
    if let Some(x) = v.get("valid") {
        Expect::Valid { msgs: unhex(x["msgs"].as_str().unwrap()), trailers: pairs_from_json(&x["trailers"]) }
    } else if let Some(x) = v.get("truncated") {
        Expect::Truncated { msgs: unhex(x["msgs"].as_str().unwrap()) }
    } else if let Some(x) = v.get("boundary") {
        Expect::Boundary { msgs: unhex(x["msgs"].as_str().unwrap()) }
    } else if let Some(x) = v.get("must_err_after") {
        Expect::MustErrAfter { msgs: unhex(x["msgs"].as_str().unwrap()) }
    } else if let Some(x) = v.get("merged") {
        Expect::Merged {
            msgs: unhex(x["msgs"].as_str().unwrap()),
            frame: pairs_from_json(&x["frame"]),
            http: pairs_from_json(&x["http"]),
        }
    } else if v == "must_err" {
        Expect::MustErr
    } else if v == "observe_any" {
        Expect::ObserveAny
    } else {
        Expect::Observe
    }
}

/// A body of message frames WITHOUT any trailers frame (cut exactly between two frames).  The
/// property: "message frames followed by a trailers frame ... so the caller sees the server's real
/// status", "cut off inside a frame, or otherwise malformed, produces an error rather than a
/// premature clean end", quantifier "truncation at every byte".  Such a body is not a grpc-web
/// response body and a clean end is premature: it MUST end with an error (finding F-C17j, fixed by
/// c815a16a).  Only an EMPTY body may end cleanly: that is what a trailers-only response has.
const NO_TRAILERS_TEXT: &str = "message frames without a trailers frame were taken for a complete response";

/// the offsets at which a sequence of complete frames ends
fn frame_ends(b: &[u8]) -> Vec<usize> {
    let mut v = vec![0];
    let mut at = 0;
    while at + 5 <= b.len() {
        let n = u32::from_be_bytes([b[at + 1], b[at + 2], b[at + 3], b[at + 4]]) as usize;
        if at + 5 + n > b.len() {
            break;
        }
        at += 5 + n;
        v.push(at);
    }
    v
}

fn values_of(t: &[(String, Vec<u8>)], k: &str) -> Vec<Vec<u8>> {
    t.iter().filter(|(n, _)| n == k).map(|(_, v)| v.clone()).collect()
}

fn oracle(o: &Observed, e: &Expect) -> Option<String> {
    if o.items.contains(&Item::Busy) || o.extra.contains(&Item::Busy) {
        return Some("hang / busy loop: no result within the poll cap".into());
    }
    if !matches!(e, Expect::ObserveAny) && o.items.contains(&Item::Panic) {
        return Some("panic inside poll_frame".into());
    }
    if o.ends > 2 {
        return Some(format!("inner body polled {} times after its end", o.ends - 1));
    }
    // Body::size_hint: at every point lower <= DATA bytes still to be delivered <= upper
    if !o.items.contains(&Item::Panic) {
        for (i, ((lo, up), rest)) in o.hints.iter().enumerate() {
            if *lo > *rest as u64 || up.map(|u| u < *rest as u64).unwrap_or(false) {
                return Some(format!(
                    "size_hint before poll {} was ({}, {:?}) but {} DATA bytes were delivered after it",
                    i + 1, lo, up, rest
                ));
            }
        }
        if o.hint1.0 > 0 {
            return Some(format!("size_hint after the last poll has lower bound {}", o.hint1.0));
        }
    }
    let data: Vec<u8> = o
        .items
        .iter()
        .filter_map(|i| if let Item::Data(d) = i { Some(d.clone()) } else { None })
        .flatten()
        .collect();
    let n = o.items.len();
    let last = o.items.last();
    match e {
        Expect::Valid { msgs, trailers } => {
            if &data != msgs {
                return Some(format!("message bytes differ: got {} bytes, encoded {}", data.len(), msgs.len()));
            }
            if last != Some(&Item::None) {
                return Some(format!("body did not end cleanly: last item {:?}", last));
            }
            let tr: Vec<&HeaderMap> =
                o.items.iter().filter_map(|i| if let Item::Trailers(t) = i { Some(t) } else { None }).collect();
            if tr.len() != 1 {
                return Some(format!("{} trailers items instead of exactly one", tr.len()));
            }
            if !matches!(o.items.get(n.wrapping_sub(2)), Some(Item::Trailers(_))) {
                return Some("trailers are not the last item before the end".into());
            }
            let got: Vec<(String, Vec<u8>)> =
                tr[0].iter().map(|(k, v)| (k.as_str().to_string(), v.as_bytes().to_vec())).collect();
            let mut names: Vec<String> = trailers.iter().map(|x| x.0.clone()).collect();
            names.extend(got.iter().map(|x| x.0.clone()));
            names.sort();
            names.dedup();
            for k in names {
                let a = values_of(trailers, &k);
                let b = values_of(&got, &k);
                if a != b {
                    return Some(format!(
                        "trailer {}: encoded {:?}, client yielded {:?}",
                        k,
                        a.iter().map(|x| String::from_utf8_lossy(x).to_string()).collect::<Vec<_>>(),
                        b.iter().map(|x| String::from_utf8_lossy(x).to_string()).collect::<Vec<_>>()
                    ));
                }
            }
            if o.extra != vec![Item::None, Item::None] {
                return Some(format!("polls after the end gave {:?}", o.extra));
            }
            None
        }
        Expect::Truncated { msgs } => {
            if !last.map(|i| i.is_err()).unwrap_or(false) {
                return Some(format!("truncated body did not produce an error: last item {:?}", last));
            }
            if o.items.iter().any(|i| matches!(i, Item::Trailers(_))) {
                return Some("trailers yielded from a truncated body".into());
            }
            if !msgs.starts_with(&data) {
                return Some("data yielded is not a prefix of the encoded messages".into());
            }
            if o.extra != vec![Item::None, Item::None] {
                return Some(format!("polls after the error gave {:?}", o.extra));
            }
            None
        }
        Expect::Boundary { msgs } => {
            if o.items.iter().any(|i| matches!(i, Item::Trailers(_))) {
                return Some("trailers yielded although no trailers frame was sent".into());
            }
            if &data != msgs {
                return Some("message bytes differ".into());
            }
            if o.extra != vec![Item::None, Item::None] {
                return Some(format!("polls after the end / the error gave {:?}", o.extra));
            }
            let is_err = last.map(|i| i.is_err()).unwrap_or(false);
            let clean = last == Some(&Item::None);
            if !(is_err || clean) {
                return Some(format!("a body cut between two frames ended with {:?}", last));
            }
            if msgs.is_empty() {
                // an EMPTY body is what a trailers-only response has (status in the HTTP headers):
                // this layer cannot tell, both endings are accepted
                return None;
            }
            if !is_err {
                return Some(format!(
                    "{}: the body ended cleanly after {} bytes of message frames", NO_TRAILERS_TEXT, data.len()
                ));
            }
            None
        }
        Expect::MustErr | Expect::MustErrAfter { .. } => {
            if !last.map(|i| i.is_err()).unwrap_or(false) {
                return Some(format!("malformed body did not produce an error: last item {:?}", last));
            }
            if o.extra != vec![Item::None, Item::None] {
                return Some(format!("polls after the error gave {:?}", o.extra));
            }
            if let Expect::MustErrAfter { msgs } = e {
                if o.items.iter().any(|i| matches!(i, Item::Trailers(_))) {
                    return Some("trailers yielded from a malformed body".into());
                }
                if !msgs.starts_with(&data) || !frame_ends(msgs).contains(&data.len()) {
                    return Some("data yielded before the error is not a sequence of whole frames of the body".into());
                }
            }
            None
        }
        Expect::Merged { msgs, frame, http } => {
            if &data != msgs {
                return Some(format!("message bytes differ: got {} bytes, encoded {}", data.len(), msgs.len()));
            }
            if last != Some(&Item::None) {
                return Some(format!("body did not end cleanly: last item {:?}", last));
            }
            let tr: Vec<&HeaderMap> =
                o.items.iter().filter_map(|i| if let Item::Trailers(t) = i { Some(t) } else { None }).collect();
            if tr.len() != 1 || !matches!(o.items.get(n.wrapping_sub(2)), Some(Item::Trailers(_))) {
                return Some(format!("{} trailers items (exactly one, last before the end, expected)", tr.len()));
            }
            let got: Vec<(String, Vec<u8>)> =
                tr[0].iter().map(|(k, v)| (k.as_str().to_string(), v.as_bytes().to_vec())).collect();
            for (k, _) in got.iter() {
                if values_of(frame, k).is_empty() && values_of(http, k).is_empty() {
                    return Some(format!("trailer {} was neither in the trailers frame nor in the HTTP trailers", k));
                }
            }
            for (k, _) in http.iter() {
                if values_of(&got, k) != values_of(http, k) {
                    return Some(format!("HTTP trailer {}: sent {:?}, yielded {:?}", k, values_of(http, k), values_of(&got, k)));
                }
            }
            for (k, _) in frame.iter() {
                if values_of(http, k).is_empty() && values_of(&got, k) != values_of(frame, k) {
                    return Some(format!("trailer {} of the trailers frame: sent {:?}, yielded {:?}", k, values_of(frame, k), values_of(&got, k)));
                }
            }
            if o.extra != vec![Item::None, Item::None] {
                return Some(format!("polls after the end gave {:?}", o.extra));
            }
            None
        }
        Expect::Observe | Expect::ObserveAny => None,
    }
}

fn bucket(n: usize) -> &'static str {
    match n {
        0 => "0",
        1..=4 => "1-4",
        5..=12 => "5-12",
        13..=40 => "13-40",
        41..=100 => "41-100",
        _ => ">100",
    }
}

fn case_client(out: &mut OutB, kind: &str, evs: &[E], expect: &Expect) {
    let o = run_client(evs);
    let body_len: usize = evs.iter().map(|e| match e { E::D(d) => d.len(), E::Fr(_, n, _) => n + 5, _ => 0 }).sum();
    let chunks = evs.iter().filter(|e| matches!(e, E::D(_) | E::Fr(..))).count();
    out.hist("client.body_len", bucket(body_len));
    out.hist("client.chunks", bucket(chunks));
    out.hist("client.pending_events", bucket(evs.iter().filter(|e| matches!(e, E::P)).count()));
    out.hist(
        "client.expect",
        match expect {
            Expect::Valid { .. } => "valid",
            Expect::Truncated { .. } => "truncated-inside-frame",
            Expect::Boundary { .. } => "cut-between-frames",
            Expect::MustErr | Expect::MustErrAfter { .. } => "malformed",
            Expect::Merged { .. } => "valid+http-trailers",
            _ => "observe",
        },
    );
    if let Expect::Valid { trailers, .. } = expect {
        out.hist("client.trailer_entries", bucket(trailers.len()));
    }
    out.hist(
        "client.outcome",
        match o.items.last() {
            Some(Item::None) => "end",
            Some(Item::Err(c, _)) => match c {
                1 => "err:data-after-trailers",
                2 => "err:flag",
                3 => "err:eof",
                8 => "err:missing-trailers",
                4 => "err:inner",
                5 | 6 | 7 => "err:trailer-line",
                _ => "err:other",
            },
            Some(Item::Busy) => "hang",
            Some(Item::Panic) => "panic",
            _ => "?",
        },
    );
    out.push(Case {
        kind: kind.to_string(),
        input: json!({"evs": evs.iter().map(ev_json).collect::<Vec<_>>(), "expect": expect_json(expect)}),
        model: format!("obs_client_x {}", evs_coq(evs)),
        impl_obs: o.tr(),
        oracle: oracle(&o, expect),
        nontrivial: body_len > 0,
    });
}

// ------------------------------------------------------------------ request direction (light)
fn case_client_request(out: &mut OutB, kind: &str, evs: &[E], version: Version) {
    let seen: Seen = Arc::new(Mutex::new(None));
    let (dummy, _) = ScriptBody::new(vec![]);
    let body = CountBody { inner: dummy, polls: Default::default(), ends: Default::default(), eos_mode: 0 };
    let mut svc = GrpcWebClientService::new(Inner { resp: Some(Response::new(body)), seen: seen.clone() });
    let (req_body, _) = ScriptBody::<InnerErr>::new(evs.iter().map(to_ev).collect());
    let req = Request::builder()
        .version(version)
        .uri("http://example.test/pkg.Svc/Method")
        .header("content-type", "application/grpc")
        .body(req_body)
        .unwrap();
    let _ = spin(svc.call(req), 100);
    let (v, h, items) = seen.lock().unwrap().take().expect("inner service called");
    let ct = h.get("content-type").map(|x| x.as_bytes().to_vec()).unwrap_or_default();
    let mut oracle = None;
    if ct != b"application/grpc-web" {
        oracle = Some("request content-type is not application/grpc-web".to_string());
    }
    let sent: Vec<u8> = evs.iter().filter_map(|e| if let E::D(d) = e { Some(d.clone()) } else { None }).flatten().collect();
    let got: Vec<u8> = items.iter().filter_map(|e| if let Item::Data(d) = e { Some(d.clone()) } else { None }).flatten().collect();
    if !evs.iter().any(|e| matches!(e, E::T(_) | E::X)) && sent != got {
        oracle = Some("request bytes changed".to_string());
    }
    let items_tr: Vec<Tr> = items
        .iter()
        .map(|i| match i {
            Item::Err(c, _) => Tr::L(vec![Tr::n(3u8), Tr::n(*c)]),
            other => other.tr(),
        })
        .collect();
    out.push(Case {
        kind: kind.to_string(),
        input: json!({"req_evs": evs.iter().map(ev_json).collect::<Vec<_>>(), "version": version_num(version)}),
        model: format!("obs_client_request {} {}", version_num(version), evs_coq(evs)),
        impl_obs: Tr::L(vec![Tr::n(version_num(v)), Tr::B(ct), Tr::L(items_tr)]),
        oracle,
        nontrivial: !sent.is_empty(),
    });
}

// ------------------------------------------------------------------ encoding (independent of tonic)
fn frame(flag: u8, payload: &[u8]) -> Vec<u8> {
    let mut v = vec![flag];
    v.extend_from_slice(&(payload.len() as u32).to_be_bytes());
    v.extend_from_slice(payload);
    v
}
fn block(tl: &[(String, Vec<u8>)], space: bool) -> Vec<u8> {
    let mut v = vec![];
    for (k, val) in tl {
        v.extend_from_slice(k.as_bytes());
        v.push(b':');
        if space {
            v.push(b' ');
        }
        v.extend_from_slice(val);
        v.extend_from_slice(b"\r\n");
    }
    v
}
fn tframe(tl: &[(String, Vec<u8>)]) -> Vec<u8> {
    frame(0x80, &block(tl, false))
}
fn s(x: &str) -> String {
    x.to_string()
}

#[derive(Clone)]
struct Body {
    msgs: Vec<(u8, Vec<u8>)>,
    trailers: Vec<(String, Vec<u8>)>,
}
impl Body {
    fn msg_bytes(&self) -> Vec<u8> {
        self.msgs.iter().flat_map(|(f, p)| frame(*f, p)).collect()
    }
    fn bytes(&self) -> Vec<u8> {
        let mut v = self.msg_bytes();
        v.extend(tframe(&self.trailers));
        v
    }
    /// offsets at which a cut falls between two frames
    fn boundaries(&self) -> Vec<usize> {
        let mut b = vec![0];
        let mut at = 0;
        for (_, p) in &self.msgs {
            at += 5 + p.len();
            b.push(at);
        }
        b
    }
    fn valid(&self) -> Expect {
        Expect::Valid { msgs: self.msg_bytes(), trailers: self.trailers.clone() }
    }
}

fn gen_payload(r: &mut Rng) -> Vec<u8> {
    let n = match r.below(20) {
        0..=3 => 0,
        4..=14 => r.range(1, 12),
        15..=18 => r.range(13, 40),
        _ => r.range(64, 200),
    } as usize;
    if n >= 64 {
        return vec![r.next() as u8; n];
    }
    // payloads that look like frame headers make a wrong resynchronisation visible
    (0..n)
        .map(|_| match r.below(6) {
            0 => 0x80,
            1 => 0,
            2 => 1,
            3 => b'\r',
            _ => r.next() as u8,
        })
        .collect()
}
fn gen_value(r: &mut Rng) -> Vec<u8> {
    let pieces: &[&[u8]] = &[
        b"a", b":", b" ", b"b c", b"%20", b"x:y:z", b"\xc3\xa9", b"\t", b"::", b"0", b"=", b"/+", b"not found", b"a: b",
    ];
    let mut v: Vec<u8> = if r.chance(1, 4) {
        // any legal HeaderValue bytes: visible ASCII, space, tab, obs-text
        let n = r.below(24) as usize;
        (0..n)
            .map(|_| match r.below(12) {
                0 => b'\t',
                1 => b' ',
                2 => b':',
                3 => r.range(0x80, 0xff) as u8,
                _ => r.range(0x21, 0x7e) as u8,
            })
            .collect()
    } else {
        let n = r.below(5);
        (0..n).flat_map(|_| r.pick(pieces).to_vec()).collect()
    };
    while v.first() == Some(&b' ') {
        v.remove(0);
    }
    v
}
/// a legal lower-case header name: the fixed ones of gRPC, names http knows as standard headers,
/// and random tokens over the whole alphabet of HeaderName (1..12 bytes, now and then longer)
fn gen_name(r: &mut Rng) -> String {
    const TOKEN: &[u8] = b"abcdefghijklmnopqrstuvwxyz0123456789!#$%&'*+-.^_`|~";
    match r.below(10) {
        0..=2 => s("x-k"),
        3 => s(*r.pick(&["content-type", "date", "server", "set-cookie", "te", "accept", "etag", "via", "warning", "x-trace-bin", "a"])),
        _ => {
            let n = if r.chance(1, 12) { r.range(30, 70) } else { r.range(1, 12) } as usize;
            let v: Vec<u8> = (0..n).map(|_| *r.pick(TOKEN)).collect();
            String::from_utf8(v).unwrap()
        }
    }
}
fn gen_trailers(r: &mut Rng) -> Vec<(String, Vec<u8>)> {
    let mut t = vec![];
    if r.chance(1, 10) {
        return t;
    }
    t.push((s("grpc-status"), r.below(17).to_string().into_bytes()));
    if r.chance(2, 3) {
        t.push((s("grpc-message"), gen_value(r)));
    }
    for _ in 0..r.below(4) {
        t.push((gen_name(r), gen_value(r)));
    }
    if r.chance(1, 3) {
        let pool: &[&[u8]] = &[b"", b"QQ==", b"AAEC", b"/+8=", b"Zm9vYmFy", b"QUJD"];
        t.push((s("x-bin-bin"), r.pick(pool).to_vec()));
    }
    if r.chance(1, 4) {
        t.push((s("grpc-status-details-bin"), b"CAUSA25m".to_vec()));
    }
    // shuffle a little so that repeated names are not adjacent
    if t.len() > 2 && r.chance(1, 2) {
        let i = r.below(t.len() as u64) as usize;
        let j = r.below(t.len() as u64) as usize;
        t.swap(i, j);
    }
    t
}
fn gen_body(r: &mut Rng) -> Body {
    let n = r.below(5);
    Body { msgs: (0..n).map(|_| (r.below(2) as u8, gen_payload(r))).collect(), trailers: gen_trailers(r) }
}

/// split `b` at the (sorted, distinct, interior) cut positions
fn chunks_at(b: &[u8], cuts: &[usize]) -> Vec<E> {
    let mut v = vec![];
    let mut prev = 0;
    for &c in cuts {
        v.push(E::D(b[prev..c].to_vec()));
        prev = c;
    }
    v.push(E::D(b[prev..].to_vec()));
    v
}
fn random_cuts(r: &mut Rng, len: usize) -> Vec<usize> {
    if len < 2 {
        return vec![];
    }
    let k = match r.below(6) {
        0 => 0,
        1 | 2 => 1,
        3 => 2,
        4 => r.range(3, 6),
        _ => r.range(1, len as u64 - 1),
    } as usize;
    let mut c: Vec<usize> = (0..k).map(|_| r.range(1, len as u64 - 1) as usize).collect();
    c.sort();
    c.dedup();
    c
}
/// Pending anywhere, now and then an empty chunk
fn sprinkle(r: &mut Rng, evs: Vec<E>) -> Vec<E> {
    let mode = r.below(4);
    let mut v = vec![];
    for e in evs {
        match mode {
            0 => {}
            1 => {
                if r.chance(1, 3) {
                    v.push(E::P)
                }
            }
            2 => {
                v.push(E::P);
            }
            _ => {
                for _ in 0..r.below(3) {
                    v.push(E::P)
                }
                if r.chance(1, 6) {
                    v.push(E::D(vec![]))
                }
            }
        }
        v.push(e);
    }
    if mode >= 1 && r.chance(1, 2) {
        v.push(E::P);
    }
    v
}

fn all_cut_sets(out: &mut OutB, kind: &str, b: &Body) {
    let bytes = b.bytes();
    let n = bytes.len();
    assert!(n <= 15);
    for mask in 0u32..(1u32 << (n - 1)) {
        let cuts: Vec<usize> = (1..n).filter(|i| mask >> (i - 1) & 1 == 1).collect();
        case_client(out, kind, &chunks_at(&bytes, &cuts), &b.valid());
    }
}
fn single_cuts(out: &mut OutB, kind: &str, b: &Body, r: &mut Rng, pending: bool) {
    let bytes = b.bytes();
    for c in 1..bytes.len() {
        let mut evs = chunks_at(&bytes, &[c]);
        if pending && r.chance(1, 2) {
            evs.insert(1, E::P);
        }
        case_client(out, kind, &evs, &b.valid());
    }
}
fn double_cuts(out: &mut OutB, kind: &str, b: &Body, r: &mut Rng, budget: usize) {
    let bytes = b.bytes();
    let n = bytes.len();
    if n < 3 {
        return;
    }
    let total = (n - 1) * (n - 2) / 2;
    if total <= budget {
        for c1 in 1..n {
            for c2 in c1 + 1..n {
                case_client(out, kind, &chunks_at(&bytes, &[c1, c2]), &b.valid());
            }
        }
    } else {
        for _ in 0..budget {
            let c1 = r.range(1, n as u64 - 2) as usize;
            let c2 = r.range(c1 as u64 + 1, n as u64 - 1) as usize;
            case_client(out, kind, &chunks_at(&bytes, &[c1, c2]), &b.valid());
        }
    }
}
fn truncations(out: &mut OutB, b: &Body, r: &mut Rng) {
    let bytes = b.bytes();
    let bounds = b.boundaries();
    for cut in 0..bytes.len() {
        let p = &bytes[..cut];
        let cuts = if r.chance(1, 2) { vec![] } else { random_cuts(r, p.len()) };
        let mut evs = if p.is_empty() && r.chance(1, 2) { vec![] } else { chunks_at(p, &cuts) };
        if r.chance(1, 3) {
            evs = sprinkle(r, evs);
        }
        if bounds.contains(&cut) {
            case_client(out, "truncate.between_frames", &evs, &Expect::Boundary { msgs: p.to_vec() });
        } else {
            case_client(out, "truncate.inside_frame", &evs, &Expect::Truncated { msgs: b.msg_bytes() });
        }
    }
}

fn malformed(out: &mut OutB, r: &mut Rng) {
    let b = gen_body(r);
    let bytes = b.bytes();
    let mb = b.msg_bytes();
    let which = r.below(14);
    let (kind, body, expect): (&str, Vec<u8>, Expect) = match which {
        0 => {
            // a flag that is neither 0, 1 nor 0x80 where a frame starts
            let flag = *r.pick(&[2u8, 3, 0x7f, 0x81, 0xff, 0x40, 0xc0, 0x82]);
            let mut v = mb.clone();
            v.extend(frame(flag, &gen_payload(r)));
            v.extend(tframe(&b.trailers));
            ("malformed.flag", v, Expect::MustErrAfter { msgs: mb.clone() })
        }
        1 => {
            let mut v = bytes.clone();
            let n = r.range(1, 6) as usize;
            v.extend(r.bytes(n));
            ("malformed.stray_after_trailers", v, Expect::MustErrAfter { msgs: mb.clone() })
        }
        2 => {
            let mut v = bytes.clone();
            v.extend(frame(0, &gen_payload(r)));
            ("malformed.data_after_trailers", v, Expect::MustErrAfter { msgs: mb.clone() })
        }
        3 => {
            let mut v = bytes.clone();
            v.extend(tframe(&gen_trailers(r)));
            ("malformed.second_trailers_frame", v, Expect::MustErrAfter { msgs: mb.clone() })
        }
        4 => {
            let mut v = mb.clone();
            v.extend(frame(0x80, b"grpc-status:0\r\nno-colon-here\r\n"));
            ("malformed.line_without_colon", v, Expect::MustErrAfter { msgs: mb.clone() })
        }
        5 => {
            let name: &[u8] = *r.pick(&[&b"a b"[..], b"", b"x\"y", b"k(", b"\xc3\xa9", b"a\tb", b"x@y"]);
            let mut blk = b"grpc-status:0\r\n".to_vec();
            blk.extend_from_slice(name);
            blk.extend_from_slice(b":v\r\n");
            let mut v = mb.clone();
            v.extend(frame(0x80, &blk));
            ("malformed.header_name", v, Expect::MustErrAfter { msgs: mb.clone() })
        }
        6 => {
            let val: &[u8] = *r.pick(&[&b"a\x01b"[..], b"\x7f", b"\x00", b"a\nb", b"x\ry", b"\x1f"]);
            let mut blk = b"grpc-status:0\r\nk:".to_vec();
            blk.extend_from_slice(val);
            blk.extend_from_slice(b"\r\n");
            let mut v = mb.clone();
            v.extend(frame(0x80, &blk));
            ("malformed.header_value", v, Expect::MustErrAfter { msgs: mb.clone() })
        }
        7 => {
            // length prefix of the trailers frame larger than what follows
            let blk = block(&b.trailers, false);
            let mut v = mb.clone();
            v.push(0x80);
            v.extend_from_slice(&((blk.len() + r.range(1, 9) as usize) as u32).to_be_bytes());
            v.extend(blk);
            ("malformed.trailers_length_too_big", v, Expect::MustErrAfter { msgs: mb.clone() })
        }
        8 => {
            // length prefix of the trailers frame smaller than the block: the rest is stray data
            let blk = block(&[(s("grpc-status"), b"0".to_vec()), (s("x-k"), b"v".to_vec())], false);
            let mut v = mb.clone();
            v.push(0x80);
            v.extend_from_slice(&((blk.len() - r.range(1, 5) as usize) as u32).to_be_bytes());
            v.extend(blk);
            ("malformed.trailers_length_too_small", v, Expect::MustErrAfter { msgs: mb.clone() })
        }
        9 => {
            // a message frame that announces more than the body holds
            let p = gen_payload(r);
            let mut v = mb.clone();
            v.push(0);
            v.extend_from_slice(&((p.len() + r.range(1, 300) as usize) as u32).to_be_bytes());
            v.extend(p);
            ("malformed.message_length_too_big", v, Expect::MustErrAfter { msgs: mb.clone() })
        }
        10 => {
            // other servers write "name: value"; one space after the colon is not part of the value
            let mut v = mb.clone();
            v.extend(frame(0x80, &block(&b.trailers, true)));
            ("variant.space_after_colon", v, b.valid())
        }
        11 => {
            // the last trailer line without its CRLF (F-C17h)
            let mut blk = block(&b.trailers, false);
            if blk.len() >= 2 {
                blk.truncate(blk.len() - 2);
            }
            let mut v = mb.clone();
            v.extend(frame(0x80, &blk));
            ("variant.unterminated_last_line", v, b.valid())
        }
        13 => {
            // a byte that is no flag where a frame starts, followed by FEWER than four bytes: the
            // frame header is incomplete at the end of the body (no theorem: tie and oracle)
            let flag = *r.pick(&[2u8, 3, 0x7f, 0x81, 0xff, 0x40]);
            let mut v = mb.clone();
            v.push(flag);
            let n = r.below(4) as usize;
            v.extend(r.bytes(n));
            ("malformed.flag_short", v, Expect::MustErrAfter { msgs: mb.clone() })
        }
        _ => {
            // upper-case names are normalised by http::HeaderName
            let t = vec![(s("Grpc-Status"), b"7".to_vec()), (s("X-UP"), b"V".to_vec())];
            let want = vec![(s("grpc-status"), b"7".to_vec()), (s("x-up"), b"V".to_vec())];
            let mut v = mb.clone();
            v.extend(tframe(&t));
            ("variant.uppercase_names", v, Expect::Valid { msgs: mb.clone(), trailers: want })
        }
    };
    let cuts = random_cuts(r, body.len());
    let mut evs = chunks_at(&body, &cuts);
    if r.chance(1, 2) {
        evs = sprinkle(r, evs);
    }
    case_client(out, kind, &evs, &expect);
}

fn inner_events(out: &mut OutB, r: &mut Rng) {
    let b = gen_body(r);
    let bytes = b.bytes();
    match r.below(4) {
        0 => {
            // the wrapped body fails somewhere
            let cuts = random_cuts(r, bytes.len());
            let mut evs = chunks_at(&bytes, &cuts);
            let at = r.below(evs.len() as u64 + 1) as usize;
            evs.insert(at, E::X);
            let evs = sprinkle(r, evs);
            case_client(out, "inner.error", &evs, &Expect::MustErrAfter { msgs: b.msg_bytes() });
        }
        1 => {
            // HTTP trailers of the wrapped body, no trailers frame in the body
            let mb = b.msg_bytes();
            let mut evs = chunks_at(&mb, &random_cuts(r, mb.len()));
            let t = gen_trailers(r);
            evs.push(E::T(t.clone()));
            // the trailers as the HeaderMap iterates them (values of a name are adjacent)
            let m = pairs_to_map(&t);
            let want: Vec<(String, Vec<u8>)> =
                m.iter().map(|(k, v)| (k.as_str().to_string(), v.as_bytes().to_vec())).collect();
            case_client(out, "inner.http_trailers", &evs, &Expect::Valid { msgs: mb, trailers: want });
        }
        2 => {
            // HTTP trailers in addition to a trailers frame: merged with HeaderMap::extend
            let mut evs = chunks_at(&bytes, &random_cuts(r, bytes.len()));
            let mut t = vec![(s("x-http"), b"1".to_vec()), (s("x-k"), b"http".to_vec())];
            if r.chance(1, 2) {
                t = gen_trailers(r);
                if t.is_empty() {
                    t.push((s("x-http"), b"1".to_vec()));
                }
            }
            evs.push(E::T(t.clone()));
            let m = pairs_to_map(&t);
            let http: Vec<(String, Vec<u8>)> =
                m.iter().map(|(k, v)| (k.as_str().to_string(), v.as_bytes().to_vec())).collect();
            case_client(
                out,
                "inner.http_trailers_and_frame",
                &evs,
                &Expect::Merged { msgs: b.msg_bytes(), frame: b.trailers.clone(), http },
            );
        }
        _ => {
            // HTTP trailers arriving before the body is complete
            let cuts = random_cuts(r, bytes.len());
            let mut evs = chunks_at(&bytes, &cuts);
            let at = r.below(evs.len() as u64) as usize;
            evs.insert(at, E::T(vec![(s("x-early"), b"1".to_vec())]));
            case_client(out, "inner.http_trailers_early", &evs, &Expect::Observe);
        }
    }
}

// ------------------------------------------------------------------ size-boundary mining
/// Every integer constant >= 64 of the non-test part of tonic-web/src/{call,service}.rs: literals
/// (decimal, hex, binary, `_` separators, type suffixes) and products / shifts of literals such as
/// `8 * 1024` or `1 << 13`.  Thresholds that appear in the code later are picked up by themselves.
fn mine_constants() -> Vec<usize> {
    let repo = std::env::var("VERIF_REPO").unwrap_or_else(|_| "/repo".to_string());
    let mut ks = std::collections::BTreeSet::new();
    for f in ["tonic-web/src/call.rs", "tonic-web/src/service.rs", "tonic-web/src/client.rs"] {
        let Ok(src) = std::fs::read_to_string(format!("{}/{}", repo, f)) else { continue };
        let src = src.split("#[cfg(test)]").next().unwrap_or("").to_string();
        // drop comments and string literals
        let mut clean = String::new();
        for line in src.lines() {
            let line = line.split("//").next().unwrap_or("");
            let mut in_str = false;
            for c in line.chars() {
                if c == '"' {
                    in_str = !in_str;
                    clean.push(' ');
                } else if !in_str {
                    clean.push(c);
                } else {
                    clean.push(' ');
                }
            }
            clean.push('\n');
        }
        // tokens: numbers and operators
        let b: Vec<char> = clean.chars().collect();
        let mut toks: Vec<Result<u64, char>> = vec![];
        let mut i = 0;
        while i < b.len() {
            let c = b[i];
            if c.is_ascii_digit() && (i == 0 || !(b[i - 1].is_alphanumeric() || b[i - 1] == '_')) {
                let mut j = i;
                while j < b.len() && (b[j].is_alphanumeric() || b[j] == '_') {
                    j += 1;
                }
                let t: String = b[i..j].iter().filter(|c| **c != '_').collect();
                let t = t.trim_end_matches("usize").trim_end_matches("u64").trim_end_matches("u32").trim_end_matches("u16").trim_end_matches("u8").trim_end_matches("i32").to_string();
                let v = if let Some(h) = t.strip_prefix("0x") {
                    u64::from_str_radix(h, 16).ok()
                } else if let Some(h) = t.strip_prefix("0b") {
                    u64::from_str_radix(h, 2).ok()
                } else {
                    t.parse::<u64>().ok()
                };
                if let Some(v) = v {
                    toks.push(Ok(v));
                }
                i = j;
            } else if c == '*' {
                toks.push(Err('*'));
                i += 1;
            } else if c == '<' && i + 1 < b.len() && b[i + 1] == '<' {
                toks.push(Err('<'));
                i += 2;
            } else if c.is_whitespace() {
                i += 1;
            } else {
                toks.push(Err('.'));
                i += 1;
            }
        }
        let mut k = 0;
        while k < toks.len() {
            if let Ok(mut v) = toks[k] {
                ks.insert(v);
                while k + 2 < toks.len() {
                    match (toks[k + 1], toks[k + 2]) {
                        (Err('*'), Ok(w)) => {
                            ks.insert(w);
                            v = v.saturating_mul(w);
                        }
                        (Err('<'), Ok(w)) if w < 40 => v <<= w,
                        _ => break,
                    }
                    k += 2;
                }
                ks.insert(v);
            }
            k += 1;
        }
    }
    let mut v: Vec<usize> = ks.into_iter().filter(|k| *k >= 64 && *k <= (1 << 20)).map(|k| k as usize).collect();
    v.sort();
    // the largest thresholds matter most; bound the work
    if v.len() > 6 {
        v = v[v.len() - 6..].to_vec();
    }
    v
}
/// the sizes worth trying around a threshold K
fn sizes_around(k: usize, dense: bool) -> Vec<usize> {
    let mut v: Vec<usize> = vec![];
    let lo = k.saturating_sub(70);
    v.extend(lo..=k + 10);
    let w = if dense { 12 } else { 6 };
    for c in [k * 3 / 4, k * 4 / 3, k / 2, k * 2] {
        v.extend(c.saturating_sub(w)..=c + w);
    }
    v.sort();
    v.dedup();
    v
}
/// trailers whose frame is 43 bytes, about 300 bytes, and longer than `k`
fn sized_trailers(which: usize, k: usize) -> Vec<(String, Vec<u8>)> {
    match which {
        0 => vec![(s("grpc-status"), b"0".to_vec()), (s("grpc-message"), b"12345678".to_vec())],
        1 => vec![(s("grpc-status"), b"13".to_vec()), (s("grpc-message"), vec![b'm'; 262])],
        _ => vec![(s("grpc-status"), b"2".to_vec()), (s("x-pad"), vec![b'p'; k + 50])],
    }
}
/// response bodies whose message / chunk sizes sit around every numeric threshold of the source,
/// read by the plain consumer and by the hyper-like one
fn mined_sizes(out: &mut OutB, r: &mut Rng, thorough: bool) -> Vec<usize> {
    let ks = mine_constants();
    let fill = 0x61u8;
    let one = |out: &mut OutB, k: usize, n: usize, layout: usize, tw: usize, hyper: bool| {
        let tl = sized_trailers(tw, k);
        let tf = tframe(&tl);
        let msgs = frame(1, &vec![fill; n]);
        let kk = k.min(n);
        let mut evs = match layout {
            0 => vec![E::Fr(1, n, fill)],
            1 => vec![E::D(msgs[..5].to_vec()), E::D(vec![fill; n])],
            _ => vec![E::D(msgs[..5].to_vec()), E::D(vec![fill; kk]), E::P, E::D(vec![fill; n - kk])],
        };
        if n <= 300 && layout == 0 {
            // small enough to spell out: message and trailers in ONE chunk
            evs = vec![E::D([msgs.clone(), tf.clone()].concat())];
        } else {
            evs.push(E::D(tf));
        }
        if hyper {
            case_client_hyper(out, "eos.client_sized", &evs, 1, true);
        } else {
            case_client(out, "chunking.sized", &evs, &Expect::Valid { msgs, trailers: tl });
        }
    };
    for &k in &ks {
        out.hist("sized.mined_constant", k);
        for (idx, n) in sizes_around(k, thorough).into_iter().enumerate() {
            // quick tier: every size in K-16..K+10, every third of the others (thorough: all)
            let near = n + 16 >= k && n <= k + 10;
            if !(thorough || near || idx % 3 == 0) {
                continue;
            }
            let tw = if idx % 11 == 0 { 2 } else { idx % 2 };
            one(out, k, n, idx % 3, tw, false);
            one(out, k, n, (idx + 1) % 3, tw, true);
            if thorough {
                one(out, k, n, (idx + 2) % 3, (tw + 1) % 2, true);
            }
        }
    }
    let maxk = ks.iter().copied().max().unwrap_or(8192);
    for i in 0..(if thorough { 250 } else { 40 }) {
        let n = r.below(3 * maxk as u64 + 1) as usize;
        one(out, *r.pick(&ks), n, r.below(3) as usize, (i % 7 == 0) as usize * 2 + (i % 2) * ((i % 7 != 0) as usize), i % 2 == 0);
    }
    ks
}


// ------------------------------------------------------------------ stack cases
fn gen_server_status(r: &mut Rng) -> ServerStatus {
    let code = if r.chance(1, 2) { 0 } else { r.range(1, 16) as u32 };
    let message = if code == 0 && r.chance(2, 3) {
        String::new()
    } else {
        s(*r.pick(&["", "not found", "a:b c: d", "50% done", "caf\u{e9} \u{fc}ber", "line\nbreak", "x  y", "tab\there", "\u{1f600}", "%41", "trailing "]))
    };
    let details = if r.chance(1, 5) {
        let n = r.range(1, 9) as usize;
        r.bytes(n)
    } else {
        vec![]
    };
    let mut md = vec![];
    for _ in 0..r.below(4) {
        let k = gen_name(r);
        if k.starts_with("grpc-") || k == "content-type" || k == "x-head" {
            continue;
        }
        let v = if k.ends_with("-bin") {
            let n = r.below(7) as usize;
            b64_nopad(&r.bytes(n))
        } else {
            gen_value(r)
        };
        md.push((k, v));
    }
    ServerStatus { code, message, details, md }
}
fn web_headers(r: &mut Rng) -> Vec<(String, Vec<u8>)> {
    let mut h = vec![(s("content-type"), b"application/grpc-web+proto".to_vec())];
    if r.chance(1, 3) {
        h.push((s("x-head"), b"1".to_vec()));
    }
    h
}
fn stack_case(out: &mut OutB, r: &mut Rng) {
    let shape = if r.chance(1, 2) { 0u8 } else { 2 };
    let n = if shape == 0 && r.chance(3, 4) { 1 } else { r.below(4) } as usize;
    let payloads: Vec<Vec<u8>> = (0..n).map(|_| gen_payload(r)).collect();
    let mut st = gen_server_status(r);
    let msgs: Vec<u8> = payloads.iter().flat_map(|p| frame(0, p)).collect();
    let mut trailers = st.trailers();
    if trailers.len() > 2 && r.chance(1, 3) {
        // the status need not come first; the values of one name keep the order of the block
        let i = r.below(trailers.len() as u64) as usize;
        let j = r.below(trailers.len() as u64) as usize;
        trailers.swap(i, j);
        st.md = trailers
            .iter()
            .filter(|(k, _)| !["grpc-status", "grpc-message", "grpc-status-details-bin"].contains(&k.as_str()))
            .cloned()
            .collect();
    }
    let bytes: Vec<u8> = [msgs.clone(), tframe(&trailers)].concat();
    let headers = web_headers(r);
    let chunked = |r: &mut Rng, b: &[u8]| {
        let evs = chunks_at(b, &random_cuts(r, b.len()));
        if r.chance(1, 2) { sprinkle(r, evs) } else { evs }
    };
    match r.below(20) {
        0..=10 => {
            let evs = chunked(r, &bytes);
            case_stack(out, "stack.complete", shape, 200, &headers, &evs, &StackExpect::Status { payloads, st, in_headers: false });
        }
        11..=14 => {
            // cut off at any byte; every third time exactly between two frames
            let mut ends = vec![0usize];
            for p in &payloads {
                ends.push(ends.last().unwrap() + 5 + p.len());
            }
            let cut = if r.chance(1, 3) { *r.pick(&ends) } else { r.below(bytes.len() as u64) as usize };
            let evs = if cut == 0 && r.chance(1, 2) { vec![] } else { chunked(r, &bytes[..cut]) };
            if let Some(k) = ends.iter().position(|e| *e == cut) {
                if k == 0 {
                    // an empty body: tonic decides from the HTTP head (no grpc-status, 200 => OK, no messages)
                    case_stack(out, "observe.stack.empty_body", shape, 200, &headers, &evs, &StackExpect::Observe);
                } else {
                    case_stack(out, "stack.cut_between_frames", shape, 200, &headers, &evs, &StackExpect::NoTrailers { payloads: payloads[..k].to_vec() });
                }
            } else {
                case_stack(out, "stack.cut_inside_frame", shape, 200, &headers, &evs, &StackExpect::MustFail { payloads });
            }
        }
        15 | 16 => {
            // trailers-only: the status travels in the HTTP headers, the body is empty
            let mut h = headers.clone();
            h.extend(st.trailers());
            let evs = if r.chance(1, 2) { vec![] } else { vec![E::P, E::D(vec![])] };
            case_stack(out, "stack.trailers_only_headers", shape, 200, &h, &evs, &StackExpect::Status { payloads: vec![], st, in_headers: true });
        }
        17 | 18 => {
            // malformed after the messages
            let mut b = msgs.clone();
            match r.below(3) {
                0 => b.extend(frame(*r.pick(&[2u8, 3, 0x7f, 0x81, 0xff]), &gen_payload(r))),
                1 => {
                    b.extend(tframe(&trailers));
                    b.extend(frame(0, b"late"));
                }
                _ => b.extend(frame(0x80, b"grpc-status:0\r\nno-colon-here\r\n")),
            }
            let evs = chunked(r, &b);
            case_stack(out, "stack.malformed", shape, 200, &headers, &evs, &StackExpect::MustFail { payloads });
        }
        _ => {
            // an HTTP error answer without a grpc-web body (a proxy): tonic maps the HTTP status
            let http = *r.pick(&[400u16, 401, 403, 404, 429, 500, 502, 503, 504]);
            case_stack(out, "observe.stack.http_error", shape, http, &headers, &[], &StackExpect::Observe);
        }
    }
}
fn stack_corpus(out: &mut OutB) {
    let h = vec![(s("content-type"), b"application/grpc-web+proto".to_vec())];
    let hi = frame(0, b"hi");
    let nf = ServerStatus { code: 5, message: s("not found"), details: vec![], md: vec![] };
    let full: Vec<u8> = [hi.clone(), tframe(&nf.trailers())].concat();
    for shape in [0u8, 2] {
        // F-C17j: the server answered "hi" and NOT_FOUND; the response is cut off exactly before the
        // trailers frame.  Before c815a16a the caller saw OK.
        case_stack(out, "corpus.stack.F-C17j", shape, 200, &h, &[E::D(full.clone())], &StackExpect::Status { payloads: vec![b"hi".to_vec()], st: nf.clone(), in_headers: false });
        case_stack(out, "corpus.stack.F-C17j", shape, 200, &h, &[E::D(hi.clone())], &StackExpect::NoTrailers { payloads: vec![b"hi".to_vec()] });
        case_stack(out, "corpus.stack.F-C17j", shape, 200, &h, &[E::D(hi[..3].to_vec()), E::P, E::D(hi[3..].to_vec())], &StackExpect::NoTrailers { payloads: vec![b"hi".to_vec()] });
        // F-C17a/b/c/h at the caller: one chunk, colons in the message, repeated custom names, no CRLF
        let st = ServerStatus { code: 9, message: s("a:b c: d"), details: vec![1, 2, 3], md: vec![(s("x-k"), b"1".to_vec()), (s("x-k"), b"2".to_vec()), (s("x-t-bin"), b"AAEC".to_vec())] };
        let one: Vec<u8> = [hi.clone(), tframe(&st.trailers())].concat();
        case_stack(out, "corpus.stack.status", shape, 200, &h, &[E::D(one.clone())], &StackExpect::Status { payloads: vec![b"hi".to_vec()], st: st.clone(), in_headers: false });
        let ok = ServerStatus { code: 0, message: String::new(), details: vec![], md: vec![(s("x-k"), b"a:b".to_vec())] };
        let okb: Vec<u8> = [hi.clone(), tframe(&ok.trailers())].concat();
        case_stack(out, "corpus.stack.status", shape, 200, &h, &[E::D(okb[..9].to_vec()), E::D(okb[9..].to_vec())], &StackExpect::Status { payloads: vec![b"hi".to_vec()], st: ok, in_headers: false });
        let mut unterminated = hi.clone();
        unterminated.extend(frame(0x80, b"grpc-status:5\r\ngrpc-message:not%20found"));
        case_stack(out, "corpus.stack.status", shape, 200, &h, &[E::D(unterminated)], &StackExpect::Status { payloads: vec![b"hi".to_vec()], st: nf.clone(), in_headers: false });
        // cut inside the trailers frame / inside the payload
        case_stack(out, "corpus.stack.cut", shape, 200, &h, &[E::D(full[..full.len() - 1].to_vec())], &StackExpect::MustFail { payloads: vec![b"hi".to_vec()] });
        case_stack(out, "corpus.stack.cut", shape, 200, &h, &[E::D(hi[..6].to_vec())], &StackExpect::MustFail { payloads: vec![b"hi".to_vec()] });
    }
}

/// `current_trailers.extend(trailers)`: the in-body trailers frame holds `n` distinct names, the
/// wrapped body then yields HTTP trailers with one name
fn extend_capacity(out: &mut OutB) {
    for (n, fresh) in [(24_575u32, true), (24_575, false), (24_576, true), (24_576, false), (1, true), (1, false)] {
        let mut blk = Vec::with_capacity(n as usize * 9);
        for i in 0..n {
            blk.push(b'x');
            let mut k = i;
            for _ in 0..4 {
                blk.push(b'a' + (k % 26) as u8);
                k /= 26;
            }
            blk.extend_from_slice(b":1\r\n");
        }
        let name = if fresh { s("y") } else { s("xaaaa") };
        let o = run_client(&[E::D(frame(0x80, &blk)), E::T(vec![(name, b"2".to_vec())])]);
        let obs = match o.items.first() {
            Some(Item::Trailers(t)) => Tr::L(vec![Tr::n(1u8), Tr::n(t.keys_len() as u64)]),
            Some(Item::Panic) => Tr::L(vec![Tr::n(99u8)]),
            other => Tr::L(vec![Tr::n(50u8), Tr::s(&format!("{:?}", other.map(|i| i.tr())))]),
        };
        out.hist("client.outcome", if o.items.first() == Some(&Item::Panic) { "panic" } else { "end" });
        out.push(Case {
            kind: "observe.header_map_extend_capacity".into(),
            input: json!({"distinct_names_in_trailers_frame": n, "http_trailer_name_is_new": fresh}),
            model: format!("obs_extend_capacity {} {}", n, fresh),
            impl_obs: obs,
            oracle: None,
            nontrivial: true,
        });
    }
}

fn corpus(out: &mut OutB) {
    let hi = frame(0, b"hi");
    let t5 = vec![(s("grpc-status"), b"5".to_vec()), (s("grpc-message"), b"nf".to_vec())];
    // F-C17a: message and trailers in one chunk
    let mut one = hi.clone();
    one.extend(tframe(&t5));
    case_client(out, "corpus.F-C17a", &[E::D(one.clone())], &Expect::Valid { msgs: hi.clone(), trailers: t5.clone() });
    // F-C17b: value with colons and a space
    let tb = vec![(s("grpc-status"), b"5".to_vec()), (s("grpc-message"), b"a:b c".to_vec())];
    let mut b = hi.clone();
    b.extend(tframe(&tb));
    case_client(out, "corpus.F-C17b", &[E::D(hi.clone()), E::D(tframe(&tb))], &Expect::Valid { msgs: hi.clone(), trailers: tb.clone() });
    case_client(out, "corpus.F-C17b", &[E::D(b)], &Expect::Valid { msgs: hi.clone(), trailers: tb });
    // F-C17c: repeated names
    let tc = vec![(s("x-k"), b"1".to_vec()), (s("grpc-status"), b"0".to_vec()), (s("x-k"), b"2".to_vec())];
    case_client(out, "corpus.F-C17c", &[E::D(hi.clone()), E::D(tframe(&tc))], &Expect::Valid { msgs: hi.clone(), trailers: tc });
    // F-C17d: trailers frame split after 9 of its bytes
    let tf = tframe(&t5);
    for cut in [9usize, 1, 4, 5, 6, tf.len() - 1] {
        case_client(
            out,
            "corpus.F-C17d",
            &[E::D(hi.clone()), E::D(tf[..cut].to_vec()), E::P, E::D(tf[cut..].to_vec())],
            &Expect::Valid { msgs: hi.clone(), trailers: t5.clone() },
        );
    }
    // F-C17e: stray bytes at EOF
    case_client(out, "corpus.F-C17e", &[E::D(hi.clone()), E::D(vec![0, 0, 0])], &Expect::Truncated { msgs: hi.clone() });
    let mut st = hi.clone();
    st.extend([0, 0, 0]);
    case_client(out, "corpus.F-C17e", &[E::D(st)], &Expect::Truncated { msgs: hi.clone() });
    // F-C17f: truncated payload at EOF
    case_client(out, "corpus.F-C17f", &[E::D(vec![0, 0, 0, 0, 5, 1, 2])], &Expect::Truncated { msgs: frame(0, &[1, 2, 3, 4, 5]) });
    case_client(out, "corpus.F-C17f", &[E::D(vec![0, 0, 0, 0, 5]), E::P, E::D(vec![1, 2])], &Expect::Truncated { msgs: frame(0, &[1, 2, 3, 4, 5]) });
    // F-C17g: first chunk shorter than a frame header
    for n in 1..5usize {
        case_client(
            out,
            "corpus.F-C17g",
            &[E::D(one[..n].to_vec()), E::D(one[n..].to_vec())],
            &Expect::Valid { msgs: hi.clone(), trailers: t5.clone() },
        );
    }
    // edges
    case_client(out, "corpus.empty_body", &[], &Expect::Boundary { msgs: vec![] });
    case_client(out, "corpus.empty_body", &[E::P, E::D(vec![]), E::P], &Expect::Boundary { msgs: vec![] });
    case_client(out, "corpus.trailers_only", &[E::D(tframe(&t5))], &Expect::Valid { msgs: vec![], trailers: t5.clone() });
    case_client(out, "corpus.empty_trailers_frame", &[E::D(hi.clone()), E::D(tframe(&[]))], &Expect::Valid { msgs: hi.clone(), trailers: vec![] });
    // F-C17j (fixed by c815a16a): message frames but no trailers frame is an error, not a clean end
    case_client(out, "corpus.F-C17j", &[E::D(hi.clone())], &Expect::Boundary { msgs: hi.clone() });
    case_client(out, "corpus.F-C17j", &[E::D(hi[..4].to_vec()), E::P, E::D(hi[4..].to_vec()), E::P], &Expect::Boundary { msgs: hi.clone() });
    let two_frames: Vec<u8> = [hi.clone(), frame(1, b"")].concat();
    case_client(out, "corpus.F-C17j", &[E::D(two_frames.clone())], &Expect::Boundary { msgs: two_frames.clone() });
    case_client(out, "corpus.F-C17j", &[E::D(hi.clone()), E::D(frame(1, b""))], &Expect::Boundary { msgs: two_frames.clone() });
    // ... HTTP trailers of the wrapped body count as trailers
    case_client(
        out,
        "corpus.F-C17j",
        &[E::D(hi.clone()), E::T(t5.clone())],
        &Expect::Valid { msgs: hi.clone(), trailers: t5.clone() },
    );
    // a complete frame is held back while the next one is incomplete, then everything arrives
    let two: Vec<u8> = [hi.clone(), frame(1, b"world")].concat();
    case_client(
        out,
        "corpus.second_frame_incomplete",
        &[E::D(two[..14].to_vec()), E::P, E::D(two[14..].to_vec()), E::D(tframe(&t5))],
        &Expect::Valid { msgs: two.clone(), trailers: t5.clone() },
    );
    case_client(out, "corpus.second_frame_incomplete", &[E::D(two[..14].to_vec())], &Expect::Truncated { msgs: two.clone() });
    // payload bytes that look like a trailers frame
    let tricky = frame(0, &tframe(&t5));
    let mut tb2 = tricky.clone();
    tb2.extend(tframe(&t5));
    for cut in 1..tb2.len() {
        case_client(
            out,
            "corpus.payload_looks_like_trailers",
            &[E::D(tb2[..cut].to_vec()), E::D(tb2[cut..].to_vec())],
            &Expect::Valid { msgs: tricky.clone(), trailers: t5.clone() },
        );
    }
    // big payloads
    let big = frame(0, &vec![7u8; 9_000]);
    let mut bb = big.clone();
    bb.extend(tframe(&t5));
    case_client(out, "corpus.big_payload", &[E::D(bb[..5].to_vec()), E::D(bb[5..9_005].to_vec()), E::D(bb[9_005..].to_vec())], &Expect::Valid { msgs: big, trailers: t5.clone() });

    // frame lengths >= 65536 (length prefix 00 01 00 00) and inner chunks above 8 KiB (BUFFER_SIZE)
    for (n, fill) in [(65_536usize, 0x80u8), (70_000, 0), (65_535, 1)] {
        let msgs = frame(1, &vec![fill; n]);
        let mut evs = vec![E::D(msgs[..5].to_vec())];
        let mut at = 0usize;
        for c in [9_000usize, 20_000, 8_193, usize::MAX] {
            let take = c.min(n - at);
            evs.push(E::D(vec![fill; take]));
            at += take;
            if at == n {
                break;
            }
            evs.push(E::P);
        }
        let tail: Vec<u8> = [frame(0, b"after"), tframe(&t5)].concat();
        evs.push(E::D(tail));
        let all: Vec<u8> = [msgs.clone(), frame(0, b"after")].concat();
        case_client(out, "corpus.big_frame", &evs, &Expect::Valid { msgs: all.clone(), trailers: t5.clone() });
        // the same, cut off inside the big payload
        case_client(out, "corpus.big_frame", &evs[..3], &Expect::Truncated { msgs: all });
    }

    // ---- behaviour the property text does not decide (recorded, compared with the model) ----
    // a value that starts with a space loses that space (HTTP/1 optional whitespace)
    let tl = vec![(s("grpc-status"), b"0".to_vec()), (s("x-k"), b" v".to_vec())];
    case_client(out, "observe.value_with_leading_space", &[E::D(tframe(&tl))], &Expect::Observe);
    for v in [&b"  v"[..], b" ", b"   ", b"\tv", b" \tv", b" a b "] {
        let tl = vec![(s("grpc-status"), b"0".to_vec()), (s("x-k"), v.to_vec())];
        case_client(out, "observe.value_with_leading_space", &[E::D(tframe(&tl))], &Expect::Observe);
    }
    // F-C17h: the last line lacks its CRLF: it is a trailer all the same
    let t5only = vec![(s("grpc-status"), b"5".to_vec())];
    case_client(
        out,
        "corpus.F-C17h",
        &[E::D(frame(0x80, b"grpc-status:5"))],
        &Expect::Valid { msgs: vec![], trailers: t5only.clone() },
    );
    let ta = vec![(s("x-a"), b"1".to_vec()), (s("grpc-status"), b"5".to_vec())];
    let mut hb = hi.clone();
    hb.extend(frame(0x80, b"x-a:1\r\ngrpc-status:5"));
    for cut in 1..hb.len() {
        case_client(
            out,
            "corpus.F-C17h",
            &[E::D(hb[..cut].to_vec()), E::D(hb[cut..].to_vec())],
            &Expect::Valid { msgs: hi.clone(), trailers: ta.clone() },
        );
    }
    // an unterminated remainder that is not a trailer line is an error
    case_client(out, "corpus.F-C17h", &[E::D(frame(0x80, b"grpc-status:5\r\nxyz"))], &Expect::MustErr);
    case_client(out, "corpus.F-C17h", &[E::D(frame(0x80, b"grpc-status:5\r\n\r"))], &Expect::MustErr);
    case_client(out, "corpus.F-C17h", &[E::D(frame(0x80, b"grpc-status:5\r"))], &Expect::MustErr);
    // "name: va\rlue": a value with a leading space is cut at a lone CR
    case_client(out, "observe.lone_cr_after_space", &[E::D(frame(0x80, b"k: a\rb\r\n"))], &Expect::Observe);
    // empty lines
    case_client(out, "observe.empty_line", &[E::D(frame(0x80, b"\r\ngrpc-status:0\r\n"))], &Expect::Observe);
}

/// http::HeaderMap cannot hold more than 24576 distinct names: `append` panics
fn header_map_limit(out: &mut OutB) {
    for n in [24_575u32, 24_576, 24_577] {
        let mut blk = Vec::with_capacity(n as usize * 9);
        for i in 0..n {
            blk.push(b'x');
            let mut k = i;
            for _ in 0..4 {
                blk.push(b'a' + (k % 26) as u8);
                k /= 26;
            }
            blk.extend_from_slice(b":1\r\n");
        }
        let o = run_client(&[E::D(frame(0x80, &blk))]);
        let obs = match o.items.first() {
            Some(Item::Trailers(t)) => Tr::L(vec![Tr::n(1u8), Tr::n(t.len() as u64)]),
            Some(Item::Panic) => Tr::L(vec![Tr::n(99u8)]),
            other => Tr::L(vec![Tr::n(50u8), Tr::s(&format!("{:?}", other.map(|i| i.tr())))]),
        };
        out.hist("client.outcome", if o.items.first() == Some(&Item::Panic) { "panic" } else { "end" });
        out.push(Case {
            kind: "observe.header_map_capacity".into(),
            input: json!({"distinct_trailer_names": n, "body": "80 || be32(len) || (\"x\" ++ 4 base-26 letters ++ \":1\\r\\n\") * n"}),
            model: format!("obs_many_names {}", n),
            impl_obs: obs,
            oracle: None,
            nontrivial: true,
        });
    }
}

fn main() {
    let a = args();
    let mut out = OutB::new(&a.out);
    let mut r = Rng::new(a.seed);

    if let Some(f) = &a.replay {
        let v: Value = serde_json::from_str(&std::fs::read_to_string(f).unwrap()).unwrap();
        let kind = v["kind"].as_str().unwrap_or("replay").to_string();
        let inp = &v["input"];
        if let Some(st) = inp.get("stack") {
            let evs: Vec<E> = st["evs"].as_array().unwrap().iter().map(ev_from_json).collect();
            case_stack(
                &mut out,
                &kind,
                st["shape"].as_u64().unwrap_or(2) as u8,
                st["http"].as_u64().unwrap_or(200) as u16,
                &pairs_from_json(&st["headers"]),
                &evs,
                &stack_expect_from(&st["expect"]),
            );
        } else if let (Some(evs), Some(mode)) = (inp.get("evs"), inp.get("eos_mode")) {
            let evs: Vec<E> = evs.as_array().unwrap().iter().map(ev_from_json).collect();
            let m = mode.as_u64().unwrap_or(1) as u8;
            case_client_hyper(&mut out, &kind, &evs, m, m != 2);
        } else if let Some(evs) = inp.get("evs") {
            let evs: Vec<E> = evs.as_array().unwrap().iter().map(ev_from_json).collect();
            case_client(&mut out, &kind, &evs, &expect_from_json(&inp["expect"]));
        } else if let Some(evs) = inp.get("req_evs") {
            let evs: Vec<E> = evs.as_array().unwrap().iter().map(ev_from_json).collect();
            let ver = if inp["version"] == 3 { Version::HTTP_2 } else { Version::HTTP_11 };
            case_client_request(&mut out, &kind, &evs, ver);
        }
        out.finish(IMPORTS, "replay of one stored case", json!({}));
        return;
    }

    corpus(&mut out);
    stack_corpus(&mut out);
    header_map_limit(&mut out);
    extend_capacity(&mut out);
    let mined = mined_sizes(&mut out, &mut r, a.thorough);

    let t = a.thorough;
    // ---- every chunking of small bodies -------------------------------------------------------
    let small: Vec<Body> = vec![
        Body { msgs: vec![(0, vec![])], trailers: vec![] },                                  // 10 bytes
        Body { msgs: vec![], trailers: vec![(s("a"), b"1".to_vec())] },                      // 10 bytes
        Body { msgs: vec![(1, b"ab".to_vec())], trailers: vec![] },                          // 12 bytes
        Body { msgs: vec![], trailers: vec![(s("k"), b":".to_vec())] },                      // 10 bytes
        Body { msgs: vec![(0, vec![0x80])], trailers: vec![] },                              // 11 bytes
        Body { msgs: vec![], trailers: vec![(s("k"), b"a b".to_vec())] },                    // 12 bytes
        Body { msgs: vec![(0, b"xyz".to_vec())], trailers: vec![] },                         // 13 bytes
        Body { msgs: vec![(1, vec![])], trailers: vec![(s("a"), b"1".to_vec())] },            // 15 bytes: message + trailer
    ];
    let n_small = if t { small.len() } else { 2 };
    for b in &small[..n_small] {
        all_cut_sets(&mut out, "chunking.exhaustive", b);
    }
    // ---- all single cuts, all / many double cuts ---------------------------------------------
    let fixed = Body {
        msgs: vec![(0, b"hi".to_vec()), (1, vec![]), (0, vec![0x80, 0, 0, 0, 1, b'x'])],
        trailers: vec![
            (s("grpc-status"), b"5".to_vec()),
            (s("grpc-message"), b"a:b c: d".to_vec()),
            (s("x-k"), b"1".to_vec()),
            (s("x-k"), b"2".to_vec()),
            (s("x-bin-bin"), b"/+8=".to_vec()),
        ],
    };
    single_cuts(&mut out, "chunking.single_cut", &fixed, &mut r, false);
    double_cuts(&mut out, "chunking.double_cut", &fixed, &mut r, if t { 10_000 } else { 300 });
    truncations(&mut out, &fixed, &mut r);
    let (n_single, n_double, n_trunc, n_rand, n_mal, n_inner, n_req, n_stack) =
        if t { (60, 30, 60, 6000, 3000, 1200, 300, 5000) } else { (4, 2, 6, 500, 300, 160, 40, 450) };
    for _ in 0..n_single {
        let b = gen_body(&mut r);
        single_cuts(&mut out, "chunking.single_cut", &b, &mut r, true);
    }
    for _ in 0..n_double {
        let b = gen_body(&mut r);
        double_cuts(&mut out, "chunking.double_cut", &b, &mut r, if t { 700 } else { 150 });
    }
    for _ in 0..n_trunc {
        let b = gen_body(&mut r);
        truncations(&mut out, &b, &mut r);
    }
    // ---- random bodies, random chunkings, Pending anywhere -------------------------------------
    for _ in 0..n_rand {
        let b = gen_body(&mut r);
        let bytes = b.bytes();
        let evs = chunks_at(&bytes, &random_cuts(&mut r, bytes.len()));
        let evs = sprinkle(&mut r, evs);
        out.hist("client.frames", b.msgs.len());
        case_client(&mut out, "chunking.random", &evs, &b.valid());
    }
    // ---- malformed stream ---------------------------------------------------------------------
    for _ in 0..n_mal {
        malformed(&mut out, &mut r);
    }
    for _ in 0..n_inner {
        inner_events(&mut out, &mut r);
    }
    // ---- the caller's view: tonic's client::Grpc over the layer --------------------------------
    for _ in 0..n_stack {
        stack_case(&mut out, &mut r);
    }
    // ---- Body::is_end_stream as a hyper-like consumer uses it --------------------------------
    let n_eos = if t { 1500 } else { 150 };
    {
        // the witness: message and trailers frame in the last chunk of a body that (like hyper's
        // Incoming) reports is_end_stream() once that chunk has been handed over
        let hi = frame(0, b"hi");
        let t0 = vec![(s("grpc-status"), b"5".to_vec())];
        let one: Vec<u8> = [hi.clone(), tframe(&t0)].concat();
        case_client_hyper(&mut out, "corpus.F-C17i", &[E::D(one.clone())], 1, true);
        case_client_hyper(&mut out, "corpus.F-C17i", &[E::D(hi.clone()), E::D(tframe(&t0))], 1, true);
        case_client_hyper(&mut out, "corpus.F-C17i", &[E::D(one[..9].to_vec()), E::D(one[9..].to_vec())], 1, true);
        case_client_hyper(&mut out, "corpus.F-C17i", &[], 1, true);
        case_client_hyper(&mut out, "corpus.F-C17i", &[E::D(tframe(&t0))], 1, true);
        // the minimal replay of the finding: frame(1, "") and an empty trailers frame in one chunk
        case_client_hyper(&mut out, "corpus.F-C17i", &[E::D(vec![1, 0, 0, 0, 0, 0x80, 0, 0, 0, 0])], 1, true);
        // F-C17j: after the frames of a body without trailers frame an error is still to come
        case_client_hyper(&mut out, "corpus.F-C17j", &[E::D(hi.clone())], 1, true);
        case_client_hyper(&mut out, "corpus.F-C17j", &[E::D(hi.clone()), E::D(frame(1, b"x"))], 1, true);
    }
    for _ in 0..n_eos {
        let b = gen_body(&mut r);
        let bytes = b.bytes();
        let cuts = random_cuts(&mut r, bytes.len());
        let evs = chunks_at(&bytes, &cuts);
        let mut evs = if r.chance(1, 2) { sprinkle(&mut r, evs) } else { evs };
        if r.chance(1, 6) {
            // a body that stops early (between frames, inside a frame): the error must not be hidden
            let keep = r.below(evs.len() as u64 + 1) as usize;
            evs.truncate(keep);
        }
        match r.below(4) {
            0 => case_client_hyper(&mut out, "eos.client_never", &evs, 0, true),
            1 => case_client_hyper(&mut out, "observe.eos_client_inner_breaks_contract", &evs, 2, false),
            _ => case_client_hyper(&mut out, "eos.client", &evs, 1, true),
        }
    }
    // ---- request direction (not part of the property text; tie only) ---------------------------
    for _ in 0..n_req {
        let b = gen_body(&mut r);
        let mb = b.msg_bytes();
        let cuts = random_cuts(&mut r, mb.len());
        let mut evs = sprinkle(&mut r, chunks_at(&mb, &cuts));
        match r.below(6) {
            0 => evs.push(E::T(vec![(s("x-t"), b"1".to_vec())])),
            1 => evs.push(E::X),
            _ => {}
        }
        let ver = if r.chance(1, 2) { Version::HTTP_2 } else { Version::HTTP_11 };
        case_client_request(&mut out, "request.passthrough", &evs, ver);
    }

    out.finish(
        IMPORTS,
        "client response bodies through the real GrpcWebClientService: corpus (witnesses F-C17a..j, edges), every chunking (all 2^(n-1) cut sets) of small bodies, every single cut and all/many double cuts of generated bodies, random bodies (0-4 message frames, flags 0/1, payloads 0..40 and some 64..200, trailers with grpc-status / grpc-message containing ':' and spaces / repeated names / random token names over the whole HeaderName alphabet / values of any legal HeaderValue bytes) with random cut sets, Pending anywhere and empty chunks, truncation at every byte (must fail, frame boundaries included; only the empty body may end cleanly), malformed stream (bad flags, stray bytes, data or a second trailers frame after the trailers, bad trailer lines, wrong length prefixes), inner body errors and HTTP trailers (merged), Body::size_hint before every poll; kinds stack.*: the same bodies read by tonic::client::Grpc (unary / server_streaming) over the layer, judged by the status, messages and metadata the CALLER sees. Oracle: bytes, trailers and statuses that were encoded by the harness itself. Non-trivial = non-empty body; distinct = distinct (kind, model expression).",
        json!({"mined_size_thresholds": mined}),
    );
}
