//! C17 correspondence harness: the grpc-web CLIENT layer of tonic-web.
//! The real `GrpcWebClientService` wraps a scripted inner service; the `GrpcWebCall` response
//! body it returns is polled frame by frame.  Every case is checked by a direct oracle (what the
//! property demands, computed from the frames and trailers that were ENCODED by this harness,
//! never from the model) and is also evaluated by the Coq model (`obs_client`).
use bytes::Bytes;
use http::{HeaderMap, HeaderName, HeaderValue, Request, Response, Version};
use http_body::{Body as HttpBody, Frame};
use serde_json::{json, Value};
use std::convert::Infallible;
use std::pin::Pin;
use std::sync::atomic::{AtomicUsize, Ordering};
use std::sync::{Arc, Mutex};
use std::task::{Context, Poll};
use tonic_web::{GrpcWebCall, GrpcWebClientService};
use tower_service::Service;
use vcommon::body::{spin, Ev, ScriptBody};
use vcommon::*;

const IMPORTS: &str =
    "From Verif Require Import Lib.Bytes Lib.Obs Lib.HeaderMap Model.Frame Model.WebServer Model.WebClient.";

/// Cases are collected and written at the end in a stride-16 order: the driver evaluates the
/// model in 16 shards of consecutive cases and the large sized cases are generated in one block;
/// case i of the run goes to shard i mod 16 so that the shards stay balanced.
struct OutB {
    inner: Out,
    cases: Vec<Option<Case>>,
}
impl OutB {
    fn new(dir: &str) -> OutB {
        OutB { inner: Out::new(dir), cases: vec![] }
    }
    fn hist(&mut self, name: &str, bucket: impl ToString) {
        self.inner.hist(name, bucket)
    }
    fn push(&mut self, c: Case) {
        self.cases.push(Some(c));
    }
    fn finish(mut self, imports: &str, rule: &str, extra: Value) {
        let n = self.cases.len();
        for j in 0..16 {
            let mut i = j;
            while i < n {
                self.inner.push(self.cases[i].take().unwrap());
                i += 16;
            }
        }
        self.inner.finish(imports, rule, extra)
    }
}

// ------------------------------------------------------------------ scripted inner body
#[derive(Clone, Debug)]
struct InnerErr;
impl std::fmt::Display for InnerErr {
    fn fmt(&self, f: &mut std::fmt::Formatter<'_>) -> std::fmt::Result {
        f.write_str("inner-error")
    }
}

/// counts polls and `None` answers of the wrapped script; breaks a busy loop by panicking
struct CountBody {
    inner: ScriptBody<InnerErr>,
    polls: Arc<AtomicUsize>,
    ends: Arc<AtomicUsize>,
    /// how `is_end_stream` answers: 0 never, 1 once the script is exhausted, 2 once no data is left
    eos_mode: u8,
}
impl CountBody {
    fn eos(&self) -> bool {
        match self.eos_mode {
            1 => self.inner.evs.is_empty(),
            2 => !self.inner.evs.iter().any(|e| matches!(e, Ev::Data(_))),
            _ => false,
        }
    }
}
impl HttpBody for CountBody {
    fn is_end_stream(&self) -> bool {
        self.eos()
    }
    type Data = Bytes;
    type Error = InnerErr;
    fn poll_frame(
        mut self: Pin<&mut Self>,
        cx: &mut Context<'_>,
    ) -> Poll<Option<Result<Frame<Bytes>, InnerErr>>> {
        self.polls.fetch_add(1, Ordering::SeqCst);
        let r = Pin::new(&mut self.inner).poll_frame(cx);
        if let Poll::Ready(None) = r {
            if self.ends.fetch_add(1, Ordering::SeqCst) > 1000 {
                panic!("BUSYLOOP: ended inner body polled more than 1000 times");
            }
        }
        r
    }
}

/// one scripted poll result, serialisable
#[derive(Clone, Debug)]
enum E {
    P,
    D(Vec<u8>),
    /// a data chunk that is one whole frame: flag, payload length, fill byte (compact for Coq)
    Fr(u8, usize, u8),
    T(Vec<(String, Vec<u8>)>),
    X,
}
fn pairs_to_map(t: &[(String, Vec<u8>)]) -> HeaderMap {
    let mut m = HeaderMap::new();
    for (k, v) in t {
        m.append(
            HeaderName::from_bytes(k.as_bytes()).unwrap(),
            HeaderValue::from_bytes(v).unwrap(),
        );
    }
    m
}
fn to_ev(e: &E) -> Ev<InnerErr> {
    match e {
        E::P => Ev::Pending,
        E::D(d) => Ev::Data(d.clone()),
        E::Fr(f, n, b) => Ev::Data(frame(*f, &vec![*b; *n])),
        E::T(t) => Ev::Trailers(pairs_to_map(t)),
        E::X => Ev::Err(InnerErr),
    }
}
fn ev_coq(e: &E) -> String {
    match e {
        E::P => "EvPending".into(),
        E::D(d) => format!("(EvData {})", coq_bytes(d)),
        E::Fr(f, n, b) => format!("(EvData (frame {} (rep {} {})))", f, n, b),
        E::T(t) => format!("(EvTrailers {})", coq_hm(&pairs_to_map(t))),
        E::X => "EvErr".into(),
    }
}
fn evs_coq(evs: &[E]) -> String {
    coq_list(evs, ev_coq)
}
fn ev_json(e: &E) -> Value {
    match e {
        E::P => json!("p"),
        E::D(d) => json!({ "d": hex(d) }),
        E::Fr(f, n, b) => json!({ "frame": [f, n, b] }),
        E::T(t) => json!({"t": t.iter().map(|(k, v)| json!([k, hex(v)])).collect::<Vec<_>>()}),
        E::X => json!("x"),
    }
}
fn pairs_from_json(v: &Value) -> Vec<(String, Vec<u8>)> {
    v.as_array()
        .map(|a| {
            a.iter()
                .map(|p| (p[0].as_str().unwrap().to_string(), unhex(p[1].as_str().unwrap())))
                .collect()
        })
        .unwrap_or_default()
}
fn ev_from_json(v: &Value) -> E {
    if v == "p" {
        E::P
    } else if v == "x" {
        E::X
    } else if let Some(d) = v.get("d") {
        E::D(unhex(d.as_str().unwrap()))
    } else if let Some(f) = v.get("frame") {
        E::Fr(f[0].as_u64().unwrap() as u8, f[1].as_u64().unwrap() as usize, f[2].as_u64().unwrap() as u8)
    } else {
        E::T(pairs_from_json(&v["t"]))
    }
}

// ------------------------------------------------------------------ what was observed
#[derive(Clone, Debug, PartialEq)]
enum Item {
    None,
    Data(Vec<u8>),
    Trailers(HeaderMap),
    Err(u32, Option<u32>),
    Busy,
    Panic,
}
impl Item {
    fn tr(&self) -> Tr {
        match self {
            Item::None => Tr::L(vec![Tr::n(0u8)]),
            Item::Data(d) if d.len() > 2048 => Tr::L(vec![Tr::n(5u8), Tr::n(d.len() as u64), Tr::n(digest(d))]),
            Item::Data(d) => Tr::L(vec![Tr::n(1u8), Tr::b(d)]),
            Item::Trailers(t) => Tr::L(vec![Tr::n(2u8), hm_tr(t)]),
            Item::Err(c, None) => Tr::L(vec![Tr::n(3u8), Tr::L(vec![Tr::n(*c)])]),
            Item::Err(c, Some(f)) => Tr::L(vec![Tr::n(3u8), Tr::L(vec![Tr::n(*c), Tr::n(*f)])]),
            Item::Busy => Tr::L(vec![Tr::n(98u8)]),
            Item::Panic => Tr::L(vec![Tr::n(99u8)]),
        }
    }
    fn is_err(&self) -> bool {
        matches!(self, Item::Err(..))
    }
}
/// the digest of Model/WebServer.v
fn digest(d: &[u8]) -> u64 {
    d.iter().fold(7u64, |h, b| (h * 31 + *b as u64 + 1) % 4294967291)
}
/// error class from the code and the fixed prefix of the message (never the full text)
fn classify(code: i32, msg: &str) -> Item {
    if code != 13 {
        return Item::Err(51, None);
    }
    if msg.starts_with("tonic-web: unexpected data after trailers") {
        Item::Err(1, None)
    } else if let Some(rest) = msg.strip_prefix("Invalid header bit ") {
        let n: u32 = rest.split(' ').next().and_then(|x| x.parse().ok()).unwrap_or(9999);
        Item::Err(2, Some(n))
    } else if msg.starts_with("tonic-web: unexpected EOF, incomplete frame") {
        Item::Err(3, None)
    } else if msg.starts_with("tonic-web: inner-error") {
        Item::Err(4, None)
    } else if msg.starts_with("trailers couldn't parse value") {
        Item::Err(5, None)
    } else if msg.starts_with("Unable to parse HeaderName") {
        Item::Err(6, None)
    } else if msg.starts_with("Unable to parse HeaderValue") {
        Item::Err(7, None)
    } else {
        Item::Err(50, None)
    }
}

struct Observed {
    items: Vec<Item>,
    extra: Vec<Item>,
    polls: usize,
    ends: usize,
}
impl Observed {
    fn tr(&self) -> Tr {
        Tr::L(vec![
            Tr::L(self.items.iter().map(|i| i.tr()).collect()),
            Tr::L(self.extra.iter().map(|i| i.tr()).collect()),
            Tr::n(self.polls as u64),
            Tr::n(self.ends as u64),
        ])
    }
}

// ------------------------------------------------------------------ the inner service
type Seen = Arc<Mutex<Option<(Version, HeaderMap, Vec<Item>)>>>;
struct Inner {
    resp: Option<Response<CountBody>>,
    seen: Seen,
}
impl Service<Request<GrpcWebCall<ScriptBody<InnerErr>>>> for Inner {
    type Response = Response<CountBody>;
    type Error = Infallible;
    type Future = std::future::Ready<Result<Response<CountBody>, Infallible>>;
    fn poll_ready(&mut self, _: &mut Context<'_>) -> Poll<Result<(), Infallible>> {
        Poll::Ready(Ok(()))
    }
    fn call(&mut self, req: Request<GrpcWebCall<ScriptBody<InnerErr>>>) -> Self::Future {
        let (parts, body) = req.into_parts();
        let mut body = Box::pin(body);
        let mut items = vec![];
        for _ in 0..10_000 {
            match spin(std::future::poll_fn(|cx| body.as_mut().poll_frame(cx)), 10_000) {
                Err(()) => {
                    items.push(Item::Busy);
                    break;
                }
                Ok(None) => {
                    items.push(Item::None);
                    break;
                }
                Ok(Some(Ok(f))) => {
                    if f.is_data() {
                        items.push(Item::Data(f.into_data().unwrap().to_vec()));
                    } else {
                        items.push(Item::Trailers(f.into_trailers().unwrap()));
                    }
                }
                Ok(Some(Err(st))) => {
                    items.push(classify(st.code() as i32, st.message()));
                    break;
                }
            }
        }
        *self.seen.lock().unwrap() = Some((parts.version, parts.headers, items));
        std::future::ready(Ok(self.resp.take().expect("called once")))
    }
}

fn version_num(v: Version) -> u32 {
    match v {
        Version::HTTP_09 => 0,
        Version::HTTP_10 => 1,
        Version::HTTP_11 => 2,
        Version::HTTP_2 => 3,
        Version::HTTP_3 => 4,
        _ => 9,
    }
}

/// drive one response body through the real client layer
fn run_client(evs: &[E]) -> Observed {
    let polls = Arc::new(AtomicUsize::new(0));
    let ends = Arc::new(AtomicUsize::new(0));
    let mut items: Vec<Item> = vec![];
    let mut extra: Vec<Item> = vec![];
    let res = catch(std::panic::AssertUnwindSafe(|| {
        let (sb, _) = ScriptBody::new(evs.iter().map(to_ev).collect());
        let body = CountBody { inner: sb, polls: polls.clone(), ends: ends.clone(), eos_mode: 0 };
        let seen: Seen = Arc::new(Mutex::new(None));
        let mut svc = GrpcWebClientService::new(Inner { resp: Some(Response::new(body)), seen });
        let (req_body, _) = ScriptBody::<InnerErr>::new(vec![]);
        let req = Request::builder()
            .version(Version::HTTP_2)
            .uri("http://example.test/pkg.Svc/Method")
            .body(req_body)
            .unwrap();
        let resp = spin(svc.call(req), 100).expect("response future is ready").unwrap();
        let mut body = Box::pin(resp.into_body());
        let per_frame = evs.len() + 10;
        let mut finished = false;
        for _ in 0..100_000 {
            match spin(std::future::poll_fn(|cx| body.as_mut().poll_frame(cx)), per_frame) {
                Err(()) => {
                    items.push(Item::Busy);
                    return;
                }
                Ok(None) => {
                    items.push(Item::None);
                    finished = true;
                    break;
                }
                Ok(Some(Ok(f))) => {
                    if f.is_data() {
                        items.push(Item::Data(f.into_data().unwrap().to_vec()));
                    } else if f.is_trailers() {
                        items.push(Item::Trailers(f.into_trailers().unwrap()));
                    }
                }
                Ok(Some(Err(st))) => {
                    items.push(classify(st.code() as i32, st.message()));
                    finished = true;
                    break;
                }
            }
        }
        if !finished {
            items.push(Item::Busy);
            return;
        }
        // two further polls: the end / the error must be final
        for _ in 0..2 {
            match spin(std::future::poll_fn(|cx| body.as_mut().poll_frame(cx)), per_frame) {
                Err(()) => extra.push(Item::Busy),
                Ok(None) => extra.push(Item::None),
                Ok(Some(Ok(f))) => {
                    if f.is_data() {
                        extra.push(Item::Data(f.into_data().unwrap().to_vec()));
                    } else {
                        extra.push(Item::Trailers(f.into_trailers().unwrap()));
                    }
                }
                Ok(Some(Err(st))) => extra.push(classify(st.code() as i32, st.message())),
            }
        }
    }));
    if let Err(p) = res {
        extra.clear();
        items.push(if p.contains("BUSYLOOP") { Item::Busy } else { Item::Panic });
    }
    Observed { items, extra, polls: polls.load(Ordering::SeqCst), ends: ends.load(Ordering::SeqCst) }
}

/// The response body read by a hyper-like consumer: `is_end_stream()` is asked before the first
/// poll and after every data frame, and the consumer stops when it answers true.  Afterwards the
/// body is drained on (what an `is_end_stream() == true` body must not have: more frames).
fn case_client_hyper(out: &mut OutB, kind: &str, evs: &[E], mode: u8, judged: bool) {
    let polls = Arc::new(AtomicUsize::new(0));
    let ends = Arc::new(AtomicUsize::new(0));
    let (sb, _) = ScriptBody::new(evs.iter().map(to_ev).collect());
    let body = CountBody { inner: sb, polls, ends, eos_mode: mode };
    let seen: Seen = Arc::new(Mutex::new(None));
    let mut svc = GrpcWebClientService::new(Inner { resp: Some(Response::new(body)), seen });
    let (req_body, _) = ScriptBody::<InnerErr>::new(vec![]);
    let req = Request::builder().version(Version::HTTP_2).uri("http://example.test/pkg.Svc/Method").body(req_body).unwrap();
    let resp = spin(svc.call(req), 100).expect("response future is ready").unwrap();
    let mut body = Box::pin(resp.into_body());
    let per_frame = evs.len() + 10;
    let mut items: Vec<Item> = vec![];
    let mut rest: Vec<Item> = vec![];
    let mut by_eos = false;
    let next = |body: &mut Pin<Box<GrpcWebCall<CountBody>>>| -> Item {
        match spin(std::future::poll_fn(|cx| body.as_mut().poll_frame(cx)), per_frame) {
            Err(()) => Item::Busy,
            Ok(None) => Item::None,
            Ok(Some(Ok(f))) => {
                if f.is_data() {
                    Item::Data(f.into_data().unwrap().to_vec())
                } else {
                    Item::Trailers(f.into_trailers().unwrap())
                }
            }
            Ok(Some(Err(st))) => classify(st.code() as i32, st.message()),
        }
    };
    if body.is_end_stream() {
        by_eos = true;
    } else {
        for _ in 0..100_000 {
            let it = next(&mut body);
            let is_data = matches!(it, Item::Data(_));
            items.push(it);
            if !is_data {
                break;
            }
            if body.is_end_stream() {
                by_eos = true;
                break;
            }
        }
    }
    if by_eos {
        for _ in 0..100_000 {
            let it = next(&mut body);
            let go = matches!(it, Item::Data(_) | Item::Trailers(_));
            rest.push(it);
            if !go {
                break;
            }
        }
    }
    let mut oracle = None;
    let late = rest.iter().filter(|i| matches!(i, Item::Data(_) | Item::Trailers(_))).count();
    if judged && late > 0 {
        oracle = Some(format!(
            "is_end_stream() answered true after {} frame(s) although {} more frame(s) (data / trailers) were still to be yielded: a consumer that honours it loses them",
            items.len(),
            late
        ));
    }
    out.hist("eos.client.mode", mode);
    out.hist("eos.client.stopped_by_is_end_stream", by_eos);
    out.hist("eos.client.frames_lost_to_is_end_stream", late.min(3));
    out.push(Case {
        kind: kind.to_string(),
        input: json!({"evs": evs.iter().map(ev_json).collect::<Vec<_>>(), "eos_mode": mode}),
        model: format!("obs_client_hyper {} {}", mode, evs_coq(evs)),
        impl_obs: Tr::L(vec![
            Tr::L(items.iter().map(|i| i.tr()).collect()),
            Tr::bool(by_eos),
            Tr::L(rest.iter().map(|i| i.tr()).collect()),
        ]),
        oracle,
        nontrivial: !evs.is_empty(),
    });
}

// ------------------------------------------------------------------ expectations (the oracle)
#[derive(Clone, Debug)]
enum Expect {
    /// complete body: these message bytes, then these trailers (name, value) in order, then end
    Valid { msgs: Vec<u8>, trailers: Vec<(String, Vec<u8>)> },
    /// cut inside a frame: an error, never a clean end; data delivered is a prefix of `msgs`
    Truncated { msgs: Vec<u8> },
    /// cut exactly between frames / no trailers frame at all: recorded, data must be `msgs`
    Boundary { msgs: Vec<u8> },
    /// malformed: an error must be produced
    MustErr,
    /// behaviour the property text does not decide: no hang, no panic; compared with the model only
    Observe,
    /// as Observe, a panic is recorded as well (capacity limit of http::HeaderMap)
    ObserveAny,
}
fn expect_json(e: &Expect) -> Value {
    let pj = |t: &Vec<(String, Vec<u8>)>| json!(t.iter().map(|(k, v)| json!([k, hex(v)])).collect::<Vec<_>>());
    match e {
        Expect::Valid { msgs, trailers } => json!({"valid": {"msgs": hex(msgs), "trailers": pj(trailers)}}),
        Expect::Truncated { msgs } => json!({"truncated": {"msgs": hex(msgs)}}),
        Expect::Boundary { msgs } => json!({"boundary": {"msgs": hex(msgs)}}),
        Expect::MustErr => json!("must_err"),
        Expect::Observe => json!("observe"),
        Expect::ObserveAny => json!("observe_any"),
    }
}
fn expect_from_json(v: &Value) -> Expect {
    if let Some(x) = v.get("valid") {
        Expect::Valid { msgs: unhex(x["msgs"].as_str().unwrap()), trailers: pairs_from_json(&x["trailers"]) }
    } else if let Some(x) = v.get("truncated") {
        Expect::Truncated { msgs: unhex(x["msgs"].as_str().unwrap()) }
    } else if let Some(x) = v.get("boundary") {
        Expect::Boundary { msgs: unhex(x["msgs"].as_str().unwrap()) }
    } else if v == "must_err" {
        Expect::MustErr
    } else if v == "observe_any" {
        Expect::ObserveAny
    } else {
        Expect::Observe
    }
}

fn values_of(t: &[(String, Vec<u8>)], k: &str) -> Vec<Vec<u8>> {
    t.iter().filter(|(n, _)| n == k).map(|(_, v)| v.clone()).collect()
}

fn oracle(o: &Observed, e: &Expect) -> Option<String> {
    if o.items.contains(&Item::Busy) || o.extra.contains(&Item::Busy) {
        return Some("hang / busy loop: no result within the poll cap".into());
    }
    if !matches!(e, Expect::ObserveAny) && o.items.contains(&Item::Panic) {
        return Some("panic inside poll_frame".into());
    }
    if o.ends > 2 {
        return Some(format!("inner body polled {} times after its end", o.ends - 1));
    }
    let data: Vec<u8> = o
        .items
        .iter()
        .filter_map(|i| if let Item::Data(d) = i { Some(d.clone()) } else { None })
        .flatten()
        .collect();
    let n = o.items.len();
    let last = o.items.last();
    match e {
        Expect::Valid { msgs, trailers } => {
            if &data != msgs {
                return Some(format!("message bytes differ: got {} bytes, encoded {}", data.len(), msgs.len()));
            }
            if last != Some(&Item::None) {
                return Some(format!("body did not end cleanly: last item {:?}", last));
            }
            let tr: Vec<&HeaderMap> =
                o.items.iter().filter_map(|i| if let Item::Trailers(t) = i { Some(t) } else { None }).collect();
            if tr.len() != 1 {
                return Some(format!("{} trailers items instead of exactly one", tr.len()));
            }
            if !matches!(o.items.get(n.wrapping_sub(2)), Some(Item::Trailers(_))) {
                return Some("trailers are not the last item before the end".into());
            }
            let got: Vec<(String, Vec<u8>)> =
                tr[0].iter().map(|(k, v)| (k.as_str().to_string(), v.as_bytes().to_vec())).collect();
            let mut names: Vec<String> = trailers.iter().map(|x| x.0.clone()).collect();
            names.extend(got.iter().map(|x| x.0.clone()));
            names.sort();
            names.dedup();
            for k in names {
                let a = values_of(trailers, &k);
                let b = values_of(&got, &k);
                if a != b {
                    return Some(format!(
                        "trailer {}: encoded {:?}, client yielded {:?}",
                        k,
                        a.iter().map(|x| String::from_utf8_lossy(x).to_string()).collect::<Vec<_>>(),
                        b.iter().map(|x| String::from_utf8_lossy(x).to_string()).collect::<Vec<_>>()
                    ));
                }
            }
            if o.extra != vec![Item::None, Item::None] {
                return Some(format!("polls after the end gave {:?}", o.extra));
            }
            None
        }
        Expect::Truncated { msgs } => {
            if !last.map(|i| i.is_err()).unwrap_or(false) {
                return Some(format!("truncated body did not produce an error: last item {:?}", last));
            }
            if o.items.iter().any(|i| matches!(i, Item::Trailers(_))) {
                return Some("trailers yielded from a truncated body".into());
            }
            if !msgs.starts_with(&data) {
                return Some("data yielded is not a prefix of the encoded messages".into());
            }
            if o.extra != vec![Item::None, Item::None] {
                return Some(format!("polls after the error gave {:?}", o.extra));
            }
            None
        }
        Expect::Boundary { msgs } => {
            // not "inside a frame": the property demands no error; what the code does (and
            // c17_webc_no_trailers_frame proves) is: every frame, no trailers, a clean end
            if o.items.iter().any(|i| matches!(i, Item::Trailers(_))) {
                return Some("trailers yielded although no trailers frame was sent".into());
            }
            if &data != msgs {
                return Some("message bytes differ".into());
            }
            if last != Some(&Item::None) {
                return Some(format!("a body cut between two frames did not end cleanly: {:?}", last));
            }
            None
        }
        Expect::MustErr => {
            if !last.map(|i| i.is_err()).unwrap_or(false) {
                return Some(format!("malformed body did not produce an error: last item {:?}", last));
            }
            if o.extra != vec![Item::None, Item::None] {
                return Some(format!("polls after the error gave {:?}", o.extra));
            }
            None
        }
        Expect::Observe | Expect::ObserveAny => None,
    }
}

fn bucket(n: usize) -> &'static str {
    match n {
        0 => "0",
        1..=4 => "1-4",
        5..=12 => "5-12",
        13..=40 => "13-40",
        41..=100 => "41-100",
        _ => ">100",
    }
}

fn case_client(out: &mut OutB, kind: &str, evs: &[E], expect: &Expect) {
    let o = run_client(evs);
    let body_len: usize = evs.iter().map(|e| match e { E::D(d) => d.len(), E::Fr(_, n, _) => n + 5, _ => 0 }).sum();
    let chunks = evs.iter().filter(|e| matches!(e, E::D(_) | E::Fr(..))).count();
    out.hist("client.body_len", bucket(body_len));
    out.hist("client.chunks", bucket(chunks));
    out.hist("client.pending_events", bucket(evs.iter().filter(|e| matches!(e, E::P)).count()));
    out.hist(
        "client.expect",
        match expect {
            Expect::Valid { .. } => "valid",
            Expect::Truncated { .. } => "truncated-inside-frame",
            Expect::Boundary { .. } => "cut-between-frames",
            Expect::MustErr => "malformed",
            _ => "observe",
        },
    );
    if let Expect::Valid { trailers, .. } = expect {
        out.hist("client.trailer_entries", bucket(trailers.len()));
    }
    out.hist(
        "client.outcome",
        match o.items.last() {
            Some(Item::None) => "end",
            Some(Item::Err(c, _)) => match c {
                1 => "err:data-after-trailers",
                2 => "err:flag",
                3 => "err:eof",
                4 => "err:inner",
                5 | 6 | 7 => "err:trailer-line",
                _ => "err:other",
            },
            Some(Item::Busy) => "hang",
            Some(Item::Panic) => "panic",
            _ => "?",
        },
    );
    out.push(Case {
        kind: kind.to_string(),
        input: json!({"evs": evs.iter().map(ev_json).collect::<Vec<_>>(), "expect": expect_json(expect)}),
        model: format!("obs_client {}", evs_coq(evs)),
        impl_obs: o.tr(),
        oracle: oracle(&o, expect),
        nontrivial: body_len > 0,
    });
}

// ------------------------------------------------------------------ request direction (light)
fn case_client_request(out: &mut OutB, kind: &str, evs: &[E], version: Version) {
    let seen: Seen = Arc::new(Mutex::new(None));
    let (dummy, _) = ScriptBody::new(vec![]);
    let body = CountBody { inner: dummy, polls: Default::default(), ends: Default::default(), eos_mode: 0 };
    let mut svc = GrpcWebClientService::new(Inner { resp: Some(Response::new(body)), seen: seen.clone() });
    let (req_body, _) = ScriptBody::<InnerErr>::new(evs.iter().map(to_ev).collect());
    let req = Request::builder()
        .version(version)
        .uri("http://example.test/pkg.Svc/Method")
        .header("content-type", "application/grpc")
        .body(req_body)
        .unwrap();
    let _ = spin(svc.call(req), 100);
    let (v, h, items) = seen.lock().unwrap().take().expect("inner service called");
    let ct = h.get("content-type").map(|x| x.as_bytes().to_vec()).unwrap_or_default();
    let mut oracle = None;
    if ct != b"application/grpc-web" {
        oracle = Some("request content-type is not application/grpc-web".to_string());
    }
    let sent: Vec<u8> = evs.iter().filter_map(|e| if let E::D(d) = e { Some(d.clone()) } else { None }).flatten().collect();
    let got: Vec<u8> = items.iter().filter_map(|e| if let Item::Data(d) = e { Some(d.clone()) } else { None }).flatten().collect();
    if !evs.iter().any(|e| matches!(e, E::T(_) | E::X)) && sent != got {
        oracle = Some("request bytes changed".to_string());
    }
    let items_tr: Vec<Tr> = items
        .iter()
        .map(|i| match i {
            Item::Err(c, _) => Tr::L(vec![Tr::n(3u8), Tr::n(*c)]),
            other => other.tr(),
        })
        .collect();
    out.push(Case {
        kind: kind.to_string(),
        input: json!({"req_evs": evs.iter().map(ev_json).collect::<Vec<_>>(), "version": version_num(version)}),
        model: format!("obs_client_request {} {}", version_num(version), evs_coq(evs)),
        impl_obs: Tr::L(vec![Tr::n(version_num(v)), Tr::B(ct), Tr::L(items_tr)]),
        oracle,
        nontrivial: !sent.is_empty(),
    });
}

// ------------------------------------------------------------------ encoding (independent of tonic)
fn frame(flag: u8, payload: &[u8]) -> Vec<u8> {
    let mut v = vec![flag];
    v.extend_from_slice(&(payload.len() as u32).to_be_bytes());
    v.extend_from_slice(payload);
    v
}
fn block(tl: &[(String, Vec<u8>)], space: bool) -> Vec<u8> {
    let mut v = vec![];
    for (k, val) in tl {
        v.extend_from_slice(k.as_bytes());
        v.push(b':');
        if space {
            v.push(b' ');
        }
        v.extend_from_slice(val);
        v.extend_from_slice(b"\r\n");
    }
    v
}
fn tframe(tl: &[(String, Vec<u8>)]) -> Vec<u8> {
    frame(0x80, &block(tl, false))
}
fn s(x: &str) -> String {
    x.to_string()
}

#[derive(Clone)]
struct Body {
    msgs: Vec<(u8, Vec<u8>)>,
    trailers: Vec<(String, Vec<u8>)>,
}
impl Body {
    fn msg_bytes(&self) -> Vec<u8> {
        self.msgs.iter().flat_map(|(f, p)| frame(*f, p)).collect()
    }
    fn bytes(&self) -> Vec<u8> {
        let mut v = self.msg_bytes();
        v.extend(tframe(&self.trailers));
        v
    }
    /// offsets at which a cut falls between two frames
    fn boundaries(&self) -> Vec<usize> {
        let mut b = vec![0];
        let mut at = 0;
        for (_, p) in &self.msgs {
            at += 5 + p.len();
            b.push(at);
        }
        b
    }
    fn valid(&self) -> Expect {
        Expect::Valid { msgs: self.msg_bytes(), trailers: self.trailers.clone() }
    }
}

fn gen_payload(r: &mut Rng) -> Vec<u8> {
    let n = match r.below(20) {
        0..=3 => 0,
        4..=14 => r.range(1, 12),
        15..=18 => r.range(13, 40),
        _ => r.range(64, 200),
    } as usize;
    if n >= 64 {
        return vec![r.next() as u8; n];
    }
    // payloads that look like frame headers make a wrong resynchronisation visible
    (0..n)
        .map(|_| match r.below(6) {
            0 => 0x80,
            1 => 0,
            2 => 1,
            3 => b'\r',
            _ => r.next() as u8,
        })
        .collect()
}
fn gen_value(r: &mut Rng) -> Vec<u8> {
    let pieces: &[&[u8]] = &[
        b"a", b":", b" ", b"b c", b"%20", b"x:y:z", b"\xc3\xa9", b"\t", b"::", b"0", b"=", b"/+", b"not found", b"a: b",
    ];
    let n = r.below(5);
    let mut v: Vec<u8> = (0..n).flat_map(|_| r.pick(pieces).to_vec()).collect();
    while v.first() == Some(&b' ') {
        v.remove(0);
    }
    v
}
fn gen_trailers(r: &mut Rng) -> Vec<(String, Vec<u8>)> {
    let mut t = vec![];
    if r.chance(1, 10) {
        return t;
    }
    t.push((s("grpc-status"), r.below(17).to_string().into_bytes()));
    if r.chance(2, 3) {
        t.push((s("grpc-message"), gen_value(r)));
    }
    for _ in 0..r.below(4) {
        t.push((s("x-k"), gen_value(r)));
    }
    if r.chance(1, 3) {
        let pool: &[&[u8]] = &[b"", b"QQ==", b"AAEC", b"/+8=", b"Zm9vYmFy", b"QUJD"];
        t.push((s("x-bin-bin"), r.pick(pool).to_vec()));
    }
    if r.chance(1, 4) {
        t.push((s("grpc-status-details-bin"), b"CAUSA25m".to_vec()));
    }
    // shuffle a little so that repeated names are not adjacent
    if t.len() > 2 && r.chance(1, 2) {
        let i = r.below(t.len() as u64) as usize;
        let j = r.below(t.len() as u64) as usize;
        t.swap(i, j);
    }
    t
}
fn gen_body(r: &mut Rng) -> Body {
    let n = r.below(5);
    Body { msgs: (0..n).map(|_| (r.below(2) as u8, gen_payload(r))).collect(), trailers: gen_trailers(r) }
}

/// split `b` at the (sorted, distinct, interior) cut positions
fn chunks_at(b: &[u8], cuts: &[usize]) -> Vec<E> {
    let mut v = vec![];
    let mut prev = 0;
    for &c in cuts {
        v.push(E::D(b[prev..c].to_vec()));
        prev = c;
    }
    v.push(E::D(b[prev..].to_vec()));
    v
}
fn random_cuts(r: &mut Rng, len: usize) -> Vec<usize> {
    if len < 2 {
        return vec![];
    }
    let k = match r.below(6) {
        0 => 0,
        1 | 2 => 1,
        3 => 2,
        4 => r.range(3, 6),
        _ => r.range(1, len as u64 - 1),
    } as usize;
    let mut c: Vec<usize> = (0..k).map(|_| r.range(1, len as u64 - 1) as usize).collect();
    c.sort();
    c.dedup();
    c
}
/// Pending anywhere, now and then an empty chunk
fn sprinkle(r: &mut Rng, evs: Vec<E>) -> Vec<E> {
    let mode = r.below(4);
    let mut v = vec![];
    for e in evs {
        match mode {
            0 => {}
            1 => {
                if r.chance(1, 3) {
                    v.push(E::P)
                }
            }
            2 => {
                v.push(E::P);
            }
            _ => {
                for _ in 0..r.below(3) {
                    v.push(E::P)
                }
                if r.chance(1, 6) {
                    v.push(E::D(vec![]))
                }
            }
        }
        v.push(e);
    }
    if mode >= 1 && r.chance(1, 2) {
        v.push(E::P);
    }
    v
}

fn all_cut_sets(out: &mut OutB, kind: &str, b: &Body) {
    let bytes = b.bytes();
    let n = bytes.len();
    assert!(n <= 15);
    for mask in 0u32..(1u32 << (n - 1)) {
        let cuts: Vec<usize> = (1..n).filter(|i| mask >> (i - 1) & 1 == 1).collect();
        case_client(out, kind, &chunks_at(&bytes, &cuts), &b.valid());
    }
}
fn single_cuts(out: &mut OutB, kind: &str, b: &Body, r: &mut Rng, pending: bool) {
    let bytes = b.bytes();
    for c in 1..bytes.len() {
        let mut evs = chunks_at(&bytes, &[c]);
        if pending && r.chance(1, 2) {
            evs.insert(1, E::P);
        }
        case_client(out, kind, &evs, &b.valid());
    }
}
fn double_cuts(out: &mut OutB, kind: &str, b: &Body, r: &mut Rng, budget: usize) {
    let bytes = b.bytes();
    let n = bytes.len();
    if n < 3 {
        return;
    }
    let total = (n - 1) * (n - 2) / 2;
    if total <= budget {
        for c1 in 1..n {
            for c2 in c1 + 1..n {
                case_client(out, kind, &chunks_at(&bytes, &[c1, c2]), &b.valid());
            }
        }
    } else {
        for _ in 0..budget {
            let c1 = r.range(1, n as u64 - 2) as usize;
            let c2 = r.range(c1 as u64 + 1, n as u64 - 1) as usize;
            case_client(out, kind, &chunks_at(&bytes, &[c1, c2]), &b.valid());
        }
    }
}
fn truncations(out: &mut OutB, b: &Body, r: &mut Rng) {
    let bytes = b.bytes();
    let bounds = b.boundaries();
    for cut in 0..bytes.len() {
        let p = &bytes[..cut];
        let cuts = if r.chance(1, 2) { vec![] } else { random_cuts(r, p.len()) };
        let mut evs = if p.is_empty() && r.chance(1, 2) { vec![] } else { chunks_at(p, &cuts) };
        if r.chance(1, 3) {
            evs = sprinkle(r, evs);
        }
        if bounds.contains(&cut) {
            case_client(out, "truncate.between_frames", &evs, &Expect::Boundary { msgs: p.to_vec() });
        } else {
            case_client(out, "truncate.inside_frame", &evs, &Expect::Truncated { msgs: b.msg_bytes() });
        }
    }
}

fn malformed(out: &mut OutB, r: &mut Rng) {
    let b = gen_body(r);
    let bytes = b.bytes();
    let mb = b.msg_bytes();
    let which = r.below(13);
    let (kind, body, expect): (&str, Vec<u8>, Expect) = match which {
        0 => {
            // a flag that is neither 0, 1 nor 0x80 where a frame starts
            let flag = *r.pick(&[2u8, 3, 0x7f, 0x81, 0xff, 0x40, 0xc0, 0x82]);
            let mut v = mb.clone();
            v.extend(frame(flag, &gen_payload(r)));
            v.extend(tframe(&b.trailers));
            ("malformed.flag", v, Expect::MustErr)
        }
        1 => {
            let mut v = bytes.clone();
            let n = r.range(1, 6) as usize;
            v.extend(r.bytes(n));
            ("malformed.stray_after_trailers", v, Expect::MustErr)
        }
        2 => {
            let mut v = bytes.clone();
            v.extend(frame(0, &gen_payload(r)));
            ("malformed.data_after_trailers", v, Expect::MustErr)
        }
        3 => {
            let mut v = bytes.clone();
            v.extend(tframe(&gen_trailers(r)));
            ("malformed.second_trailers_frame", v, Expect::MustErr)
        }
        4 => {
            let mut v = mb.clone();
            v.extend(frame(0x80, b"grpc-status:0\r\nno-colon-here\r\n"));
            ("malformed.line_without_colon", v, Expect::MustErr)
        }
        5 => {
            let name: &[u8] = *r.pick(&[&b"a b"[..], b"", b"x\"y", b"k(", b"\xc3\xa9", b"a\tb", b"x@y"]);
            let mut blk = b"grpc-status:0\r\n".to_vec();
            blk.extend_from_slice(name);
            blk.extend_from_slice(b":v\r\n");
            let mut v = mb.clone();
            v.extend(frame(0x80, &blk));
            ("malformed.header_name", v, Expect::MustErr)
        }
        6 => {
            let val: &[u8] = *r.pick(&[&b"a\x01b"[..], b"\x7f", b"\x00", b"a\nb", b"x\ry", b"\x1f"]);
            let mut blk = b"grpc-status:0\r\nk:".to_vec();
            blk.extend_from_slice(val);
            blk.extend_from_slice(b"\r\n");
            let mut v = mb.clone();
            v.extend(frame(0x80, &blk));
            ("malformed.header_value", v, Expect::MustErr)
        }
        7 => {
            // length prefix of the trailers frame larger than what follows
            let blk = block(&b.trailers, false);
            let mut v = mb.clone();
            v.push(0x80);
            v.extend_from_slice(&((blk.len() + r.range(1, 9) as usize) as u32).to_be_bytes());
            v.extend(blk);
            ("malformed.trailers_length_too_big", v, Expect::MustErr)
        }
        8 => {
            // length prefix of the trailers frame smaller than the block: the rest is stray data
            let blk = block(&[(s("grpc-status"), b"0".to_vec()), (s("x-k"), b"v".to_vec())], false);
            let mut v = mb.clone();
            v.push(0x80);
            v.extend_from_slice(&((blk.len() - r.range(1, 5) as usize) as u32).to_be_bytes());
            v.extend(blk);
            ("malformed.trailers_length_too_small", v, Expect::MustErr)
        }
        9 => {
            // a message frame that announces more than the body holds
            let p = gen_payload(r);
            let mut v = mb.clone();
            v.push(0);
            v.extend_from_slice(&((p.len() + r.range(1, 300) as usize) as u32).to_be_bytes());
            v.extend(p);
            ("malformed.message_length_too_big", v, Expect::MustErr)
        }
        10 => {
            // other servers write "name: value"; one space after the colon is not part of the value
            let mut v = mb.clone();
            v.extend(frame(0x80, &block(&b.trailers, true)));
            ("variant.space_after_colon", v, b.valid())
        }
        11 => {
            // the last trailer line without its CRLF (F-C17h)
            let mut blk = block(&b.trailers, false);
            if blk.len() >= 2 {
                blk.truncate(blk.len() - 2);
            }
            let mut v = mb.clone();
            v.extend(frame(0x80, &blk));
            ("variant.unterminated_last_line", v, b.valid())
        }
        _ => {
            // upper-case names are normalised by http::HeaderName
            let t = vec![(s("Grpc-Status"), b"7".to_vec()), (s("X-UP"), b"V".to_vec())];
            let want = vec![(s("grpc-status"), b"7".to_vec()), (s("x-up"), b"V".to_vec())];
            let mut v = mb.clone();
            v.extend(tframe(&t));
            ("variant.uppercase_names", v, Expect::Valid { msgs: mb.clone(), trailers: want })
        }
    };
    let cuts = random_cuts(r, body.len());
    let mut evs = chunks_at(&body, &cuts);
    if r.chance(1, 2) {
        evs = sprinkle(r, evs);
    }
    case_client(out, kind, &evs, &expect);
}

fn inner_events(out: &mut OutB, r: &mut Rng) {
    let b = gen_body(r);
    let bytes = b.bytes();
    match r.below(4) {
        0 => {
            // the wrapped body fails somewhere
            let cuts = random_cuts(r, bytes.len());
            let mut evs = chunks_at(&bytes, &cuts);
            let at = r.below(evs.len() as u64 + 1) as usize;
            evs.insert(at, E::X);
            let evs = sprinkle(r, evs);
            case_client(out, "inner.error", &evs, &Expect::MustErr);
        }
        1 => {
            // HTTP trailers of the wrapped body, no trailers frame in the body
            let mb = b.msg_bytes();
            let mut evs = chunks_at(&mb, &random_cuts(r, mb.len()));
            let t = gen_trailers(r);
            evs.push(E::T(t.clone()));
            // the trailers as the HeaderMap iterates them (values of a name are adjacent)
            let m = pairs_to_map(&t);
            let want: Vec<(String, Vec<u8>)> =
                m.iter().map(|(k, v)| (k.as_str().to_string(), v.as_bytes().to_vec())).collect();
            case_client(out, "inner.http_trailers", &evs, &Expect::Valid { msgs: mb, trailers: want });
        }
        2 => {
            // HTTP trailers in addition to a trailers frame
            let mut evs = chunks_at(&bytes, &random_cuts(r, bytes.len()));
            evs.push(E::T(vec![(s("x-http"), b"1".to_vec()), (s("x-k"), b"http".to_vec())]));
            case_client(out, "inner.http_trailers_and_frame", &evs, &Expect::Observe);
        }
        _ => {
            // HTTP trailers arriving before the body is complete
            let cuts = random_cuts(r, bytes.len());
            let mut evs = chunks_at(&bytes, &cuts);
            let at = r.below(evs.len() as u64) as usize;
            evs.insert(at, E::T(vec![(s("x-early"), b"1".to_vec())]));
            case_client(out, "inner.http_trailers_early", &evs, &Expect::Observe);
        }
    }
}

// ------------------------------------------------------------------ size-boundary mining
/// Every integer constant >= 64 of the non-test part of tonic-web/src/{call,service}.rs: literals
/// (decimal, hex, binary, `_` separators, type suffixes) and products / shifts of literals such as
/// `8 * 1024` or `1 << 13`.  Thresholds that appear in the code later are picked up by themselves.
fn mine_constants() -> Vec<usize> {
    let repo = std::env::var("VERIF_REPO").unwrap_or_else(|_| "/repo".to_string());
    let mut ks = std::collections::BTreeSet::new();
    for f in ["tonic-web/src/call.rs", "tonic-web/src/service.rs", "tonic-web/src/client.rs"] {
        let Ok(src) = std::fs::read_to_string(format!("{}/{}", repo, f)) else { continue };
        let src = src.split("#[cfg(test)]").next().unwrap_or("").to_string();
        // drop comments and string literals
        let mut clean = String::new();
        for line in src.lines() {
            let line = line.split("//").next().unwrap_or("");
            let mut in_str = false;
            for c in line.chars() {
                if c == '"' {
                    in_str = !in_str;
                    clean.push(' ');
                } else if !in_str {
                    clean.push(c);
                } else {
                    clean.push(' ');
                }
            }
            clean.push('\n');
        }
        // tokens: numbers and operators
        let b: Vec<char> = clean.chars().collect();
        let mut toks: Vec<Result<u64, char>> = vec![];
        let mut i = 0;
        while i < b.len() {
            let c = b[i];
            if c.is_ascii_digit() && (i == 0 || !(b[i - 1].is_alphanumeric() || b[i - 1] == '_')) {
                let mut j = i;
                while j < b.len() && (b[j].is_alphanumeric() || b[j] == '_') {
                    j += 1;
                }
                let t: String = b[i..j].iter().filter(|c| **c != '_').collect();
                let t = t.trim_end_matches("usize").trim_end_matches("u64").trim_end_matches("u32").trim_end_matches("u16").trim_end_matches("u8").trim_end_matches("i32").to_string();
                let v = if let Some(h) = t.strip_prefix("0x") {
                    u64::from_str_radix(h, 16).ok()
                } else if let Some(h) = t.strip_prefix("0b") {
                    u64::from_str_radix(h, 2).ok()
                } else {
                    t.parse::<u64>().ok()
                };
                if let Some(v) = v {
                    toks.push(Ok(v));
                }
                i = j;
            } else if c == '*' {
                toks.push(Err('*'));
                i += 1;
            } else if c == '<' && i + 1 < b.len() && b[i + 1] == '<' {
                toks.push(Err('<'));
                i += 2;
            } else if c.is_whitespace() {
                i += 1;
            } else {
                toks.push(Err('.'));
                i += 1;
            }
        }
        let mut k = 0;
        while k < toks.len() {
            if let Ok(mut v) = toks[k] {
                ks.insert(v);
                while k + 2 < toks.len() {
                    match (toks[k + 1], toks[k + 2]) {
                        (Err('*'), Ok(w)) => {
                            ks.insert(w);
                            v = v.saturating_mul(w);
                        }
                        (Err('<'), Ok(w)) if w < 40 => v <<= w,
                        _ => break,
                    }
                    k += 2;
                }
                ks.insert(v);
            }
            k += 1;
        }
    }
    let mut v: Vec<usize> = ks.into_iter().filter(|k| *k >= 64 && *k <= (1 << 20)).map(|k| k as usize).collect();
    v.sort();
    // the largest thresholds matter most; bound the work
    if v.len() > 6 {
        v = v[v.len() - 6..].to_vec();
    }
    v
}
/// the sizes worth trying around a threshold K
fn sizes_around(k: usize, dense: bool) -> Vec<usize> {
    let mut v: Vec<usize> = vec![];
    let lo = k.saturating_sub(70);
    v.extend(lo..=k + 10);
    let w = if dense { 12 } else { 6 };
    for c in [k * 3 / 4, k * 4 / 3, k / 2, k * 2] {
        v.extend(c.saturating_sub(w)..=c + w);
    }
    v.sort();
    v.dedup();
    v
}
/// trailers whose frame is 43 bytes, about 300 bytes, and longer than `k`
fn sized_trailers(which: usize, k: usize) -> Vec<(String, Vec<u8>)> {
    match which {
        0 => vec![(s("grpc-status"), b"0".to_vec()), (s("grpc-message"), b"12345678".to_vec())],
        1 => vec![(s("grpc-status"), b"13".to_vec()), (s("grpc-message"), vec![b'm'; 262])],
        _ => vec![(s("grpc-status"), b"2".to_vec()), (s("x-pad"), vec![b'p'; k + 50])],
    }
}
/// response bodies whose message / chunk sizes sit around every numeric threshold of the source,
/// read by the plain consumer and by the hyper-like one
fn mined_sizes(out: &mut OutB, r: &mut Rng, thorough: bool) -> Vec<usize> {
    let ks = mine_constants();
    let fill = 0x61u8;
    let one = |out: &mut OutB, k: usize, n: usize, layout: usize, tw: usize, hyper: bool| {
        let tl = sized_trailers(tw, k);
        let tf = tframe(&tl);
        let msgs = frame(1, &vec![fill; n]);
        let kk = k.min(n);
        let mut evs = match layout {
            0 => vec![E::Fr(1, n, fill)],
            1 => vec![E::D(msgs[..5].to_vec()), E::D(vec![fill; n])],
            _ => vec![E::D(msgs[..5].to_vec()), E::D(vec![fill; kk]), E::P, E::D(vec![fill; n - kk])],
        };
        if n <= 300 && layout == 0 {
            // small enough to spell out: message and trailers in ONE chunk
            evs = vec![E::D([msgs.clone(), tf.clone()].concat())];
        } else {
            evs.push(E::D(tf));
        }
        if hyper {
            case_client_hyper(out, "eos.client_sized", &evs, 1, true);
        } else {
            case_client(out, "chunking.sized", &evs, &Expect::Valid { msgs, trailers: tl });
        }
    };
    for &k in &ks {
        out.hist("sized.mined_constant", k);
        for (idx, n) in sizes_around(k, thorough).into_iter().enumerate() {
            let near = n + 80 >= k && n <= k + 10;
            if !(thorough || near || idx % 3 == 0) {
                continue;
            }
            let tw = if idx % 11 == 0 { 2 } else { idx % 2 };
            one(out, k, n, idx % 3, tw, false);
            one(out, k, n, (idx + 1) % 3, tw, true);
            if thorough {
                one(out, k, n, (idx + 2) % 3, (tw + 1) % 2, true);
            }
        }
    }
    let maxk = ks.iter().copied().max().unwrap_or(8192);
    for i in 0..(if thorough { 250 } else { 60 }) {
        let n = r.below(3 * maxk as u64 + 1) as usize;
        one(out, *r.pick(&ks), n, r.below(3) as usize, (i % 7 == 0) as usize * 2 + (i % 2) * ((i % 7 != 0) as usize), i % 2 == 0);
    }
    ks
}

fn corpus(out: &mut OutB) {
    let hi = frame(0, b"hi");
    let t5 = vec![(s("grpc-status"), b"5".to_vec()), (s("grpc-message"), b"nf".to_vec())];
    // F-C17a: message and trailers in one chunk
    let mut one = hi.clone();
    one.extend(tframe(&t5));
    case_client(out, "corpus.F-C17a", &[E::D(one.clone())], &Expect::Valid { msgs: hi.clone(), trailers: t5.clone() });
    // F-C17b: value with colons and a space
    let tb = vec![(s("grpc-status"), b"5".to_vec()), (s("grpc-message"), b"a:b c".to_vec())];
    let mut b = hi.clone();
    b.extend(tframe(&tb));
    case_client(out, "corpus.F-C17b", &[E::D(hi.clone()), E::D(tframe(&tb))], &Expect::Valid { msgs: hi.clone(), trailers: tb.clone() });
    case_client(out, "corpus.F-C17b", &[E::D(b)], &Expect::Valid { msgs: hi.clone(), trailers: tb });
    // F-C17c: repeated names
    let tc = vec![(s("x-k"), b"1".to_vec()), (s("grpc-status"), b"0".to_vec()), (s("x-k"), b"2".to_vec())];
    case_client(out, "corpus.F-C17c", &[E::D(hi.clone()), E::D(tframe(&tc))], &Expect::Valid { msgs: hi.clone(), trailers: tc });
    // F-C17d: trailers frame split after 9 of its bytes
    let tf = tframe(&t5);
    for cut in [9usize, 1, 4, 5, 6, tf.len() - 1] {
        case_client(
            out,
            "corpus.F-C17d",
            &[E::D(hi.clone()), E::D(tf[..cut].to_vec()), E::P, E::D(tf[cut..].to_vec())],
            &Expect::Valid { msgs: hi.clone(), trailers: t5.clone() },
        );
    }
    // F-C17e: stray bytes at EOF
    case_client(out, "corpus.F-C17e", &[E::D(hi.clone()), E::D(vec![0, 0, 0])], &Expect::Truncated { msgs: hi.clone() });
    let mut st = hi.clone();
    st.extend([0, 0, 0]);
    case_client(out, "corpus.F-C17e", &[E::D(st)], &Expect::Truncated { msgs: hi.clone() });
    // F-C17f: truncated payload at EOF
    case_client(out, "corpus.F-C17f", &[E::D(vec![0, 0, 0, 0, 5, 1, 2])], &Expect::Truncated { msgs: frame(0, &[1, 2, 3, 4, 5]) });
    case_client(out, "corpus.F-C17f", &[E::D(vec![0, 0, 0, 0, 5]), E::P, E::D(vec![1, 2])], &Expect::Truncated { msgs: frame(0, &[1, 2, 3, 4, 5]) });
    // F-C17g: first chunk shorter than a frame header
    for n in 1..5usize {
        case_client(
            out,
            "corpus.F-C17g",
            &[E::D(one[..n].to_vec()), E::D(one[n..].to_vec())],
            &Expect::Valid { msgs: hi.clone(), trailers: t5.clone() },
        );
    }
    // edges
    case_client(out, "corpus.empty_body", &[], &Expect::Boundary { msgs: vec![] });
    case_client(out, "corpus.empty_body", &[E::P, E::D(vec![]), E::P], &Expect::Boundary { msgs: vec![] });
    case_client(out, "corpus.trailers_only", &[E::D(tframe(&t5))], &Expect::Valid { msgs: vec![], trailers: t5.clone() });
    case_client(out, "corpus.empty_trailers_frame", &[E::D(hi.clone()), E::D(tframe(&[]))], &Expect::Valid { msgs: hi.clone(), trailers: vec![] });
    case_client(out, "corpus.no_trailers_frame", &[E::D(hi.clone())], &Expect::Boundary { msgs: hi.clone() });
    // a complete frame is held back while the next one is incomplete, then everything arrives
    let two: Vec<u8> = [hi.clone(), frame(1, b"world")].concat();
    case_client(
        out,
        "corpus.second_frame_incomplete",
        &[E::D(two[..14].to_vec()), E::P, E::D(two[14..].to_vec()), E::D(tframe(&t5))],
        &Expect::Valid { msgs: two.clone(), trailers: t5.clone() },
    );
    case_client(out, "corpus.second_frame_incomplete", &[E::D(two[..14].to_vec())], &Expect::Truncated { msgs: two.clone() });
    // payload bytes that look like a trailers frame
    let tricky = frame(0, &tframe(&t5));
    let mut tb2 = tricky.clone();
    tb2.extend(tframe(&t5));
    for cut in 1..tb2.len() {
        case_client(
            out,
            "corpus.payload_looks_like_trailers",
            &[E::D(tb2[..cut].to_vec()), E::D(tb2[cut..].to_vec())],
            &Expect::Valid { msgs: tricky.clone(), trailers: t5.clone() },
        );
    }
    // big payloads
    let big = frame(0, &vec![7u8; 9_000]);
    let mut bb = big.clone();
    bb.extend(tframe(&t5));
    case_client(out, "corpus.big_payload", &[E::D(bb[..5].to_vec()), E::D(bb[5..9_005].to_vec()), E::D(bb[9_005..].to_vec())], &Expect::Valid { msgs: big, trailers: t5.clone() });

    // frame lengths >= 65536 (length prefix 00 01 00 00) and inner chunks above 8 KiB (BUFFER_SIZE)
    for (n, fill) in [(65_536usize, 0x80u8), (70_000, 0), (65_535, 1)] {
        let msgs = frame(1, &vec![fill; n]);
        let mut evs = vec![E::D(msgs[..5].to_vec())];
        let mut at = 0usize;
        for c in [9_000usize, 20_000, 8_193, usize::MAX] {
            let take = c.min(n - at);
            evs.push(E::D(vec![fill; take]));
            at += take;
            if at == n {
                break;
            }
            evs.push(E::P);
        }
        let tail: Vec<u8> = [frame(0, b"after"), tframe(&t5)].concat();
        evs.push(E::D(tail));
        let all: Vec<u8> = [msgs.clone(), frame(0, b"after")].concat();
        case_client(out, "corpus.big_frame", &evs, &Expect::Valid { msgs: all.clone(), trailers: t5.clone() });
        // the same, cut off inside the big payload
        case_client(out, "corpus.big_frame", &evs[..3], &Expect::Truncated { msgs: all });
    }

    // ---- behaviour the property text does not decide (recorded, compared with the model) ----
    // a value that starts with a space loses that space (HTTP/1 optional whitespace)
    let tl = vec![(s("grpc-status"), b"0".to_vec()), (s("x-k"), b" v".to_vec())];
    case_client(out, "observe.value_with_leading_space", &[E::D(tframe(&tl))], &Expect::Observe);
    for v in [&b"  v"[..], b" ", b"   ", b"\tv", b" \tv", b" a b "] {
        let tl = vec![(s("grpc-status"), b"0".to_vec()), (s("x-k"), v.to_vec())];
        case_client(out, "observe.value_with_leading_space", &[E::D(tframe(&tl))], &Expect::Observe);
    }
    // F-C17h: the last line lacks its CRLF: it is a trailer all the same
    let t5only = vec![(s("grpc-status"), b"5".to_vec())];
    case_client(
        out,
        "corpus.F-C17h",
        &[E::D(frame(0x80, b"grpc-status:5"))],
        &Expect::Valid { msgs: vec![], trailers: t5only.clone() },
    );
    let ta = vec![(s("x-a"), b"1".to_vec()), (s("grpc-status"), b"5".to_vec())];
    let mut hb = hi.clone();
    hb.extend(frame(0x80, b"x-a:1\r\ngrpc-status:5"));
    for cut in 1..hb.len() {
        case_client(
            out,
            "corpus.F-C17h",
            &[E::D(hb[..cut].to_vec()), E::D(hb[cut..].to_vec())],
            &Expect::Valid { msgs: hi.clone(), trailers: ta.clone() },
        );
    }
    // an unterminated remainder that is not a trailer line is an error
    case_client(out, "corpus.F-C17h", &[E::D(frame(0x80, b"grpc-status:5\r\nxyz"))], &Expect::MustErr);
    case_client(out, "corpus.F-C17h", &[E::D(frame(0x80, b"grpc-status:5\r\n\r"))], &Expect::MustErr);
    case_client(out, "corpus.F-C17h", &[E::D(frame(0x80, b"grpc-status:5\r"))], &Expect::MustErr);
    // "name: va\rlue": a value with a leading space is cut at a lone CR
    case_client(out, "observe.lone_cr_after_space", &[E::D(frame(0x80, b"k: a\rb\r\n"))], &Expect::Observe);
    // empty lines
    case_client(out, "observe.empty_line", &[E::D(frame(0x80, b"\r\ngrpc-status:0\r\n"))], &Expect::Observe);
}

/// http::HeaderMap cannot hold more than 24576 distinct names: `append` panics
fn header_map_limit(out: &mut OutB) {
    for n in [24_575u32, 24_576, 24_577] {
        let mut blk = Vec::with_capacity(n as usize * 9);
        for i in 0..n {
            blk.push(b'x');
            let mut k = i;
            for _ in 0..4 {
                blk.push(b'a' + (k % 26) as u8);
                k /= 26;
            }
            blk.extend_from_slice(b":1\r\n");
        }
        let o = run_client(&[E::D(frame(0x80, &blk))]);
        let obs = match o.items.first() {
            Some(Item::Trailers(t)) => Tr::L(vec![Tr::n(1u8), Tr::n(t.len() as u64)]),
            Some(Item::Panic) => Tr::L(vec![Tr::n(99u8)]),
            other => Tr::L(vec![Tr::n(50u8), Tr::s(&format!("{:?}", other.map(|i| i.tr())))]),
        };
        out.hist("client.outcome", if o.items.first() == Some(&Item::Panic) { "panic" } else { "end" });
        out.push(Case {
            kind: "observe.header_map_capacity".into(),
            input: json!({"distinct_trailer_names": n, "body": "80 || be32(len) || (\"x\" ++ 4 base-26 letters ++ \":1\\r\\n\") * n"}),
            model: format!("obs_many_names {}", n),
            impl_obs: obs,
            oracle: None,
            nontrivial: true,
        });
    }
}

fn main() {
    let a = args();
    let mut out = OutB::new(&a.out);
    let mut r = Rng::new(a.seed);

    if let Some(f) = &a.replay {
        let v: Value = serde_json::from_str(&std::fs::read_to_string(f).unwrap()).unwrap();
        let kind = v["kind"].as_str().unwrap_or("replay").to_string();
        let inp = &v["input"];
        if let Some(evs) = inp.get("evs") {
            let evs: Vec<E> = evs.as_array().unwrap().iter().map(ev_from_json).collect();
            case_client(&mut out, &kind, &evs, &expect_from_json(&inp["expect"]));
        } else if let Some(evs) = inp.get("req_evs") {
            let evs: Vec<E> = evs.as_array().unwrap().iter().map(ev_from_json).collect();
            let ver = if inp["version"] == 3 { Version::HTTP_2 } else { Version::HTTP_11 };
            case_client_request(&mut out, &kind, &evs, ver);
        }
        out.finish(IMPORTS, "replay of one stored case", json!({}));
        return;
    }

    corpus(&mut out);
    header_map_limit(&mut out);
    let mined = mined_sizes(&mut out, &mut r, a.thorough);

    let t = a.thorough;
    // ---- every chunking of small bodies -------------------------------------------------------
    let small: Vec<Body> = vec![
        Body { msgs: vec![(0, vec![])], trailers: vec![] },                                  // 10 bytes
        Body { msgs: vec![], trailers: vec![(s("a"), b"1".to_vec())] },                      // 10 bytes
        Body { msgs: vec![(1, b"ab".to_vec())], trailers: vec![] },                          // 12 bytes
        Body { msgs: vec![], trailers: vec![(s("k"), b":".to_vec())] },                      // 10 bytes
        Body { msgs: vec![(0, vec![0x80])], trailers: vec![] },                              // 11 bytes
        Body { msgs: vec![], trailers: vec![(s("k"), b"a b".to_vec())] },                    // 12 bytes
        Body { msgs: vec![(0, b"xyz".to_vec())], trailers: vec![] },                         // 13 bytes
        Body { msgs: vec![(1, vec![])], trailers: vec![(s("a"), b"1".to_vec())] },            // 15 bytes: message + trailer
    ];
    let n_small = if t { small.len() } else { 2 };
    for b in &small[..n_small] {
        all_cut_sets(&mut out, "chunking.exhaustive", b);
    }
    // ---- all single cuts, all / many double cuts ---------------------------------------------
    let fixed = Body {
        msgs: vec![(0, b"hi".to_vec()), (1, vec![]), (0, vec![0x80, 0, 0, 0, 1, b'x'])],
        trailers: vec![
            (s("grpc-status"), b"5".to_vec()),
            (s("grpc-message"), b"a:b c: d".to_vec()),
            (s("x-k"), b"1".to_vec()),
            (s("x-k"), b"2".to_vec()),
            (s("x-bin-bin"), b"/+8=".to_vec()),
        ],
    };
    single_cuts(&mut out, "chunking.single_cut", &fixed, &mut r, false);
    double_cuts(&mut out, "chunking.double_cut", &fixed, &mut r, if t { 10_000 } else { 300 });
    truncations(&mut out, &fixed, &mut r);
    let (n_single, n_double, n_trunc, n_rand, n_mal, n_inner, n_req) =
        if t { (60, 30, 60, 6000, 3000, 1200, 300) } else { (4, 2, 4, 500, 300, 120, 40) };
    for _ in 0..n_single {
        let b = gen_body(&mut r);
        single_cuts(&mut out, "chunking.single_cut", &b, &mut r, true);
    }
    for _ in 0..n_double {
        let b = gen_body(&mut r);
        double_cuts(&mut out, "chunking.double_cut", &b, &mut r, if t { 700 } else { 150 });
    }
    for _ in 0..n_trunc {
        let b = gen_body(&mut r);
        truncations(&mut out, &b, &mut r);
    }
    // ---- random bodies, random chunkings, Pending anywhere -------------------------------------
    for _ in 0..n_rand {
        let b = gen_body(&mut r);
        let bytes = b.bytes();
        let evs = chunks_at(&bytes, &random_cuts(&mut r, bytes.len()));
        let evs = sprinkle(&mut r, evs);
        out.hist("client.frames", b.msgs.len());
        case_client(&mut out, "chunking.random", &evs, &b.valid());
    }
    // ---- malformed stream ---------------------------------------------------------------------
    for _ in 0..n_mal {
        malformed(&mut out, &mut r);
    }
    for _ in 0..n_inner {
        inner_events(&mut out, &mut r);
    }
    // ---- Body::is_end_stream as a hyper-like consumer uses it --------------------------------
    let n_eos = if t { 1500 } else { 150 };
    {
        // the witness: message and trailers frame in the last chunk of a body that (like hyper's
        // Incoming) reports is_end_stream() once that chunk has been handed over
        let hi = frame(0, b"hi");
        let t0 = vec![(s("grpc-status"), b"5".to_vec())];
        let one: Vec<u8> = [hi.clone(), tframe(&t0)].concat();
        case_client_hyper(&mut out, "corpus.F-C17i", &[E::D(one.clone())], 1, true);
        case_client_hyper(&mut out, "corpus.F-C17i", &[E::D(hi.clone()), E::D(tframe(&t0))], 1, true);
        case_client_hyper(&mut out, "corpus.F-C17i", &[E::D(one[..9].to_vec()), E::D(one[9..].to_vec())], 1, true);
        case_client_hyper(&mut out, "corpus.F-C17i", &[], 1, true);
        case_client_hyper(&mut out, "corpus.F-C17i", &[E::D(tframe(&t0))], 1, true);
        // the minimal replay of the finding: frame(1, "") and an empty trailers frame in one chunk
        case_client_hyper(&mut out, "corpus.F-C17i", &[E::D(vec![1, 0, 0, 0, 0, 0x80, 0, 0, 0, 0])], 1, true);
    }
    for _ in 0..n_eos {
        let b = gen_body(&mut r);
        let bytes = b.bytes();
        let cuts = random_cuts(&mut r, bytes.len());
        let evs = chunks_at(&bytes, &cuts);
        let evs = if r.chance(1, 2) { sprinkle(&mut r, evs) } else { evs };
        match r.below(4) {
            0 => case_client_hyper(&mut out, "eos.client_never", &evs, 0, true),
            1 => case_client_hyper(&mut out, "observe.eos_client_inner_breaks_contract", &evs, 2, false),
            _ => case_client_hyper(&mut out, "eos.client", &evs, 1, true),
        }
    }
    // ---- request direction (not part of the property text; tie only) ---------------------------
    for _ in 0..n_req {
        let b = gen_body(&mut r);
        let mb = b.msg_bytes();
        let cuts = random_cuts(&mut r, mb.len());
        let mut evs = sprinkle(&mut r, chunks_at(&mb, &cuts));
        match r.below(6) {
            0 => evs.push(E::T(vec![(s("x-t"), b"1".to_vec())])),
            1 => evs.push(E::X),
            _ => {}
        }
        let ver = if r.chance(1, 2) { Version::HTTP_2 } else { Version::HTTP_11 };
        case_client_request(&mut out, "request.passthrough", &evs, ver);
    }

    out.finish(
        IMPORTS,
        "client response bodies through the real GrpcWebClientService: corpus (witnesses F-C17a..g, edges), every chunking (all 2^(n-1) cut sets) of small bodies, every single cut and all/many double cuts of generated bodies, random bodies (0-4 message frames, flags 0/1, payloads 0..40 and some 64..200, trailers with grpc-status / grpc-message containing ':' and spaces / repeated x-k / -bin values) with random cut sets, Pending anywhere and empty chunks, truncation at every byte (inside a frame: must fail; between frames: recorded), malformed stream (bad flags, stray bytes, data or a second trailers frame after the trailers, bad trailer lines, wrong length prefixes), inner body errors and HTTP trailers. Oracle: bytes and trailers that were encoded by the harness itself. Non-trivial = non-empty body; distinct = distinct (kind, model expression).",
        json!({"mined_size_thresholds": mined}),
    );
}
