//! C16 correspondence harness: the grpc-web SERVER layer of tonic-web.
//! The real `GrpcWebLayer` wraps a recording inner tower service that drains the request body
//! it is given and answers with a scripted response (status, headers, body script).
//! Direct oracle: /verif/oracle/grpcweb.py (python base64 + struct) decodes every emitted
//! response body; request bytes, content-type and the 405 / 400 / pass-through table are checked
//! against values computed here without tonic.  The Coq model is evaluated on the same inputs.
use bytes::Bytes;
use http::{HeaderMap, HeaderName, HeaderValue, Method, Request, Response, StatusCode, Version};
use http_body::Body as HttpBody;
use serde_json::{json, Value};
use std::convert::Infallible;
use std::sync::{Arc, Mutex};
use std::task::{Context, Poll};
use tonic_web::GrpcWebLayer;
use tower_layer::Layer;
use tower_service::Service;
use vcommon::body::{spin, Ev, ScriptBody};
use vcommon::*;

const IMPORTS: &str = "From Verif Require Import Lib.Bytes Lib.Obs Lib.HeaderMap Model.Frame Model.WebServer.";

#[derive(Clone, Debug)]
struct InnerErr;
impl std::fmt::Display for InnerErr {
    fn fmt(&self, f: &mut std::fmt::Formatter<'_>) -> std::fmt::Result {
        f.write_str("inner-error")
    }
}
impl std::error::Error for InnerErr {}

#[derive(Clone, Debug)]
enum E {
    P,
    D(Vec<u8>),
    /// a data chunk that is one whole frame: flag, payload length, payload fill byte
    /// (printed compactly for Coq as `frame flag (rep n fill)`)
    Fr(u8, usize, u8),
    T(Vec<(String, Vec<u8>)>),
    X,
}
type Pairs = Vec<(String, Vec<u8>)>;
fn pairs_to_map(t: &[(String, Vec<u8>)]) -> HeaderMap {
    let mut m = HeaderMap::new();
    for (k, v) in t {
        m.append(HeaderName::from_bytes(k.as_bytes()).unwrap(), HeaderValue::from_bytes(v).unwrap());
    }
    m
}
fn to_ev(e: &E) -> Ev<InnerErr> {
    match e {
        E::P => Ev::Pending,
        E::D(d) => Ev::Data(d.clone()),
        E::Fr(f, n, b) => Ev::Data(frame(*f, &vec![*b; *n])),
        E::T(t) => Ev::Trailers(pairs_to_map(t)),
        E::X => Ev::Err(InnerErr),
    }
}
fn to_bytes(e: &E) -> Vec<u8> {
    match e {
        E::D(d) => d.clone(),
        E::Fr(f, n, b) => frame(*f, &vec![*b; *n]),
        _ => vec![],
    }
}
fn ev_coq(e: &E) -> String {
    match e {
        E::P => "EvPending".into(),
        E::D(d) => format!("(EvData {})", coq_bytes(d)),
        E::Fr(f, n, b) => format!("(EvData (frame {} (rep {} {})))", f, n, b),
        E::T(t) => format!("(EvTrailers {})", coq_hm(&pairs_to_map(t))),
        E::X => "EvErr".into(),
    }
}
fn evs_coq(evs: &[E]) -> String {
    coq_list(evs, ev_coq)
}
fn pairs_json(t: &[(String, Vec<u8>)]) -> Value {
    json!(t.iter().map(|(k, v)| json!([k, hex(v)])).collect::<Vec<_>>())
}
fn pairs_from_json(v: &Value) -> Pairs {
    v.as_array()
        .map(|a| a.iter().map(|p| (p[0].as_str().unwrap().to_string(), unhex(p[1].as_str().unwrap()))).collect())
        .unwrap_or_default()
}
fn ev_json(e: &E) -> Value {
    match e {
        E::P => json!("p"),
        E::D(d) => json!({ "d": hex(d) }),
        E::Fr(f, n, b) => json!({ "frame": [f, n, b] }),
        E::T(t) => json!({ "t": pairs_json(t) }),
        E::X => json!("x"),
    }
}
fn ev_from_json(v: &Value) -> E {
    if v == "p" {
        E::P
    } else if v == "x" {
        E::X
    } else if let Some(d) = v.get("d") {
        E::D(unhex(d.as_str().unwrap()))
    } else if let Some(f) = v.get("frame") {
        E::Fr(f[0].as_u64().unwrap() as u8, f[1].as_u64().unwrap() as usize, f[2].as_u64().unwrap() as u8)
    } else {
        E::T(pairs_from_json(&v["t"]))
    }
}
fn evs_json(evs: &[E]) -> Value {
    json!(evs.iter().map(ev_json).collect::<Vec<_>>())
}
fn evs_from_json(v: &Value) -> Vec<E> {
    v.as_array().map(|a| a.iter().map(ev_from_json).collect()).unwrap_or_default()
}

// ------------------------------------------------------------------ observed items
#[derive(Clone, Debug, PartialEq)]
enum Item {
    None,
    Data(Vec<u8>),
    Trailers(HeaderMap),
    Err(u32),
    Cap,
    /// a poll that returned Pending (recorded only by the poll-by-poll consumer)
    Pending,
}
impl Item {
    fn tr(&self) -> Tr {
        match self {
            Item::None => Tr::L(vec![Tr::n(0u8)]),
            Item::Data(d) if d.len() > 2048 => Tr::L(vec![Tr::n(5u8), Tr::n(d.len() as u64), Tr::n(digest(d))]),
            Item::Data(d) => Tr::L(vec![Tr::n(1u8), Tr::b(d)]),
            Item::Trailers(t) => Tr::L(vec![Tr::n(2u8), hm_tr(t)]),
            Item::Err(c) => Tr::L(vec![Tr::n(3u8), Tr::n(*c)]),
            Item::Cap => Tr::L(vec![Tr::n(3u8), Tr::n(98u8)]),
            Item::Pending => Tr::L(vec![Tr::n(4u8)]),
        }
    }
}
/// the digest of Model/WebServer.v
fn digest(d: &[u8]) -> u64 {
    d.iter().fold(7u64, |h, b| (h * 31 + *b as u64 + 1) % 4294967291)
}
fn classify(msg: &str) -> Item {
    if msg.contains("inner-error") {
        Item::Err(4)
    } else if msg.contains("tonic-web: malformed base64 request has unencoded trailers") {
        Item::Err(10)
    } else if msg.contains("tonic-web: malformed base64 request") {
        Item::Err(9)
    } else if msg.contains("tonic-web: Invalid") {
        Item::Err(8)
    } else {
        Item::Err(50)
    }
}
/// poll a body until it ends or fails (Pending is re-polled)
fn drain<B>(body: B, cap: usize) -> Vec<Item>
where
    B: HttpBody<Data = Bytes>,
    B::Error: std::fmt::Display,
{
    let mut body = Box::pin(body);
    let mut items = vec![];
    for _ in 0..cap {
        match spin(std::future::poll_fn(|cx| body.as_mut().poll_frame(cx)), 100_000) {
            Err(()) => {
                items.push(Item::Cap);
                return items;
            }
            Ok(None) => {
                items.push(Item::None);
                return items;
            }
            Ok(Some(Ok(f))) => {
                if f.is_data() {
                    items.push(Item::Data(f.into_data().ok().unwrap().to_vec()));
                } else {
                    items.push(Item::Trailers(f.into_trailers().ok().unwrap()));
                }
            }
            Ok(Some(Err(e))) => {
                items.push(classify(&e.to_string()));
                return items;
            }
        }
    }
    items.push(Item::Cap);
    items
}

/// poll a body exactly `n` times with a no-op waker and record EVERY result (Pending and errors
/// included); only the end of the body stops the consumer
fn polls<B>(body: B, n: usize) -> Vec<Item>
where
    B: HttpBody<Data = Bytes>,
    B::Error: std::fmt::Display,
{
    let w = vcommon::body::noop_waker();
    let mut cx = Context::from_waker(&w);
    let mut body = Box::pin(body);
    let mut items = vec![];
    for _ in 0..n {
        match body.as_mut().poll_frame(&mut cx) {
            Poll::Pending => items.push(Item::Pending),
            Poll::Ready(None) => {
                items.push(Item::None);
                break;
            }
            Poll::Ready(Some(Ok(f))) => {
                if f.is_data() {
                    items.push(Item::Data(f.into_data().ok().unwrap().to_vec()));
                } else {
                    items.push(Item::Trailers(f.into_trailers().ok().unwrap()));
                }
            }
            Poll::Ready(Some(Err(e))) => items.push(classify(&e.to_string())),
        }
    }
    items
}

// ------------------------------------------------------------------ the recording inner service
struct Seen {
    method: Method,
    version: Version,
    headers: HeaderMap,
    uri: String,
    /// size_hint() of the request body, read before the first poll
    hint: (u64, Option<u64>),
    body: Vec<Item>,
}
/// how the inner service reads the request body it is given
#[derive(Clone, Copy, PartialEq)]
enum Reader {
    /// poll until None / the first error
    Drain,
    /// the way hyper reads a body (stop when is_end_stream() is true)
    Hyper,
    /// exactly n polls, every result recorded, errors are not final
    Polls(usize),
}
/// the scripted response body with a scripted `is_end_stream` / `size_hint`
struct EosBody {
    inner: ScriptBody<InnerErr>,
    /// 0 never, 1 once the script is exhausted (tonic's EncodeBody), 2 once no data frame is left
    mode: u8,
    /// report the exact number of remaining data bytes
    hint: bool,
}
impl HttpBody for EosBody {
    type Data = Bytes;
    type Error = InnerErr;
    fn poll_frame(
        mut self: std::pin::Pin<&mut Self>,
        cx: &mut Context<'_>,
    ) -> Poll<Option<Result<http_body::Frame<Bytes>, InnerErr>>> {
        std::pin::Pin::new(&mut self.inner).poll_frame(cx)
    }
    fn is_end_stream(&self) -> bool {
        match self.mode {
            1 => self.inner.evs.is_empty(),
            2 => !self.inner.evs.iter().any(|e| matches!(e, Ev::Data(_))),
            _ => false,
        }
    }
    fn size_hint(&self) -> http_body::SizeHint {
        if self.hint {
            let n: usize = self.inner.evs.iter().map(|e| if let Ev::Data(d) = e { d.len() } else { 0 }).sum();
            http_body::SizeHint::with_exact(n as u64)
        } else {
            http_body::SizeHint::default()
        }
    }
}
struct Rec {
    resp: Option<(u16, HeaderMap, Vec<E>, u8, bool)>,
    seen: Arc<Mutex<Option<Seen>>>,
    reader: Reader,
}
impl Service<Request<tonic::body::Body>> for Rec {
    type Response = Response<EosBody>;
    type Error = Infallible;
    type Future = std::future::Ready<Result<Self::Response, Infallible>>;
    fn poll_ready(&mut self, _: &mut Context<'_>) -> Poll<Result<(), Infallible>> {
        Poll::Ready(Ok(()))
    }
    fn call(&mut self, req: Request<tonic::body::Body>) -> Self::Future {
        let (parts, body) = req.into_parts();
        let h = body.size_hint();
        let items = match self.reader {
            Reader::Hyper => {
                let (mut v, by_eos) = drain_hyper(body);
                if by_eos {
                    v.push(Item::Cap); // marker: stopped by is_end_stream (never produced otherwise here)
                }
                v
            }
            Reader::Drain => drain(body, 100_000),
            Reader::Polls(n) => polls(body, n),
        };
        *self.seen.lock().unwrap() = Some(Seen {
            method: parts.method,
            version: parts.version,
            headers: parts.headers,
            uri: parts.uri.to_string(),
            hint: (h.lower(), h.upper()),
            body: items,
        });
        let (status, headers, evs, mode, hint) = self.resp.take().expect("called once");
        let (sb, _) = ScriptBody::new(evs.iter().map(to_ev).collect());
        let mut r = Response::new(EosBody { inner: sb, mode, hint });
        *r.status_mut() = StatusCode::from_u16(status).unwrap();
        *r.headers_mut() = headers;
        std::future::ready(Ok(r))
    }
}

fn version_num(v: Version) -> u32 {
    match v {
        Version::HTTP_09 => 0,
        Version::HTTP_10 => 1,
        Version::HTTP_11 => 2,
        Version::HTTP_2 => 3,
        _ => 4,
    }
}
fn version_of(n: u64) -> Version {
    match n {
        0 => Version::HTTP_09,
        1 => Version::HTTP_10,
        2 => Version::HTTP_11,
        3 => Version::HTTP_2,
        _ => Version::HTTP_3,
    }
}

// ------------------------------------------------------------------ one call through the layer
#[derive(Clone)]
struct Call {
    method: String,
    version: u64,
    headers: Vec<(String, Vec<u8>)>,
    qevs: Vec<E>,
    rstatus: u16,
    rheaders: Vec<(String, Vec<u8>)>,
    revs: Vec<E>,
}
impl Call {
    fn json(&self) -> Value {
        json!({"method": self.method, "version": self.version, "headers": pairs_json(&self.headers),
               "qevs": evs_json(&self.qevs), "rstatus": self.rstatus, "rheaders": pairs_json(&self.rheaders),
               "revs": evs_json(&self.revs)})
    }
    fn from_json(v: &Value) -> Call {
        Call {
            method: v["method"].as_str().unwrap().to_string(),
            version: v["version"].as_u64().unwrap(),
            headers: pairs_from_json(&v["headers"]),
            qevs: evs_from_json(&v["qevs"]),
            rstatus: v["rstatus"].as_u64().unwrap() as u16,
            rheaders: pairs_from_json(&v["rheaders"]),
            revs: evs_from_json(&v["revs"]),
        }
    }
    fn model(&self) -> String {
        format!(
            "obs_call {} {} {} {} {} {} {}",
            coq_bytes(self.method.as_bytes()),
            self.version,
            coq_hm(&pairs_to_map(&self.headers)),
            evs_coq(&self.qevs),
            self.rstatus,
            coq_hm(&pairs_to_map(&self.rheaders)),
            evs_coq(&self.revs)
        )
    }
}
struct Done {
    seen: Option<Seen>,
    status: u16,
    headers: HeaderMap,
    body: Vec<Item>,
}
fn run_call(c: &Call) -> Done {
    let seen = Arc::new(Mutex::new(None));
    let inner = Rec { resp: Some((c.rstatus, pairs_to_map(&c.rheaders), c.revs.clone(), 0, false)), seen: seen.clone(), reader: Reader::Drain };
    let mut svc = GrpcWebLayer::new().layer(inner);
    let (qb, _) = ScriptBody::<InnerErr>::new(c.qevs.iter().map(to_ev).collect());
    let mut req = Request::new(qb);
    *req.method_mut() = Method::from_bytes(c.method.as_bytes()).unwrap();
    *req.version_mut() = version_of(c.version);
    *req.uri_mut() = "http://example.test/pkg.Svc/Method".parse().unwrap();
    *req.headers_mut() = pairs_to_map(&c.headers);
    let resp = spin(svc.call(req), 1000).expect("response future ready").unwrap();
    let (parts, body) = resp.into_parts();
    let items = drain(body, 100_000);
    let s = seen.lock().unwrap().take();
    Done { seen: s, status: parts.status.as_u16(), headers: parts.headers, body: items }
}

/// The translated response body read by a hyper-like consumer: `is_end_stream()` is asked before
/// the first poll and after every data frame; the consumer stops when it answers true.
/// Returns the size_hint seen first, the frames taken, and whether is_end_stream stopped it.
fn run_response_hyper(accept: Option<&str>, revs: &[E], mode: u8, hint: bool) -> ((u64, Option<u64>), Vec<Item>, bool) {
    let seen = Arc::new(Mutex::new(None));
    let inner = Rec { resp: Some((200, HeaderMap::new(), revs.to_vec(), mode, hint)), seen, reader: Reader::Drain };
    let mut svc = GrpcWebLayer::new().layer(inner);
    let (qb, _) = ScriptBody::<InnerErr>::new(vec![]);
    let mut req = Request::new(qb);
    *req.method_mut() = Method::POST;
    *req.version_mut() = Version::HTTP_11;
    *req.uri_mut() = "http://example.test/pkg.Svc/Method".parse().unwrap();
    req.headers_mut().insert("content-type", HeaderValue::from_static("application/grpc-web"));
    if let Some(a) = accept {
        req.headers_mut().insert("accept", HeaderValue::from_str(a).unwrap());
    }
    let resp = spin(svc.call(req), 1000).expect("response future ready").unwrap();
    let body = resp.into_body();
    let h = body.size_hint();
    let hint_seen = (h.lower(), h.upper());
    let mut body = Box::pin(body);
    let mut items = vec![];
    if body.is_end_stream() {
        return (hint_seen, items, true);
    }
    for _ in 0..100_000 {
        match spin(std::future::poll_fn(|cx| body.as_mut().poll_frame(cx)), 100_000) {
            Err(()) => {
                items.push(Item::Cap);
                return (hint_seen, items, false);
            }
            Ok(None) => {
                items.push(Item::None);
                return (hint_seen, items, false);
            }
            Ok(Some(Ok(f))) => {
                if f.is_data() {
                    items.push(Item::Data(f.into_data().ok().unwrap().to_vec()));
                    if body.is_end_stream() {
                        return (hint_seen, items, true);
                    }
                } else {
                    items.push(Item::Trailers(f.into_trailers().ok().unwrap()));
                    return (hint_seen, items, false);
                }
            }
            Ok(Some(Err(e))) => {
                items.push(classify(&e.to_string()));
                return (hint_seen, items, false);
            }
        }
    }
    items.push(Item::Cap);
    (hint_seen, items, false)
}

/// hyper-like reading of any body: (frames taken, stopped by is_end_stream)
fn drain_hyper<B>(body: B) -> (Vec<Item>, bool)
where
    B: HttpBody<Data = Bytes>,
    B::Error: std::fmt::Display,
{
    let mut body = Box::pin(body);
    let mut items = vec![];
    if body.is_end_stream() {
        return (items, true);
    }
    for _ in 0..100_000 {
        match spin(std::future::poll_fn(|cx| body.as_mut().poll_frame(cx)), 100_000) {
            Err(()) => {
                items.push(Item::Err(98));
                return (items, false);
            }
            Ok(None) => {
                items.push(Item::None);
                return (items, false);
            }
            Ok(Some(Ok(f))) => {
                if f.is_data() {
                    items.push(Item::Data(f.into_data().ok().unwrap().to_vec()));
                    if body.is_end_stream() {
                        return (items, true);
                    }
                } else {
                    items.push(Item::Trailers(f.into_trailers().ok().unwrap()));
                    return (items, false);
                }
            }
            Ok(Some(Err(e))) => {
                items.push(classify(&e.to_string()));
                return (items, false);
            }
        }
    }
    (items, false)
}

/// The size hint a body gave before its first poll against the bytes it then delivered:
/// lower <= delivered <= upper (F-C16a).  Model-independent.
fn hint_verdict(what: &str, hint: (u64, Option<u64>), delivered: usize) -> Option<String> {
    if hint.0 > delivered as u64 || matches!(hint.1, Some(u) if u < delivered as u64) {
        Some(format!(
            "{} body announced size_hint (lower {}, upper {:?}) and delivered {} bytes: a consumer that derives a Content-Length from the hint cuts or pads the body",
            what, hint.0, hint.1, delivered
        ))
    } else {
        None
    }
}

/// kind eos.request*: a request body (base64 text or binary) whose inner body reports
/// is_end_stream once it is exhausted (`mode` 1) and, with `hint`, the exact number of bytes to
/// come, read by the inner service the way hyper reads a body
fn request_hyper_case(kind: &str, r: &mut Rng, payload: Option<&[u8]>, wire: &[u8], cuts: &[usize], mode: u8,
                      pend: &mut Vec<Pending>, out: &mut Out) {
    let qevs = sprinkle(r, chunks_at(wire, cuts));
    request_hyper_evs(kind, payload, qevs, mode, true, false, pend, out);
}
fn request_hyper_evs(kind: &str, payload: Option<&[u8]>, qevs: Vec<E>, mode: u8, text: bool, hint: bool, pend: &mut Vec<Pending>, out: &mut Out) {
    let seen = Arc::new(Mutex::new(None));
    let inner = Rec { resp: Some((200, HeaderMap::new(), vec![], 0, false)), seen: seen.clone(), reader: Reader::Hyper };
    let mut svc = GrpcWebLayer::new().layer(inner);
    let (sb, _) = ScriptBody::<InnerErr>::new(qevs.iter().map(to_ev).collect());
    let mut req = Request::new(EosBody { inner: sb, mode, hint });
    *req.method_mut() = Method::POST;
    *req.uri_mut() = "http://example.test/pkg.Svc/Method".parse().unwrap();
    req.headers_mut().insert(
        "content-type",
        HeaderValue::from_static(if text { "application/grpc-web-text" } else { "application/grpc-web+proto" }),
    );
    let _ = spin(svc.call(req), 1000).expect("response future ready");
    let s = seen.lock().unwrap().take().expect("inner service called");
    let mut items = s.body;
    let by_eos = items.last() == Some(&Item::Cap);
    if by_eos {
        items.pop();
    }
    let mut oracle = None;
    if let Some(p) = payload {
        if data_of(&items) != p {
            oracle = Some(format!(
                "a consumer that stops at is_end_stream() received {} of the {} payload bytes",
                data_of(&items).len(),
                p.len()
            ));
        }
        if !(by_eos || items.last() == Some(&Item::None)) {
            oracle = Some(format!("the request body did not reach its end: {:?}", items.last()));
        }
    }
    if oracle.is_none() {
        oracle = hint_verdict("the request", s.hint, data_of(&items).len());
    }
    out.hist("eos.request.stopped_by_is_end_stream", by_eos);
    out.hist("eos.request.size_hint", if s.hint.1.is_some() { if s.hint.1 == Some(0) { "exact 0" } else { "upper bound" } } else { "none" });
    pend.push(Pending {
        case: Case {
            kind: kind.to_string(),
            input: json!({"hyper_request": {"qevs": evs_json(&qevs), "eos_mode": mode, "payload": payload.map(hex), "text": text, "hint": hint}}),
            model: format!("obs_request_hyper {} {} {} {}", if text { "Base64" } else { "NoEnc" }, mode, coq_bool(hint), evs_coq(&qevs)),
            impl_obs: Tr::L(vec![Tr::L(vec![Tr::n(s.hint.0), Tr::opt(s.hint.1.map(Tr::n))]), items_tr(&items), Tr::bool(by_eos)]),
            oracle,
            nontrivial: !qevs.is_empty(),
        },
        py: None,
    });
}

/// kind polls.*: every poll result of the translated request / response body, errors are not
/// final (tie only: the property does not speak about a body that is polled on after it failed)
fn polls_request_case(kind: &str, qevs: Vec<E>, text: bool, n: usize, pend: &mut Vec<Pending>, _out: &mut Out) {
    let seen = Arc::new(Mutex::new(None));
    let inner = Rec { resp: Some((200, HeaderMap::new(), vec![], 0, false)), seen: seen.clone(), reader: Reader::Polls(n) };
    let mut svc = GrpcWebLayer::new().layer(inner);
    let (sb, _) = ScriptBody::<InnerErr>::new(qevs.iter().map(to_ev).collect());
    let mut req = Request::new(sb);
    *req.method_mut() = Method::POST;
    *req.uri_mut() = "http://example.test/pkg.Svc/Method".parse().unwrap();
    req.headers_mut().insert(
        "content-type",
        HeaderValue::from_static(if text { "application/grpc-web-text+proto" } else { "application/grpc-web" }),
    );
    let _ = spin(svc.call(req), 1000).expect("response future ready");
    let s = seen.lock().unwrap().take().expect("inner service called");
    pend.push(Pending {
        case: Case {
            kind: kind.to_string(),
            input: json!({"polls_request": {"qevs": evs_json(&qevs), "text": text, "n": n}}),
            model: format!("obs_polls_request {} {} {}", if text { "Base64" } else { "NoEnc" }, n, evs_coq(&qevs)),
            impl_obs: items_tr(&s.body),
            oracle: None,
            nontrivial: !qevs.is_empty(),
        },
        py: None,
    });
}
fn polls_response_case(kind: &str, revs: Vec<E>, text: bool, n: usize, pend: &mut Vec<Pending>, _out: &mut Out) {
    let seen = Arc::new(Mutex::new(None));
    let inner = Rec { resp: Some((200, HeaderMap::new(), revs.clone(), 0, false)), seen, reader: Reader::Drain };
    let mut svc = GrpcWebLayer::new().layer(inner);
    let (qb, _) = ScriptBody::<InnerErr>::new(vec![]);
    let mut req = Request::new(qb);
    *req.method_mut() = Method::POST;
    *req.uri_mut() = "http://example.test/pkg.Svc/Method".parse().unwrap();
    req.headers_mut().insert("content-type", HeaderValue::from_static("application/grpc-web"));
    if text {
        req.headers_mut().insert("accept", HeaderValue::from_static("application/grpc-web-text"));
    }
    let resp = spin(svc.call(req), 1000).expect("response future ready").unwrap();
    let items = polls(resp.into_body(), n);
    pend.push(Pending {
        case: Case {
            kind: kind.to_string(),
            input: json!({"polls_response": {"revs": evs_json(&revs), "text": text, "n": n}}),
            model: format!("obs_polls_response {} {} {}", if text { "Base64" } else { "NoEnc" }, n, evs_coq(&revs)),
            impl_obs: items_tr(&items),
            oracle: None,
            nontrivial: !revs.is_empty(),
        },
        py: None,
    });
}

/// `GrpcWebCall::default()` (Direction::Empty) over an inner body that still has a frame and an
/// exact hint: at its end, nothing to come, exact 0
#[derive(Default)]
struct DefBody(bool);
impl HttpBody for DefBody {
    type Data = Bytes;
    type Error = InnerErr;
    fn poll_frame(mut self: std::pin::Pin<&mut Self>, _: &mut Context<'_>) -> Poll<Option<Result<http_body::Frame<Bytes>, InnerErr>>> {
        if self.0 {
            Poll::Ready(None)
        } else {
            self.0 = true;
            Poll::Ready(Some(Ok(http_body::Frame::data(Bytes::from_static(b"late")))))
        }
    }
    fn size_hint(&self) -> http_body::SizeHint {
        http_body::SizeHint::with_exact(if self.0 { 0 } else { 4 })
    }
}
fn default_call_case(pend: &mut Vec<Pending>) {
    let call = tonic_web::GrpcWebCall::<DefBody>::default();
    let eos = HttpBody::is_end_stream(&call);
    let h = HttpBody::size_hint(&call);
    let items = polls(call, 3);
    let mut oracle = hint_verdict("the empty", (h.lower(), h.upper()), data_of(&items).len());
    if eos && data_of(&items).len() > 0 {
        oracle = Some("is_end_stream() was true and a frame followed".into());
    }
    pend.push(Pending {
        case: Case {
            kind: "call.default_empty".to_string(),
            input: json!({"default_call": true}),
            model: "obs_default_call 3 [EvData [108; 97; 116; 101]]".to_string(),
            impl_obs: Tr::L(vec![Tr::bool(eos), Tr::L(vec![Tr::n(h.lower()), Tr::opt(h.upper().map(Tr::n))]), items_tr(&items)]),
            oracle,
            nontrivial: true,
        },
        py: None,
    });
}

/// kind eos.*: a gRPC response (message bytes cut at `cuts`, then trailers) through the layer,
/// read the way hyper reads a body.  mode 1 is judged: the trailers frame must arrive.
fn response_hyper_case(kind: &str, r: &mut Rng, msgs: &[u8], trailers: &Pairs, cuts: &[usize], accept: Option<&str>, mode: u8, hint: bool,
                       pend: &mut Vec<Pending>, out: &mut Out) {
    let mut revs = sprinkle(r, chunks_at(msgs, cuts));
    revs.push(E::T(trailers.clone()));
    let m = pairs_to_map(trailers);
    let listed: Pairs = m.iter().map(|(k, v)| (k.as_str().to_string(), v.as_bytes().to_vec())).collect();
    hyper_case_revs(kind, accept, &revs, mode, hint, msgs, &listed, pend, out);
}
fn hyper_case_revs(kind: &str, accept: Option<&str>, revs: &[E], mode: u8, hint: bool, msgs: &[u8], listed: &Pairs,
                   pend: &mut Vec<Pending>, out: &mut Out) {
    let (hs, items, by_eos) = run_response_hyper(accept, revs, mode, hint);
    let text = is_text(accept.map(|a| a.as_bytes()));
    let chunks: Vec<String> = items.iter().filter_map(|i| if let Item::Data(x) = i { Some(hex(x)) } else { None }).collect();
    let delivered: usize = items.iter().map(|i| if let Item::Data(x) = i { x.len() } else { 0 }).sum();
    let judged = mode != 2;
    let mut oracle = None;
    if judged && !(by_eos || items.last() == Some(&Item::None)) {
        oracle = Some(format!("the consumer did not reach the end: {:?}", items.last()));
    }
    if oracle.is_none() {
        oracle = hint_verdict("the response", hs, delivered);
    }
    out.hist("eos.response.mode", mode);
    out.hist("eos.response.inner_exact_hint", hint);
    out.hist("eos.response.stopped_by_is_end_stream", by_eos);
    out.hist("eos.response.size_hint_upper_below_delivered", matches!(hs.1, Some(u) if (u as usize) < delivered));
    pend.push(Pending {
        case: Case {
            kind: kind.to_string(),
            input: json!({"hyper": {"accept": accept, "revs": evs_json(revs), "eos_mode": mode, "hint": hint,
                                    "msgs": hex(msgs), "trailers": pairs_json(listed)}}),
            model: format!(
                "obs_response_hyper {} {} {} {}",
                mode,
                coq_bool(hint),
                if text { "Base64" } else { "NoEnc" },
                evs_coq(revs)
            ),
            impl_obs: Tr::L(vec![
                Tr::L(vec![Tr::n(hs.0), Tr::opt(hs.1.map(Tr::n))]),
                items_tr(&items),
                Tr::bool(by_eos),
            ]),
            oracle,
            nontrivial: true,
        },
        py: if judged { Some(json!({"text": text, "chunks": chunks, "msgs": hex(msgs), "trailers": pairs_json(listed)})) } else { None },
    });
}

/// kind *.hyper_h1: the translated response as a REAL hyper HTTP/1.1 server connection writes it
/// (tokio duplex pipe, raw bytes read on the client side).  hyper derives a Content-Length from an
/// exact size_hint() and from a content-length response header and cuts the body there
/// (F-C16a, F-C16b).  Observable: the content-length values of the response head and the
/// transfer-decoded body; judged by the python decoder on those bytes.
fn wire_case(kind: &str, accept: Option<&str>, rheaders: &Pairs, revs: &[E], hint: bool, msgs: &[u8], listed: &Pairs,
             pend: &mut Vec<Pending>, out: &mut Out) {
    use tokio::io::{AsyncReadExt, AsyncWriteExt};
    let rt = tokio::runtime::Builder::new_current_thread().enable_all().build().unwrap();
    let raw: Vec<u8> = rt.block_on(async {
        let (mut cli, srv) = tokio::io::duplex(1 << 20);
        let seen = Arc::new(Mutex::new(None));
        let rec = Rec { resp: Some((200, pairs_to_map(rheaders), revs.to_vec(), 1, hint)), seen, reader: Reader::Drain };
        let svc = Arc::new(Mutex::new(GrpcWebLayer::new().layer(rec)));
        let hsvc = hyper::service::service_fn(move |req: Request<hyper::body::Incoming>| svc.lock().unwrap().call(req));
        let server = hyper::server::conn::http1::Builder::new().serve_connection(hyper_util::rt::TokioIo::new(srv), hsvc);
        let mut req = String::from("POST /pkg.Svc/Method HTTP/1.1\r\nhost: example.test\r\ncontent-type: application/grpc-web\r\n");
        if let Some(a) = accept {
            req.push_str(&format!("accept: {}\r\n", a));
        }
        req.push_str("content-length: 0\r\nconnection: close\r\n\r\n");
        let client = async move {
            cli.write_all(req.as_bytes()).await.unwrap();
            let mut buf = vec![];
            let _ = cli.read_to_end(&mut buf).await;
            buf
        };
        let (_, buf) = tokio::join!(server, client);
        buf
    });
    let split = raw.windows(4).position(|w| w == b"\r\n\r\n");
    let (head, rest) = match split {
        Some(p) => (String::from_utf8_lossy(&raw[..p]).to_string(), raw[p + 4..].to_vec()),
        None => (String::from_utf8_lossy(&raw).to_string(), vec![]),
    };
    let mut cls: Vec<Vec<u8>> = vec![];
    let mut chunked = false;
    for l in head.lines().skip(1) {
        if let Some((k, v)) = l.split_once(':') {
            let k = k.trim().to_ascii_lowercase();
            if k == "content-length" {
                cls.push(v.trim().as_bytes().to_vec());
            }
            if k == "transfer-encoding" && v.to_ascii_lowercase().contains("chunked") {
                chunked = true;
            }
        }
    }
    let mut oracle = None;
    let body = if chunked {
        // own transfer-decoding: size line in hex, CRLF, data, CRLF, ... 0 CRLF CRLF
        let mut o = vec![];
        let mut at = 0;
        loop {
            let Some(e) = rest[at..].windows(2).position(|w| w == b"\r\n") else {
                oracle = Some("chunked body cut inside a size line".to_string());
                break;
            };
            let line = String::from_utf8_lossy(&rest[at..at + e]).to_string();
            let Ok(n) = usize::from_str_radix(line.split(';').next().unwrap_or("").trim(), 16) else {
                oracle = Some(format!("bad chunk size line {:?}", line));
                break;
            };
            at += e + 2;
            if n == 0 {
                break;
            }
            if at + n + 2 > rest.len() {
                oracle = Some("chunked body cut inside a chunk".to_string());
                break;
            }
            o.extend_from_slice(&rest[at..at + n]);
            at += n + 2;
        }
        o
    } else {
        rest
    };
    if !head.starts_with("HTTP/1.1 200") {
        oracle = Some(format!("status line {:?}", head.lines().next()));
    }
    let text = is_text(accept.map(|a| a.as_bytes()));
    // python checks every chunk on its own: hand it the text body quantum by quantum
    let chunks: Vec<String> = if text { body.chunks(4).map(hex).collect() } else { vec![hex(&body)] };
    out.hist("wire.transfer", if chunked { "chunked" } else if cls.is_empty() { "until close" } else { "content-length" });
    pend.push(Pending {
        case: Case {
            kind: kind.to_string(),
            input: json!({"wire": {"accept": accept, "rheaders": pairs_json(rheaders), "revs": evs_json(revs), "hint": hint,
                                   "msgs": hex(msgs), "trailers": pairs_json(listed)}}),
            model: format!("obs_wire {} {} {}", coq_hm(&pairs_to_map(rheaders)), if text { "Base64" } else { "NoEnc" }, evs_coq(revs)),
            impl_obs: Tr::L(vec![Tr::L(cls.iter().map(|v| Tr::b(v)).collect()), Tr::b(&body)]),
            oracle,
            nontrivial: true,
        },
        py: Some(json!({"text": text, "chunks": chunks, "msgs": hex(msgs), "trailers": pairs_json(listed)})),
    });
}

// what the property says about the four cases, computed without tonic
const WEB_TYPES: [&str; 4] = [
    "application/grpc-web",
    "application/grpc-web+proto",
    "application/grpc-web-text",
    "application/grpc-web-text+proto",
];
fn first<'a>(h: &'a [(String, Vec<u8>)], k: &str) -> Option<&'a [u8]> {
    h.iter().find(|(n, _)| n == k).map(|(_, v)| v.as_slice())
}
fn is_text(v: Option<&[u8]>) -> bool {
    matches!(v, Some(x) if x == WEB_TYPES[2].as_bytes() || x == WEB_TYPES[3].as_bytes())
}
#[derive(PartialEq, Debug, Clone, Copy)]
enum Kind {
    Translate,
    S405,
    S400,
    Pass,
}
fn spec_kind(c: &Call) -> Kind {
    let ct = first(&c.headers, "content-type");
    let web = matches!(ct, Some(x) if WEB_TYPES.iter().any(|t| t.as_bytes() == x));
    if web {
        if c.method == "POST" {
            Kind::Translate
        } else {
            Kind::S405
        }
    } else if c.version == 3 {
        Kind::Pass
    } else {
        Kind::S400
    }
}

fn items_tr(v: &[Item]) -> Tr {
    Tr::L(v.iter().map(|i| i.tr()).collect())
}
fn data_of(v: &[Item]) -> Vec<u8> {
    v.iter().filter_map(|i| if let Item::Data(d) = i { Some(d.clone()) } else { None }).flatten().collect()
}
fn b64(p: &[u8]) -> Vec<u8> {
    const A: &[u8; 64] = b"ABCDEFGHIJKLMNOPQRSTUVWXYZabcdefghijklmnopqrstuvwxyz0123456789+/";
    let mut o = vec![];
    for c in p.chunks(3) {
        let n = (c[0] as u32) << 16 | (*c.get(1).unwrap_or(&0) as u32) << 8 | *c.get(2).unwrap_or(&0) as u32;
        o.push(A[(n >> 18) as usize & 63]);
        o.push(A[(n >> 12) as usize & 63]);
        o.push(if c.len() > 1 { A[(n >> 6) as usize & 63] } else { b'=' });
        o.push(if c.len() > 2 { A[n as usize & 63] } else { b'=' });
    }
    o
}

/// strict decoder of ONE padded base64 text (own table, shares nothing with tonic / the model)
fn unb64(t: &[u8]) -> Option<Vec<u8>> {
    if t.len() % 4 != 0 {
        return None;
    }
    let val = |c: u8| -> Option<u32> {
        match c {
            b'A'..=b'Z' => Some((c - b'A') as u32),
            b'a'..=b'z' => Some((c - b'a') as u32 + 26),
            b'0'..=b'9' => Some((c - b'0') as u32 + 52),
            b'+' => Some(62),
            b'/' => Some(63),
            _ => None,
        }
    };
    let mut o = vec![];
    let nq = t.len() / 4;
    for (qi, q) in t.chunks(4).enumerate() {
        let pads = q.iter().rev().take_while(|c| **c == b'=').count();
        if pads > 2 || (pads > 0 && qi + 1 != nq) {
            return None;
        }
        let mut n = 0u32;
        for c in &q[..4 - pads] {
            n = n << 6 | val(*c)?;
        }
        n <<= 6 * pads as u32;
        match pads {
            0 => o.extend([(n >> 16) as u8, (n >> 8) as u8, n as u8]),
            1 => {
                if n & 0xff != 0 {
                    return None;
                }
                o.extend([(n >> 16) as u8, (n >> 8) as u8])
            }
            _ => {
                if n & 0xffff != 0 {
                    return None;
                }
                o.push((n >> 16) as u8)
            }
        }
    }
    Some(o)
}
/// a text body read quantum by quantum (padding may end any quantum): the bytes of the longest
/// decodable prefix and the number of characters it covers
fn quanta_prefix(t: &[u8]) -> (Vec<u8>, usize) {
    let mut o = vec![];
    let mut used = 0;
    for q in t.chunks(4) {
        match unb64(q) {
            Some(b) if q.len() == 4 => {
                o.extend(b);
                used += 4;
            }
            _ => break,
        }
    }
    (o, used)
}
/// "reaches the inner service as the original gRPC bytes" for ANY text body: what arrives is a
/// prefix of the independent per-quantum reading, and a clean end needs every character decoded
fn text_request_verdict(wire: &[u8], items: &[Item]) -> Option<String> {
    let (dec, used) = quanta_prefix(wire);
    let got = data_of(items);
    if !dec.starts_with(&got) {
        return Some(format!(
            "the inner service received {} which is not a prefix of the per-quantum decoding {} of the text sent",
            hex(&got),
            hex(&dec)
        ));
    }
    if items.last() == Some(&Item::None) && (used != wire.len() || got != dec) {
        return Some(format!(
            "the request body ended cleanly after {} bytes although the text sent decodes to {} bytes ({} of {} characters decodable)",
            got.len(),
            dec.len(),
            used,
            wire.len()
        ));
    }
    None
}

/// What the caller promises about the case, for the direct oracle.
#[derive(Clone, Default)]
struct Promise {
    /// the request body is a grpc-web encoding (per content-type) of exactly these bytes
    req_payload: Option<Vec<u8>>,
    /// the inner response is message frames (these bytes) followed by these trailers
    resp: Option<(Vec<u8>, Pairs)>,
    /// the request body is a NON-canonical text encoding (unpadded, several padded segments) of
    /// these bytes: they arrive completely and the body ends, or the body fails having
    /// delivered a prefix of them - nothing else reaches the inner service
    req_original: Option<Vec<u8>>,
    /// the inner response body is these data bytes and NO trailers: the translated body must
    /// decode to exactly them (no frame invented, nothing lost)
    resp_plain: Option<Vec<u8>>,
    /// a Trailers-Only response: status in the response headers, empty body
    trailers_only: bool,
}
struct Pending {
    case: Case,
    py: Option<Value>,
}

fn do_call(kind: &str, c: &Call, p: &Promise, pend: &mut Vec<Pending>, out: &mut Out) {
    let d = run_call(c);
    let want = spec_kind(c);
    let mut oracle: Option<String> = None;
    let mut py = None;
    let obs = match (&d.seen, want) {
        (None, _) => {
            // the inner service was not called: an immediate response
            let tag = if d.status == 405 { 2u8 } else { 3u8 };
            match want {
                Kind::S405 if d.status != 405 => oracle = Some(format!("non-POST grpc-web request answered {}", d.status)),
                Kind::S400 if d.status != 400 => oracle = Some(format!("non-grpc-web HTTP/1 request answered {}", d.status)),
                Kind::Translate | Kind::Pass => oracle = Some(format!("inner service not called, status {}", d.status)),
                _ => {}
            }
            if d.body != vec![Item::None] {
                oracle = Some("immediate response has a body".into());
            }
            Tr::L(vec![Tr::n(tag), Tr::n(d.status)])
        }
        (Some(s), _) => {
            let ct = first(&c.headers, "content-type");
            if s.uri != "http://example.test/pkg.Svc/Method" {
                oracle = Some(format!("the request URI reached the inner service as {}", s.uri));
            }
            let translated = s.headers.get("content-type").map(|v| v.as_bytes()) == Some(b"application/grpc")
                && WEB_TYPES.iter().any(|t| Some(t.as_bytes()) == ct);
            match want {
                Kind::S405 | Kind::S400 => oracle = Some(format!("inner service called, expected {:?}", want)),
                Kind::Translate => {
                    if !translated {
                        oracle = Some("inner request content-type is not application/grpc".into());
                    }
                    if s.method != Method::POST || version_num(s.version) as u64 != c.version {
                        oracle = Some("method / version changed".into());
                    }
                    // lossless: every request header the translation has no business with
                    // arrives unchanged (te / accept-encoding are set by the layer: incidental,
                    // compared with the model only); a content-length that arrives is true
                    let hin = pairs_to_map(&c.headers);
                    let own = ["content-type", "content-length", "te", "accept-encoding"];
                    for k in hin.keys().chain(s.headers.keys()) {
                        if own.contains(&k.as_str()) {
                            continue;
                        }
                        let a: Vec<&[u8]> = hin.get_all(k).iter().map(|v| v.as_bytes()).collect();
                        let b: Vec<&[u8]> = s.headers.get_all(k).iter().map(|v| v.as_bytes()).collect();
                        if a != b {
                            oracle = Some(format!("request header {} changed on the way to the inner service", k));
                        }
                    }
                    if let Some(cl) = s.headers.get("content-length") {
                        if cl.to_str().ok().and_then(|x| x.parse::<usize>().ok()) != Some(data_of(&s.body).len()) {
                            oracle = Some(format!(
                                "the inner service was told content-length {:?} and received {} bytes",
                                cl,
                                data_of(&s.body).len()
                            ));
                        }
                    }
                    if let Some(pl) = &p.req_payload {
                        if &data_of(&s.body) != pl || s.body.last() != Some(&Item::None) {
                            oracle = Some(format!(
                                "inner service received {} instead of the {} payload bytes (last item {:?})",
                                hex(&data_of(&s.body)),
                                pl.len(),
                                s.body.last()
                            ));
                        }
                    }
                    if is_text(ct) {
                        // ANY text body: nothing but the original bytes reaches the inner service
                        let wire: Vec<u8> = c.qevs.iter().flat_map(|e| to_bytes(e)).collect();
                        if let Some(why) = text_request_verdict(&wire, &s.body) {
                            oracle = Some(why);
                        }
                    }
                    if let Some(orig) = &p.req_original {
                        let got = data_of(&s.body);
                        if !orig.starts_with(&got) {
                            oracle = Some(format!("inner service received {} which is not a prefix of the original {}", hex(&got), hex(orig)));
                        } else if s.body.last() == Some(&Item::None) && &got != orig {
                            oracle = Some(format!("the request body ended cleanly after {} of the {} original bytes", got.len(), orig.len()));
                        } else if !matches!(s.body.last(), Some(Item::None) | Some(Item::Err(_))) {
                            oracle = Some(format!("the request body neither ended nor failed: {:?}", s.body.last()));
                        }
                    }
                    out.hist("call.request_body_hint", if s.hint.1.is_some() { "upper bound" } else { "none" });
                    if !c.qevs.iter().any(|e| matches!(e, E::X | E::T(_))) {
                        if let Some(why) = hint_verdict("the request", s.hint, data_of(&s.body).len()) {
                            oracle = Some(why);
                        }
                    }
                    let accept_text = is_text(first(&c.headers, "accept"));
                    let want_ct = if accept_text { WEB_TYPES[3] } else { WEB_TYPES[1] };
                    if d.headers.get("content-type").map(|v| v.as_bytes()) != Some(want_ct.as_bytes()) {
                        oracle = Some(format!("response content-type is not {}", want_ct));
                    }
                    if d.status != c.rstatus {
                        oracle = Some("response status changed".into());
                    }
                    // F-C16b: the inner service described the untranslated body
                    if let Some(cl) = d.headers.get("content-length") {
                        oracle = Some(format!(
                            "the translated response carries content-length {:?} (the length of the untranslated body): an HTTP/1.1 server cuts the body there",
                            cl
                        ));
                    }
                    let hres = pairs_to_map(&c.rheaders);
                    for k in hres.keys().chain(d.headers.keys()) {
                        if k == "content-type" || k == "content-length" {
                            continue;
                        }
                        let a: Vec<&[u8]> = hres.get_all(k).iter().map(|v| v.as_bytes()).collect();
                        let b: Vec<&[u8]> = d.headers.get_all(k).iter().map(|v| v.as_bytes()).collect();
                        if a != b {
                            oracle = Some(format!("response header {} changed on the way to the caller", k));
                        }
                    }
                    if let Some((msgs, trailers)) = &p.resp {
                        if d.body.last() != Some(&Item::None) || d.body.iter().any(|i| matches!(i, Item::Trailers(_))) {
                            oracle = Some(format!("response body did not end cleanly / has HTTP trailers: {:?}", d.body.last()));
                        }
                        let chunks: Vec<String> =
                            d.body.iter().filter_map(|i| if let Item::Data(x) = i { Some(hex(x)) } else { None }).collect();
                        py = Some(json!({"text": accept_text, "chunks": chunks, "msgs": hex(msgs), "trailers": pairs_json(trailers)}));
                    }
                    if let Some(plain) = &p.resp_plain {
                        // no trailers from the inner service: exactly its data bytes, item by item
                        let mut got = vec![];
                        for i in &d.body {
                            if let Item::Data(x) = i {
                                if accept_text {
                                    match unb64(x) {
                                        Some(b) => got.extend(b),
                                        None => oracle = Some(format!("an emitted text chunk is not padded base64: {}", hex(x))),
                                    }
                                } else {
                                    got.extend(x);
                                }
                            }
                        }
                        if &got != plain {
                            oracle = Some(format!("the translated body decodes to {} bytes, the inner service sent {}", got.len(), plain.len()));
                        }
                        if d.body.last() != Some(&Item::None) || d.body.iter().any(|i| matches!(i, Item::Trailers(_))) {
                            oracle = Some(format!("response body did not end cleanly / has HTTP trailers: {:?}", d.body.last()));
                        }
                    }
                    if p.trailers_only && (d.body != vec![Item::None]) {
                        oracle = Some(format!("a Trailers-Only response (status in the headers, empty body) got a body: {:?}", d.body));
                    }
                }
                Kind::Pass => {
                    if translated && !matches!(ct, Some(x) if x == b"application/grpc") {
                        oracle = Some("pass-through request was translated".into());
                    }
                    let hin = pairs_to_map(&c.headers);
                    if s.headers != hin || s.method.as_str() != c.method || version_num(s.version) as u64 != c.version {
                        oracle = Some("pass-through request was modified".into());
                    }
                    if d.headers != pairs_to_map(&c.rheaders) || d.status != c.rstatus {
                        oracle = Some("pass-through response was modified".into());
                    }
                    // bodies untouched: same frames
                    let sent: Vec<Item> = c
                        .qevs
                        .iter()
                        .filter_map(|e| match e {
                            E::D(x) => Some(Item::Data(x.clone())),
                            E::T(t) => Some(Item::Trailers(pairs_to_map(t))),
                            _ => None,
                        })
                        .collect();
                    if !c.qevs.iter().any(|e| matches!(e, E::X)) && s.body[..s.body.len() - 1] != sent[..] {
                        oracle = Some("pass-through request body was modified".into());
                    }
                    let rsent: Vec<Item> = c
                        .revs
                        .iter()
                        .filter_map(|e| match e {
                            E::D(x) => Some(Item::Data(x.clone())),
                            E::T(t) => Some(Item::Trailers(pairs_to_map(t))),
                            _ => None,
                        })
                        .collect();
                    if !c.revs.iter().any(|e| matches!(e, E::X)) && d.body[..d.body.len() - 1] != rsent[..] {
                        oracle = Some("pass-through response body was modified".into());
                    }
                }
            }
            if translated {
                let e = is_text(ct);
                let a = is_text(first(&c.headers, "accept"));
                Tr::L(vec![
                    Tr::n(1u8),
                    Tr::n(e as u8),
                    Tr::n(a as u8),
                    hm_tr(&s.headers),
                    items_tr(&s.body),
                    Tr::n(d.status),
                    hm_tr(&d.headers),
                    items_tr(&d.body),
                ])
            } else {
                Tr::L(vec![
                    Tr::n(4u8),
                    hm_tr(&s.headers),
                    items_tr(&s.body),
                    Tr::n(d.status),
                    hm_tr(&d.headers),
                    items_tr(&d.body),
                ])
            }
        }
    };
    out.hist("call.kind", format!("{:?}", want));
    if want == Kind::Translate {
        out.hist("call.request_encoding", if is_text(first(&c.headers, "content-type")) { "text" } else { "binary" });
        out.hist("call.accept", if is_text(first(&c.headers, "accept")) { "text" } else { "binary" });
        out.hist("call.request_chunks", bucket(c.qevs.iter().filter(|e| matches!(e, E::D(_))).count()));
        out.hist("call.response_chunks", bucket(c.revs.iter().filter(|e| matches!(e, E::D(_))).count()));
    }
    let nontrivial = !c.qevs.is_empty() || !c.revs.is_empty() || want != Kind::Translate;
    pend.push(Pending {
        case: Case {
            kind: kind.to_string(),
            input: json!({"call": c.json(), "req_payload": p.req_payload.as_ref().map(|x| hex(x)),
                          "resp": p.resp.as_ref().map(|(m, t)| json!({"msgs": hex(m), "trailers": pairs_json(t)})),
                          "req_original": p.req_original.as_ref().map(|x| hex(x)),
                          "resp_plain": p.resp_plain.as_ref().map(|x| hex(x)),
                          "trailers_only": p.trailers_only}),
            model: c.model(),
            impl_obs: obs,
            oracle,
            nontrivial,
        },
        py,
    });
}
fn bucket(n: usize) -> &'static str {
    match n {
        0 => "0",
        1 => "1",
        2..=4 => "2-4",
        5..=12 => "5-12",
        _ => ">12",
    }
}

// ------------------------------------------------------------------ generators
fn s(x: &str) -> String {
    x.to_string()
}
fn frame(flag: u8, payload: &[u8]) -> Vec<u8> {
    let mut v = vec![flag];
    v.extend_from_slice(&(payload.len() as u32).to_be_bytes());
    v.extend_from_slice(payload);
    v
}
fn gen_payload(r: &mut Rng) -> Vec<u8> {
    let n = match r.below(20) {
        0..=3 => 0,
        4..=14 => r.range(1, 12),
        15..=18 => r.range(13, 40),
        _ => r.range(64, 150),
    } as usize;
    if n >= 64 {
        return vec![r.next() as u8; n];
    }
    r.bytes(n)
}
fn gen_msgs(r: &mut Rng) -> Vec<u8> {
    let n = r.below(5);
    (0..n).flat_map(|_| frame(r.below(2) as u8, &gen_payload(r))).collect()
}
fn gen_value(r: &mut Rng) -> Vec<u8> {
    let pieces: &[&[u8]] = &[b"a", b":", b" ", b"b c", b"%20", b"x:y:z", b"\xc3\xa9", b"\t", b"0", b"=", b"/+", b"not found"];
    let n = r.below(5);
    let mut v: Vec<u8> = (0..n).flat_map(|_| r.pick(pieces).to_vec()).collect();
    while v.first() == Some(&b' ') {
        v.remove(0);
    }
    v
}
fn gen_trailers(r: &mut Rng) -> Pairs {
    let mut t = vec![];
    if r.chance(1, 10) {
        return t;
    }
    t.push((s("grpc-status"), r.below(17).to_string().into_bytes()));
    if r.chance(2, 3) {
        t.push((s("grpc-message"), gen_value(r)));
    }
    for _ in 0..r.below(4) {
        t.push((s("x-k"), gen_value(r)));
    }
    if r.chance(1, 3) {
        t.push((s("x-bin-bin"), r.pick(&[&b""[..], b"QQ==", b"AAEC", b"/+8="]).to_vec()));
    }
    if t.len() > 2 && r.chance(1, 2) {
        let i = r.below(t.len() as u64) as usize;
        let j = r.below(t.len() as u64) as usize;
        t.swap(i, j);
    }
    t
}
/// the trailers as the HeaderMap will iterate them (expected listing, per name in order)
fn chunks_at(b: &[u8], cuts: &[usize]) -> Vec<E> {
    let mut v = vec![];
    let mut prev = 0;
    for &c in cuts {
        v.push(E::D(b[prev..c].to_vec()));
        prev = c;
    }
    v.push(E::D(b[prev..].to_vec()));
    v
}
fn random_cuts(r: &mut Rng, len: usize) -> Vec<usize> {
    if len < 2 {
        return vec![];
    }
    let k = match r.below(6) {
        0 => 0,
        1 | 2 => 1,
        3 => 2,
        4 => r.range(3, 6),
        _ => r.range(1, len as u64 - 1),
    } as usize;
    let mut c: Vec<usize> = (0..k).map(|_| r.range(1, len as u64 - 1) as usize).collect();
    c.sort();
    c.dedup();
    c
}
fn sprinkle(r: &mut Rng, evs: Vec<E>) -> Vec<E> {
    let mode = r.below(4);
    let mut v = vec![];
    for e in evs {
        match mode {
            0 => {}
            1 => {
                if r.chance(1, 3) {
                    v.push(E::P)
                }
            }
            2 => v.push(E::P),
            _ => {
                for _ in 0..r.below(3) {
                    v.push(E::P)
                }
                if r.chance(1, 6) {
                    v.push(E::D(vec![]))
                }
            }
        }
        v.push(e);
    }
    if mode >= 1 && r.chance(1, 2) {
        v.push(E::P);
    }
    v
}
fn req_headers(r: &mut Rng, ct: &str, accept: Option<&str>) -> Pairs {
    let mut h = vec![(s("content-type"), ct.as_bytes().to_vec())];
    if let Some(a) = accept {
        h.push((s("accept"), a.as_bytes().to_vec()));
    }
    if r.chance(1, 3) {
        h.push((s("content-length"), b"42".to_vec()));
    }
    if r.chance(1, 4) {
        h.push((s("te"), b"gzip".to_vec()));
    }
    if r.chance(1, 4) {
        h.push((s("accept-encoding"), b"br".to_vec()));
    }
    if r.chance(1, 3) {
        h.push((s("x-user"), b"1".to_vec()));
        if r.chance(1, 2) {
            h.push((s("x-user"), b"2".to_vec()));
        }
    }
    if r.chance(1, 6) {
        h.push((s("x-grpc-web"), b"1".to_vec()));
    }
    h
}
fn resp_headers(r: &mut Rng) -> Pairs {
    let mut h = vec![(s("content-type"), b"application/grpc".to_vec())];
    if r.chance(1, 3) {
        h.push((s("grpc-encoding"), b"identity".to_vec()));
    }
    if r.chance(1, 4) {
        h.push((s("x-resp"), b"a".to_vec()));
        h.push((s("x-resp"), b"b".to_vec()));
    }
    if r.chance(1, 5) {
        // the length of the UNTRANSLATED body, as an upstream gRPC server may announce it
        h.push((s("content-length"), r.pick(&[&b"0"[..], b"5", b"6", b"17", b"1000"]).to_vec()));
    }
    h
}
const ACCEPTS: [Option<&str>; 7] = [
    None,
    Some("application/grpc-web"),
    Some("application/grpc-web+proto"),
    Some("application/grpc-web-text"),
    Some("application/grpc-web-text+proto"),
    Some("*/*"),
    Some("application/grpc-web-text, */*"),
];

/// a valid gRPC response through the layer, request body empty
fn response_case(kind: &str, r: &mut Rng, msgs: &[u8], trailers: &Pairs, cuts: &[usize], accept: Option<&str>, pending: bool,
                 pend: &mut Vec<Pending>, out: &mut Out) {
    let mut revs = if msgs.is_empty() && cuts.is_empty() && r.chance(1, 2) { vec![] } else { chunks_at(msgs, cuts) };
    if pending {
        revs = sprinkle(r, revs);
    }
    revs.push(E::T(trailers.clone()));
    if pending && r.chance(1, 3) {
        revs.push(E::P);
    }
    let ct = WEB_TYPES[r.below(4) as usize];
    let c = Call {
        method: s("POST"),
        version: *r.pick(&[2u64, 3]),
        headers: req_headers(r, ct, accept),
        qevs: vec![],
        rstatus: 200,
        rheaders: resp_headers(r),
        revs,
    };
    let m = pairs_to_map(trailers);
    let listed: Pairs = m.iter().map(|(k, v)| (k.as_str().to_string(), v.as_bytes().to_vec())).collect();
    do_call(kind, &c, &Promise { req_payload: Some(vec![]), resp: Some((msgs.to_vec(), listed)), ..Default::default() }, pend, out);
}
/// a request body through the layer, minimal response
fn request_case(kind: &str, r: &mut Rng, payload: &[u8], text: bool, cuts: &[usize], pending: bool,
                pend: &mut Vec<Pending>, out: &mut Out) {
    let wire = if text { b64(payload) } else { payload.to_vec() };
    let mut qevs = if wire.is_empty() && r.chance(1, 2) { vec![] } else { chunks_at(&wire, cuts) };
    if pending {
        qevs = sprinkle(r, qevs);
    }
    let ct = if text { WEB_TYPES[2 + r.below(2) as usize] } else { WEB_TYPES[r.below(2) as usize] };
    let accept = *r.pick(&ACCEPTS);
    let c = Call {
        method: s("POST"),
        version: *r.pick(&[2u64, 3, 1]),
        headers: req_headers(r, ct, accept),
        qevs,
        rstatus: 200,
        rheaders: resp_headers(r),
        revs: vec![E::T(vec![(s("grpc-status"), b"0".to_vec())])],
    };
    do_call(
        kind,
        &c,
        &Promise { req_payload: Some(payload.to_vec()), resp: Some((vec![], vec![(s("grpc-status"), b"0".to_vec())])), ..Default::default() },
        pend,
        out,
    );
}

// ------------------------------------------------------------------ size-boundary mining
/// Every integer constant >= 64 of the non-test part of tonic-web/src/{call,service}.rs: literals
/// (decimal, hex, binary, `_` separators, type suffixes) and products / shifts of literals such as
/// `8 * 1024` or `1 << 13`.  Thresholds that appear in the code later are picked up by themselves.
fn mine_constants() -> Vec<usize> {
    let repo = std::env::var("VERIF_REPO").unwrap_or_else(|_| "/repo".to_string());
    let mut ks = std::collections::BTreeSet::new();
    for f in ["tonic-web/src/call.rs", "tonic-web/src/service.rs", "tonic-web/src/client.rs"] {
        let Ok(src) = std::fs::read_to_string(format!("{}/{}", repo, f)) else { continue };
        let src = src.split("#[cfg(test)]").next().unwrap_or("").to_string();
        // drop comments and string literals
        let mut clean = String::new();
        for line in src.lines() {
            let line = line.split("//").next().unwrap_or("");
            let mut in_str = false;
            for c in line.chars() {
                if c == '"' {
                    in_str = !in_str;
                    clean.push(' ');
                } else if !in_str {
                    clean.push(c);
                } else {
                    clean.push(' ');
                }
            }
            clean.push('\n');
        }
        // tokens: numbers and operators
        let b: Vec<char> = clean.chars().collect();
        let mut toks: Vec<Result<u64, char>> = vec![];
        let mut i = 0;
        while i < b.len() {
            let c = b[i];
            if c.is_ascii_digit() && (i == 0 || !(b[i - 1].is_alphanumeric() || b[i - 1] == '_')) {
                let mut j = i;
                while j < b.len() && (b[j].is_alphanumeric() || b[j] == '_') {
                    j += 1;
                }
                let t: String = b[i..j].iter().filter(|c| **c != '_').collect();
                let t = t.trim_end_matches("usize").trim_end_matches("u64").trim_end_matches("u32").trim_end_matches("u16").trim_end_matches("u8").trim_end_matches("i32").to_string();
                let v = if let Some(h) = t.strip_prefix("0x") {
                    u64::from_str_radix(h, 16).ok()
                } else if let Some(h) = t.strip_prefix("0b") {
                    u64::from_str_radix(h, 2).ok()
                } else {
                    t.parse::<u64>().ok()
                };
                if let Some(v) = v {
                    toks.push(Ok(v));
                }
                i = j;
            } else if c == '*' {
                toks.push(Err('*'));
                i += 1;
            } else if c == '<' && i + 1 < b.len() && b[i + 1] == '<' {
                toks.push(Err('<'));
                i += 2;
            } else if c.is_whitespace() {
                i += 1;
            } else {
                toks.push(Err('.'));
                i += 1;
            }
        }
        let mut k = 0;
        while k < toks.len() {
            if let Ok(mut v) = toks[k] {
                ks.insert(v);
                while k + 2 < toks.len() {
                    match (toks[k + 1], toks[k + 2]) {
                        (Err('*'), Ok(w)) => {
                            ks.insert(w);
                            v = v.saturating_mul(w);
                        }
                        (Err('<'), Ok(w)) if w < 40 => v <<= w,
                        _ => break,
                    }
                    k += 2;
                }
                ks.insert(v);
            }
            k += 1;
        }
    }
    let mut v: Vec<usize> = ks.into_iter().filter(|k| *k >= 64 && *k <= (1 << 20)).map(|k| k as usize).collect();
    v.sort();
    // the largest thresholds matter most; bound the work
    if v.len() > 6 {
        v = v[v.len() - 6..].to_vec();
    }
    v
}
/// the sizes worth trying around a threshold K
fn sizes_around(k: usize, dense: bool) -> Vec<usize> {
    let mut v: Vec<usize> = vec![];
    let lo = k.saturating_sub(70);
    v.extend(lo..=k + 10);
    let w = if dense { 12 } else { 6 };
    for c in [k * 3 / 4, k * 4 / 3, k / 2, k * 2] {
        v.extend(c.saturating_sub(w)..=c + w);
    }
    v.sort();
    v.dedup();
    v
}
/// trailers whose frame is 43 bytes, about 300 bytes, and longer than `k`
fn sized_trailers(which: usize, k: usize) -> Pairs {
    match which {
        0 => vec![(s("grpc-status"), b"0".to_vec()), (s("grpc-message"), b"12345678".to_vec())], // 5+15+23 = 43
        1 => vec![(s("grpc-status"), b"13".to_vec()), (s("grpc-message"), vec![b'm'; 262])],
        _ => vec![(s("grpc-status"), b"2".to_vec()), (s("x-pad"), vec![b'p'; k + 50])],
    }
}
/// one gRPC response of a message with an `n`-byte payload through the layer; `layout` 0 = the
/// frame is one inner chunk, 1 = header and payload are separate chunks, 2 = the payload arrives
/// in two halves; read by the plain consumer or by the hyper-like one
fn sized_response(kind: &str, n: usize, layout: usize, trailers: &Pairs, accept: Option<&str>, hyper: bool,
                  pend: &mut Vec<Pending>, out: &mut Out) {
    let fill = 0x61u8;
    let msgs = frame(0, &vec![fill; n]);
    let mut revs = match layout {
        0 => vec![E::Fr(0, n, fill)],
        1 => vec![E::D(msgs[..5].to_vec()), E::D(vec![fill; n])],
        _ => vec![E::D(msgs[..5].to_vec()), E::D(vec![fill; n / 2]), E::P, E::D(vec![fill; n - n / 2])],
    };
    revs.push(E::T(trailers.clone()));
    let m = pairs_to_map(trailers);
    let listed: Pairs = m.iter().map(|(k, v)| (k.as_str().to_string(), v.as_bytes().to_vec())).collect();
    out.hist("sized.response.consumer", if hyper { "hyper-like" } else { "poll-until-none" });
    if hyper {
        hyper_case_revs(kind, accept, &revs, 1, false, &msgs, &listed, pend, out);
    } else {
        let mut h = vec![(s("content-type"), WEB_TYPES[0].as_bytes().to_vec())];
        if let Some(a) = accept {
            h.push((s("accept"), a.as_bytes().to_vec()));
        }
        let c = Call { method: s("POST"), version: 2, headers: h, qevs: vec![], rstatus: 200, rheaders: vec![], revs };
        do_call(kind, &c, &Promise { req_payload: Some(vec![]), resp: Some((msgs, listed)), ..Default::default() }, pend, out);
    }
}
fn mined_sizes(r: &mut Rng, thorough: bool, pend: &mut Vec<Pending>, out: &mut Out) -> Vec<usize> {
    let ks = mine_constants();
    for &k in &ks {
        out.hist("sized.mined_constant", k);
        for (idx, n) in sizes_around(k, thorough).into_iter().enumerate() {
            // always: text mode, hyper-like consumer, every trailers size on the dense range
            let near = n + 80 >= k && n <= k + 10;
            for tw in 0..3usize {
                if !(thorough || near || idx % 4 == 0) {
                    continue;
                }
                // quick tier: every size of the dense range with one trailers size (rotating),
                // every fourth size with all three
                if !thorough && tw != idx % 3 && idx % 4 != 0 {
                    continue;
                }
                let tl = sized_trailers(tw, k);
                sized_response("eos.response_sized", n, (idx + tw) % 3, &tl, Some(WEB_TYPES[2]), true, pend, out);
                if (thorough && (idx + tw) % 2 == 0) || (idx + tw) % 5 == 0 {
                    sized_response("eos.response_sized", n, idx % 3, &tl, Some(WEB_TYPES[0]), true, pend, out);
                    sized_response("response.sized", n, idx % 3, &tl, Some(WEB_TYPES[3]), false, pend, out);
                    sized_response("response.sized", n, (idx + 1) % 3, &tl, None, false, pend, out);
                }
            }
            // requests of that size: text (base64) and binary, plain and hyper-like
            if (thorough && idx % 3 == 0) || idx % 6 == 0 {
                let p = frame(0, &vec![0u8; n]);
                let w = b64(&p);
                let cuts: Vec<usize> = [k.min(w.len().saturating_sub(1)), (k * 4 / 3).min(w.len().saturating_sub(1))]
                    .into_iter()
                    .filter(|c| *c > 0)
                    .collect::<std::collections::BTreeSet<_>>()
                    .into_iter()
                    .collect();
                request_case("request.sized_text", r, &p, true, &cuts, false, pend, out);
                request_hyper_case("eos.request_text_sized", r, Some(&p), &w, &cuts, 1, pend, out);
                let bc: Vec<usize> = [5usize, k.min(p.len() - 1)].into_iter().filter(|c| *c > 0 && *c < p.len()).collect::<std::collections::BTreeSet<_>>().into_iter().collect();
                request_case("request.sized_binary", r, &p, false, &bc, false, pend, out);
            }
        }
    }
    // uniform sweep of sizes up to three times the largest threshold
    let maxk = ks.iter().copied().max().unwrap_or(8192);
    let n_sweep = if thorough { 400 } else { 60 };
    for i in 0..n_sweep {
        let n = r.below(3 * maxk as u64 + 1) as usize;
        let tl = sized_trailers(r.below(3) as usize, *r.pick(&ks));
        let acc = *r.pick(&[Some(WEB_TYPES[2]), Some(WEB_TYPES[2]), Some(WEB_TYPES[0]), None]);
        sized_response(if i % 3 == 0 { "response.sized_sweep" } else { "eos.response_sized_sweep" }, n, r.below(3) as usize, &tl, acc, i % 3 != 0, pend, out);
    }
    ks
}

fn all_cut_sets(n: usize) -> Vec<Vec<usize>> {
    if n == 0 {
        return vec![vec![]];
    }
    (0u32..(1u32 << (n - 1))).map(|mask| (1..n).filter(|i| mask >> (i - 1) & 1 == 1).collect()).collect()
}

fn kind_table(r: &mut Rng, thorough: bool, pend: &mut Vec<Pending>, out: &mut Out) {
    let methods = ["POST", "GET", "PUT", "OPTIONS", "DELETE", "HEAD", "PATCH", "post", "POSTX", "CONNECT", "TRACE"];
    let cts: Vec<Option<Vec<Vec<u8>>>> = vec![
        None,
        Some(vec![b"application/grpc-web".to_vec()]),
        Some(vec![b"application/grpc-web+proto".to_vec()]),
        Some(vec![b"application/grpc-web-text".to_vec()]),
        Some(vec![b"application/grpc-web-text+proto".to_vec()]),
        Some(vec![b"application/grpc".to_vec()]),
        Some(vec![b"application/grpc+proto".to_vec()]),
        Some(vec![b"application/grpc-web+json".to_vec()]),
        Some(vec![b"application/grpc-web; charset=utf-8".to_vec()]),
        Some(vec![b"APPLICATION/GRPC-WEB".to_vec()]),
        Some(vec![b"application/grpc-web ".to_vec()]),
        Some(vec![b"text/html".to_vec()]),
        Some(vec![b"application/grpc-web\xff".to_vec()]),
        Some(vec![b"application/grpc-web".to_vec(), b"text/html".to_vec()]),
        Some(vec![b"text/html".to_vec(), b"application/grpc-web".to_vec()]),
        Some(vec![b"".to_vec()]),
    ];
    for m in methods {
        for v in 0..5u64 {
            for ct in &cts {
                if !thorough && m != "POST" && m != "GET" && r.chance(2, 3) {
                    continue;
                }
                let mut h: Pairs = vec![];
                if let Some(vs) = ct {
                    for x in vs {
                        h.push((s("content-type"), x.clone()));
                    }
                }
                if let Some(a) = r.pick(&ACCEPTS) {
                    h.push((s("accept"), a.as_bytes().to_vec()));
                }
                h.push((s("x-user"), b"u".to_vec()));
                let body = frame(0, b"ping");
                let c = Call {
                    method: s(m),
                    version: v,
                    headers: h,
                    qevs: vec![E::D(body.clone())],
                    rstatus: *r.pick(&[200u16, 200, 404, 500]),
                    rheaders: vec![(s("content-type"), b"application/grpc".to_vec()), (s("x-resp"), b"1".to_vec())],
                    revs: vec![E::D(frame(0, b"pong")), E::T(vec![(s("grpc-status"), b"0".to_vec())])],
                };
                // the body is a binary payload; it is a valid encoding only for the binary types
                let binary = matches!(ct, Some(vs) if vs[0] == b"application/grpc-web" || vs[0] == b"application/grpc-web+proto");
                let p = Promise {
                    req_payload: if binary { Some(body) } else { None },
                    resp: Some((frame(0, b"pong"), vec![(s("grpc-status"), b"0".to_vec())])),
                    ..Default::default()
                };
                do_call("table.kind", &c, &p, pend, out);
            }
        }
    }
}

fn corpus(r: &mut Rng, pend: &mut Vec<Pending>, out: &mut Out) {
    let hi = frame(0, b"hi");
    let t = vec![
        (s("grpc-status"), b"5".to_vec()),
        (s("grpc-message"), b"a:b c".to_vec()),
        (s("x-k"), b"1".to_vec()),
        (s("x-k"), b"2".to_vec()),
    ];
    for a in ACCEPTS {
        response_case("corpus.response", r, &hi, &t, &[], a, false, pend, out);
        response_case("corpus.response", r, &hi, &t, &[3], a, false, pend, out);
        response_case("corpus.response", r, &[], &t, &[], a, false, pend, out);
        response_case("corpus.response", r, &hi, &vec![], &[], a, false, pend, out);
    }
    // F-C16a (fix 2dcb76d4): an inner body with an EXACT size hint (http_body_util::Full +
    // with_trailers): one 6-byte message frame, then trailers; read by the hyper-like consumer
    // and through a real hyper HTTP/1.1 server connection.
    // F-C16b (fix 7e0a074f): the inner response carries `content-length: 6`.
    let f16 = frame(0, b"A");
    let t16: Pairs = vec![(s("grpc-status"), b"0".to_vec())];
    let revs16 = vec![E::D(f16.clone()), E::T(t16.clone())];
    let cl16: Pairs = vec![(s("content-type"), b"application/grpc".to_vec()), (s("content-length"), b"6".to_vec())];
    for acc in [None, Some(WEB_TYPES[0]), Some(WEB_TYPES[2]), Some(WEB_TYPES[3])] {
        for mode in [0u8, 1] {
            hyper_case_revs("corpus.F-C16a.size_hint", acc, &revs16, mode, true, &f16, &t16, pend, out);
        }
        wire_case("corpus.F-C16a.hyper_h1", acc, &vec![], &revs16, true, &f16, &t16, pend, out);
        wire_case("corpus.F-C16b.hyper_h1", acc, &cl16, &revs16, false, &f16, &t16, pend, out);
        let mut h = vec![(s("content-type"), WEB_TYPES[0].as_bytes().to_vec())];
        if let Some(a) = acc {
            h.push((s("accept"), a.as_bytes().to_vec()));
        }
        let c = Call { method: s("POST"), version: 2, headers: h, qevs: vec![], rstatus: 200, rheaders: cl16.clone(), revs: revs16.clone() };
        do_call("corpus.F-C16b.content_length", &c, &Promise { req_payload: Some(vec![]), resp: Some((f16.clone(), t16.clone())), ..Default::default() }, pend, out);
    }
    // three messages in several chunks with Pending, repeated trailer names, through hyper http1
    {
        let m3: Vec<u8> = [frame(0, b"hello"), frame(1, &[0x80, 0, 255]), frame(0, b"")].concat();
        let t3: Pairs = vec![(s("grpc-status"), b"5".to_vec()), (s("grpc-message"), b"a:b c".to_vec()), (s("x-k"), b"1".to_vec()), (s("x-k"), b"2".to_vec())];
        let mut revs = vec![E::D(m3[..3].to_vec()), E::P, E::D(m3[3..11].to_vec()), E::D(m3[11..].to_vec()), E::P];
        revs.push(E::T(t3.clone()));
        let m = pairs_to_map(&t3);
        let listed: Pairs = m.iter().map(|(k, v)| (k.as_str().to_string(), v.as_bytes().to_vec())).collect();
        for acc in [Some(WEB_TYPES[1]), Some(WEB_TYPES[2])] {
            for hint in [false, true] {
                wire_case("corpus.hyper_h1", acc, &vec![(s("x-resp"), b"1".to_vec())], &revs, hint, &m3, &listed, pend, out);
            }
        }
    }
    default_call_case(pend);
    // text requests cut inside a quantum
    for cut in 0..=8usize {
        let cuts: Vec<usize> = if cut == 0 || cut == 8 { vec![] } else { vec![cut] };
        request_case("corpus.request_text", r, &[0, 0, 0, 0, 1, 65], true, &cuts, false, pend, out);
    }
    request_case("corpus.request_text", r, &[], true, &[], false, pend, out);
    request_case("corpus.request_binary", r, &hi, false, &[2], false, pend, out);
    // padding lengths 0, 1, 2
    for n in 0..7usize {
        let p: Vec<u8> = (0..n as u8).collect();
        request_case("corpus.request_text", r, &p, true, &[], false, pend, out);
    }
}

/// things the property text does not decide (tie with the model only)
fn observe(r: &mut Rng, pend: &mut Vec<Pending>, out: &mut Out) {
    let base = |qevs: Vec<E>, text: bool, revs: Vec<E>, accept: Option<&str>| Call {
        method: s("POST"),
        version: 2,
        headers: {
            let mut h = vec![(s("content-type"), WEB_TYPES[if text { 2 } else { 0 }].as_bytes().to_vec())];
            if let Some(a) = accept {
                h.push((s("accept"), a.as_bytes().to_vec()));
            }
            h
        },
        qevs,
        rstatus: 200,
        rheaders: vec![],
        revs,
    };
    let ok = vec![E::T(vec![(s("grpc-status"), b"0".to_vec())])];
    let none = Promise::default();
    match r.below(10) {
        0 => {
            // a text request made of two padded segments: accepted or not depending on the chunking
            let a = b64(b"A");
            let b = b64(b"BC");
            let whole: Vec<u8> = [a.clone(), b.clone()].concat();
            let cuts = random_cuts(r, whole.len());
            let orig = Promise { req_original: Some(b"ABC".to_vec()), ..Default::default() };
            do_call("observe.text_request_two_segments", &base(chunks_at(&whole, &cuts), true, ok, None), &orig, pend, out);
        }
        1 => {
            // invalid characters / bad length
            let mut w = b64(&gen_payload(r));
            match r.below(4) {
                0 => w.push(b'Q'),
                1 => w.extend(b"Q="),
                2 => {
                    if !w.is_empty() {
                        let i = r.below(w.len() as u64) as usize;
                        w[i] = *r.pick(b"!*-_ \n");
                    }
                }
                _ => w.extend(b"===="),
            }
            let cuts = random_cuts(r, w.len());
            do_call("observe.text_request_malformed", &base(sprinkle(r, chunks_at(&w, &cuts)), true, ok, None), &none, pend, out);
        }
        2 => {
            let mut q = chunks_at(&b64(b"abcdef"), &[3]);
            q.push(E::T(vec![(s("x-t"), b"1".to_vec())]));
            do_call("observe.text_request_http_trailers", &base(q, true, ok, None), &none, pend, out);
        }
        3 => {
            let mut q = chunks_at(b"abcdef", &[3]);
            q.push(E::T(vec![(s("x-t"), b"1".to_vec())]));
            do_call("observe.binary_request_http_trailers", &base(q, false, ok, None), &none, pend, out);
        }
        4 => {
            let at = r.below(3) as usize;
            let mut q = chunks_at(&b64(b"abcdefgh"), &[2, 7]);
            q.insert(at, E::X);
            do_call("observe.request_body_error", &base(q, r.chance(1, 2), ok, None), &none, pend, out);
        }
        5 => {
            // response without trailers
            let m = gen_msgs(r);
            let plain = Promise { resp_plain: Some(m.clone()), ..Default::default() };
            do_call("observe.response_without_trailers", &base(vec![], false, chunks_at(&m, &random_cuts(r, m.len())), *r.pick(&ACCEPTS)), &plain, pend, out);
        }
        6 => {
            // response body error
            let m = gen_msgs(r);
            let mut e = chunks_at(&m, &random_cuts(r, m.len()));
            e.push(E::X);
            do_call("observe.response_body_error", &base(vec![], false, e, *r.pick(&ACCEPTS)), &none, pend, out);
        }
        7 => {
            // data after the trailers (an inner body that does not stop)
            let mut e = ok.clone();
            e.push(E::D(frame(0, b"late")));
            do_call("observe.response_data_after_trailers", &base(vec![], false, e, *r.pick(&ACCEPTS)), &none, pend, out);
        }
        8 if r.chance(1, 2) => {
            // a Trailers-Only response: grpc-status in the response HEADERS, empty body (what
            // tonic answers for `Err(Status)`): status and headers reach the caller, no body
            let revs = match r.below(3) {
                0 => vec![],
                1 => vec![E::P],
                _ => vec![E::D(vec![])],
            };
            let mut c = base(vec![], false, revs.clone(), *r.pick(&ACCEPTS));
            c.rheaders = vec![
                (s("content-type"), b"application/grpc".to_vec()),
                (s("grpc-status"), r.below(17).to_string().into_bytes()),
                (s("grpc-message"), gen_value(r)),
            ];
            if r.chance(1, 3) {
                c.rheaders.push((s("content-length"), b"0".to_vec()));
            }
            // an empty data frame is passed on as an empty data item: judged only when none is sent
            let p = Promise { trailers_only: !revs.iter().any(|e| matches!(e, E::D(_))), ..Default::default() };
            do_call("response.trailers_only", &c, &p, pend, out);
        }
        8 => {
            // other status codes / headers survive
            let mut c = base(vec![], false, ok, *r.pick(&ACCEPTS));
            c.rstatus = *r.pick(&[204u16, 404, 500, 503]);
            c.rheaders = vec![(s("content-type"), b"text/plain".to_vec()), (s("grpc-status"), b"12".to_vec())];
            do_call("observe.response_status_and_headers", &c, &none, pend, out);
        }
        _ => {
            // accept header with several values: only the first counts
            let mut c = base(vec![], false, ok, None);
            c.headers.push((s("accept"), b"text/html".to_vec()));
            c.headers.push((s("accept"), WEB_TYPES[2].as_bytes().to_vec()));
            do_call("observe.accept_second_value", &c, &none, pend, out);
        }
    }
}

fn main() {
    let a = args();
    let mut out = Out::new(&a.out);
    let mut r = Rng::new(a.seed);
    let mut pend: Vec<Pending> = vec![];
    let mut mined = json!([]);

    if let Some(f) = &a.replay {
        let v: Value = serde_json::from_str(&std::fs::read_to_string(f).unwrap()).unwrap();
        let kind = v["kind"].as_str().unwrap_or("replay").to_string();
        let inp = &v["input"];
        if let Some(h) = inp.get("hyper_request") {
            // the script is replayed as it is (no further Pending is sprinkled: mode 0 of sprinkle
            // is not guaranteed, so the events are fed directly)
            let qevs = evs_from_json(&h["qevs"]);
            let payload = h["payload"].as_str().map(unhex);
            request_hyper_evs(
                &kind,
                payload.as_deref(),
                qevs,
                h["eos_mode"].as_u64().unwrap_or(1) as u8,
                h["text"].as_bool().unwrap_or(true),
                h["hint"].as_bool().unwrap_or(false),
                &mut pend,
                &mut out,
            );
        } else if let Some(h) = inp.get("polls_request") {
            polls_request_case(&kind, evs_from_json(&h["qevs"]), h["text"].as_bool().unwrap_or(true), h["n"].as_u64().unwrap_or(10) as usize, &mut pend, &mut out);
        } else if let Some(h) = inp.get("polls_response") {
            polls_response_case(&kind, evs_from_json(&h["revs"]), h["text"].as_bool().unwrap_or(false), h["n"].as_u64().unwrap_or(10) as usize, &mut pend, &mut out);
        } else if inp.get("default_call").is_some() {
            default_call_case(&mut pend);
        } else if let Some(h) = inp.get("wire") {
            wire_case(
                &kind,
                h["accept"].as_str(),
                &pairs_from_json(&h["rheaders"]),
                &evs_from_json(&h["revs"]),
                h["hint"].as_bool().unwrap_or(false),
                &unhex(h["msgs"].as_str().unwrap_or("")),
                &pairs_from_json(&h["trailers"]),
                &mut pend,
                &mut out,
            );
        } else if let Some(h) = inp.get("hyper") {
            let revs = evs_from_json(&h["revs"]);
            hyper_case_revs(
                &kind,
                h["accept"].as_str(),
                &revs,
                h["eos_mode"].as_u64().unwrap_or(1) as u8,
                h["hint"].as_bool().unwrap_or(false),
                &unhex(h["msgs"].as_str().unwrap_or("")),
                &pairs_from_json(&h["trailers"]),
                &mut pend,
                &mut out,
            );
        } else {
        let c = Call::from_json(&inp["call"]);
        let p = Promise {
            req_payload: inp["req_payload"].as_str().map(unhex),
            resp: inp.get("resp").filter(|x| !x.is_null()).map(|x| (unhex(x["msgs"].as_str().unwrap()), pairs_from_json(&x["trailers"]))),
            req_original: inp["req_original"].as_str().map(unhex),
            resp_plain: inp["resp_plain"].as_str().map(unhex),
            trailers_only: inp["trailers_only"].as_bool().unwrap_or(false),
        };
        do_call(&kind, &c, &p, &mut pend, &mut out);
        }
    } else {
        let t = a.thorough;
        corpus(&mut r, &mut pend, &mut out);
        kind_table(&mut r, t, &mut pend, &mut out);

        // ---- responses: every chunking of small message streams, both encodings ----------------
        let small: Vec<Vec<u8>> = vec![frame(0, b"abc"), [frame(0, b""), frame(1, b"x")].concat(), frame(1, &[0x80, 0, 0])];
        let tr = vec![(s("grpc-status"), b"0".to_vec()), (s("x-k"), b"a:b".to_vec()), (s("x-k"), b"c d".to_vec())];
        for (i, m) in small.iter().enumerate() {
            if !t && i > 0 {
                break;
            }
            for cuts in all_cut_sets(m.len()) {
                for acc in [Some(WEB_TYPES[0]), Some(WEB_TYPES[2])] {
                    response_case("response.exhaustive", &mut r, m, &tr, &cuts, acc, false, &mut pend, &mut out);
                }
            }
        }
        let (n_resp, n_req, n_obs) = if t { (8000, 8000, 2500) } else { (500, 500, 250) };
        for _ in 0..n_resp {
            let m = gen_msgs(&mut r);
            let tl = gen_trailers(&mut r);
            let cuts = random_cuts(&mut r, m.len());
            let acc = *r.pick(&ACCEPTS);
            response_case("response.random", &mut r, &m, &tl, &cuts, acc, true, &mut pend, &mut out);
        }
        // ---- requests: text cut at every set of positions for small payloads --------------------
        let small_p: Vec<Vec<u8>> = vec![vec![0, 0, 0, 0, 1, 7], vec![1, 2, 3, 4], vec![0, 0, 0, 0, 2, 9, 9], vec![255; 5], vec![0, 0, 0, 0, 3, 1, 2, 3]];
        for (i, p) in small_p.iter().enumerate() {
            if !t && i > 1 {
                break;
            }
            for cuts in all_cut_sets(b64(p).len()) {
                request_case("request.text_exhaustive", &mut r, p, true, &cuts, false, &mut pend, &mut out);
            }
        }
        // all single and double cuts of a longer text body
        let lp: Vec<u8> = [frame(0, b"hello world"), frame(1, &[0, 255, 128, 7])].concat();
        let ln = b64(&lp).len();
        for c1 in 1..ln {
            request_case("request.text_single_cut", &mut r, &lp, true, &[c1], false, &mut pend, &mut out);
            // every pair of cuts (thorough); quick: the second cut 1..3 characters later (both
            // inside one quantum or in neighbouring quanta) and one far cut
            for c2 in c1 + 1..ln {
                if t || c2 <= c1 + 3 || c2 == (c1 + 17).min(ln - 1) {
                    request_case("request.text_double_cut", &mut r, &lp, true, &[c1, c2], false, &mut pend, &mut out);
                }
            }
        }
        for _ in 0..n_req {
            let p = gen_msgs(&mut r);
            let text = r.chance(2, 3);
            let wl = if text { b64(&p).len() } else { p.len() };
            let cuts = random_cuts(&mut r, wl);
            request_case(if text { "request.text_random" } else { "request.binary_random" }, &mut r, &p, text, &cuts, true, &mut pend, &mut out);
        }
        for _ in 0..n_obs {
            observe(&mut r, &mut pend, &mut out);
        }
        // ---- Body::is_end_stream / size_hint as hyper uses them -----------------------------------
        let n_eos = if t { 2000 } else { 200 };
        for i in 0..n_eos {
            let m = gen_msgs(&mut r);
            let tl = gen_trailers(&mut r);
            let cuts = random_cuts(&mut r, m.len());
            let acc = *r.pick(&[None, Some(WEB_TYPES[0]), Some(WEB_TYPES[2]), Some(WEB_TYPES[3])]);
            match i % 5 {
                0 => response_hyper_case("observe.eos_response_inner_breaks_contract", &mut r, &m, &tl, &cuts, acc, 2, false, &mut pend, &mut out),
                1 => {
                    let mode = *r.pick(&[0u8, 1, 1]);
                    response_hyper_case("eos.size_hint_exact_inner", &mut r, &m, &tl, &cuts, acc, mode, true, &mut pend, &mut out)
                }
                2 => response_hyper_case("eos.response_never", &mut r, &m, &tl, &cuts, acc, 0, false, &mut pend, &mut out),
                _ => response_hyper_case("eos.response", &mut r, &m, &tl, &cuts, acc, 1, false, &mut pend, &mut out),
            }
        }
        for _ in 0..n_eos {
            let p = gen_msgs(&mut r);
            let w = b64(&p);
            let cuts = random_cuts(&mut r, w.len());
            if r.chance(1, 4) {
                // a binary request body whose inner body announces its exact length
                let bc = random_cuts(&mut r, p.len());
                let qevs = sprinkle(&mut r, chunks_at(&p, &bc));
                let mode = *r.pick(&[0u8, 1, 1]);
                let hint = r.chance(2, 3);
                request_hyper_evs("eos.request_binary", Some(&p), qevs, mode, false, hint, &mut pend, &mut out);
            } else if r.chance(3, 4) {
                if r.chance(1, 3) {
                    let qevs = sprinkle(&mut r, chunks_at(&w, &cuts));
                    request_hyper_evs("eos.request_text", Some(&p), qevs, 1, true, true, &mut pend, &mut out);
                } else {
                    request_hyper_case("eos.request_text", &mut r, Some(&p), &w, &cuts, 1, &mut pend, &mut out);
                }
            } else {
                // leftover characters at EOF: is_end_stream must stay false until the error is out
                let mut w2 = w.clone();
                w2.extend(&b"QUJ"[..r.range(1, 3) as usize]);
                request_hyper_case("observe.eos_request_text_leftover", &mut r, None, &w2, &cuts, 1, &mut pend, &mut out);
            }
        }
        // ---- every poll result, errors are not final (post-error state of the bodies) ---------------
        let n_polls = if t { 1500 } else { 150 };
        for _ in 0..n_polls {
            let p = gen_msgs(&mut r);
            match r.below(5) {
                0 | 1 => {
                    // text request: valid, or damaged in one of the ways of observe.*; errors / HTTP trailers anywhere
                    let mut w = b64(&p);
                    match r.below(6) {
                        0 => w.extend(&b"QUJ"[..r.range(1, 3) as usize]),
                        1 => {
                            if !w.is_empty() {
                                let i = r.below(w.len() as u64) as usize;
                                w[i] = *r.pick(b"!*-_ =");
                            }
                        }
                        2 => w = [b64(b"A"), w, b64(b"BC")].concat(),
                        _ => {}
                    }
                    let cuts = random_cuts(&mut r, w.len());
                    let mut q = sprinkle(&mut r, chunks_at(&w, &cuts));
                    if r.chance(1, 3) {
                        let at = r.below(q.len() as u64 + 1) as usize;
                        q.insert(at, if r.chance(1, 2) { E::X } else { E::T(vec![(s("x-t"), b"1".to_vec())]) });
                    }
                    let n = (q.len() + w.len() / 4 + 3).min(90);
                    polls_request_case("polls.request_text", q, true, n, &mut pend, &mut out);
                }
                2 => {
                    let cuts = random_cuts(&mut r, p.len());
                    let mut q = sprinkle(&mut r, chunks_at(&p, &cuts));
                    if r.chance(1, 2) {
                        let at = r.below(q.len() as u64 + 1) as usize;
                        q.insert(at, if r.chance(1, 2) { E::X } else { E::T(vec![(s("x-t"), b"1".to_vec())]) });
                    }
                    let n = q.len() + 2;
                    polls_request_case("polls.request_binary", q, false, n, &mut pend, &mut out);
                }
                _ => {
                    let cuts = random_cuts(&mut r, p.len());
                    let mut e = sprinkle(&mut r, chunks_at(&p, &cuts));
                    if r.chance(1, 2) {
                        let at = r.below(e.len() as u64 + 1) as usize;
                        e.insert(at, E::X);
                    }
                    if r.chance(2, 3) {
                        e.push(E::T(gen_trailers(&mut r)));
                    }
                    if r.chance(1, 4) {
                        e.push(E::D(frame(0, b"late")));
                    }
                    let n = e.len() + 2;
                    polls_response_case("polls.response", e, r.chance(1, 2), n, &mut pend, &mut out);
                }
            }
        }
        // ---- random gRPC responses through a real hyper HTTP/1.1 server connection -------------------
        let n_wire = if t { 300 } else { 40 };
        for _ in 0..n_wire {
            let m = gen_msgs(&mut r);
            let tl = gen_trailers(&mut r);
            let cuts = random_cuts(&mut r, m.len());
            let mut revs = sprinkle(&mut r, chunks_at(&m, &cuts));
            revs.push(E::T(tl.clone()));
            let mp = pairs_to_map(&tl);
            let listed: Pairs = mp.iter().map(|(k, v)| (k.as_str().to_string(), v.as_bytes().to_vec())).collect();
            let acc = *r.pick(&[None, Some(WEB_TYPES[1]), Some(WEB_TYPES[2]), Some(WEB_TYPES[3])]);
            let rh = resp_headers(&mut r);
            let hint = r.chance(1, 2);
            wire_case("response.hyper_h1", acc, &rh, &revs, hint, &m, &listed, &mut pend, &mut out);
        }
        // ---- sizes around every numeric threshold of the source ------------------------------------
        let ks = mined_sizes(&mut r, t, &mut pend, &mut out);
        mined = json!(ks);
        // ---- frame lengths >= 65536, chunks above 8 KiB (BUFFER_SIZE) ------------------------------
        let t0 = vec![(s("grpc-status"), b"0".to_vec())];
        for (n, fill) in [(65_536usize, 0u8), (70_000, 0), (65_535, 0), (66_000, 7)] {
            // response: header chunk, payload in chunks of 9000 / 20000 / rest bytes
            let msgs = frame(0, &vec![fill; n]);
            let mut cuts = vec![5usize, 5 + 9_000, 5 + 29_000];
            cuts.retain(|c| *c < msgs.len());
            for acc in [Some(WEB_TYPES[0]), Some(WEB_TYPES[2])] {
                response_case("response.big_frame", &mut r, &msgs, &t0, &cuts, acc, false, &mut pend, &mut out);
            }
            // binary request with the same bytes
            request_case("request.big_frame_binary", &mut r, &msgs, false, &cuts, false, &mut pend, &mut out);
        }
        // text request: 49152 zero bytes after a header chunk: the base64 text is a run of 'A';
        // chunks of 20 KiB and 8193 characters, cut inside a quantum
        for n in [49_152usize - 5, 65_536] {
            let mut p = vec![0u8, 0, 0, 0, 0];
            p[1..5].copy_from_slice(&(n as u32).to_be_bytes());
            // a payload of zeros and a header whose own bytes are part of the same 3-byte groups
            p.extend(vec![0u8; n]);
            let wire_len = b64(&p).len();
            let cuts: Vec<usize> = [9usize, 9 + 20_481, 9 + 20_481 + 8_193].into_iter().filter(|c| *c < wire_len).collect();
            request_case("request.big_frame_text", &mut r, &p, true, &cuts, false, &mut pend, &mut out);
        }
        // ---- unpadded text requests (the Indifferent engine would accept them, the EOF check does not)
        let n_unp = if t { 400 } else { 60 };
        for _ in 0..n_unp {
            let mut p = gen_msgs(&mut r);
            if p.len() % 3 == 0 {
                p.push(9);
            }
            let mut w = b64(&p);
            while w.last() == Some(&b'=') {
                w.pop();
            }
            let cuts = random_cuts(&mut r, w.len());
            let c = Call {
                method: s("POST"),
                version: 2,
                headers: vec![(s("content-type"), WEB_TYPES[2].as_bytes().to_vec())],
                qevs: sprinkle(&mut r, chunks_at(&w, &cuts)),
                rstatus: 200,
                rheaders: vec![],
                revs: vec![E::T(t0.clone())],
            };
            do_call("observe.text_request_unpadded", &c, &Promise { req_original: Some(p.clone()), ..Default::default() }, &mut pend, &mut out);
        }
    }

    // ---- the independent python decoder, once for all response bodies ---------------------------
    let dir = a.out.clone();
    let inp = format!("{}/oracle_in.jsonl", dir);
    let outp = format!("{}/oracle_out.jsonl", dir);
    {
        use std::io::Write;
        let mut f = std::io::BufWriter::new(std::fs::File::create(&inp).unwrap());
        for (i, p) in pend.iter().enumerate() {
            if let Some(v) = &p.py {
                let mut v = v.clone();
                v["id"] = json!(i);
                writeln!(f, "{}", v).unwrap();
            }
        }
    }
    let script = std::env::var("VERIF_ORACLE").unwrap_or_else(|_| "/verif/oracle/grpcweb.py".to_string());
    let st = std::process::Command::new("python3").arg(&script).arg(&inp).arg(&outp).status();
    let mut verdicts = std::collections::HashMap::new();
    let mut oracle_ran = false;
    if matches!(st, Ok(s) if s.success()) {
        oracle_ran = true;
        for l in std::fs::read_to_string(&outp).unwrap().lines() {
            let v: Value = serde_json::from_str(l).unwrap();
            verdicts.insert(v["id"].as_u64().unwrap() as usize, (v["ok"].as_bool().unwrap(), v["why"].as_str().unwrap().to_string()));
        }
    }
    let mut decoded = 0u64;
    let mut done: Vec<Option<Case>> = vec![];
    for (i, mut p) in pend.into_iter().enumerate() {
        if p.py.is_some() && p.case.oracle.is_none() {
            match verdicts.get(&i) {
                Some((true, _)) => decoded += 1,
                Some((false, why)) => p.case.oracle = Some(format!("independent decoder: {}", why)),
                None => p.case.oracle = Some("the python oracle did not run".to_string()),
            }
        }
        done.push(Some(p.case));
    }
    // The driver evaluates the model in 16 shards of consecutive cases; the large sized cases are
    // generated in one block, so the cases are written in a stride-16 order (case i of the run
    // goes to shard i mod 16) to keep the shards balanced.  The order carries no meaning.
    let n = done.len();
    for j in 0..16 {
        let mut i = j;
        while i < n {
            out.push(done[i].take().unwrap());
            i += 16;
        }
    }
    out.finish(
        IMPORTS,
        "calls through the real GrpcWebLayer over a recording inner service: corpus (incl. the witnesses of F-C16a / F-C16b, also through a real hyper HTTP/1.1 server connection); the (method x version x content-type) table (11 methods x 5 versions x 16 content-type settings; quick tier: POST and GET rows complete, a random third of the other methods); responses = 0-4 message frames cut at arbitrary positions of the inner body (every cut set for small streams), Pending anywhere, trailers with repeated names / ':' / spaces, Accept in {absent, 4 grpc-web types, others}, inner response headers with and without a content-length; requests = binary and base64 text bodies cut at arbitrary positions (every cut set for small payloads, every single cut and - thorough: every, quick: near - double cuts of a longer one), Pending anywhere; eos.* = bodies read the way hyper reads them (is_end_stream, size_hint; inner bodies with and without an exact hint); polls.* = every poll result, errors not final (tie only); *.hyper_h1 = raw bytes of a hyper http1 connection; observe.* = inputs the property text does not decide (malformed / unpadded / multi-segment text, body errors, missing trailers): tie, plus the clauses 'nothing but a prefix of the original bytes arrives, a clean end only with all of them' and 'decodes to exactly the inner data bytes'. Oracle: oracle/grpcweb.py decodes every translated gRPC response body (python base64 + struct); request bytes / headers / content-type / content-length / size_hint / status table computed in the harness without tonic. Non-trivial = a body is present or the case is not a translation; distinct = distinct (kind, model expression).",
        json!({"python_oracle_ran": oracle_ran, "response_bodies_decoded_by_python": decoded, "mined_size_thresholds": mined}),
    );
}
