//! C01 (round trip) and C06 (size limits) correspondence harness.
//!
//! Puts the REAL `tonic::codec::EncodeBody::{new_server,new_client}` (scripted source stream)
//! and the REAL `tonic::codec::Streaming::{new_response,new_request}` back to back through a
//! scripted transport: the DATA frames of the sender are concatenated, re-cut at the cut points
//! of the case (also empty chunks, also inside the 5-byte prefix and inside compressed
//! payloads), delivered with the case's Pending pattern, then the sender's trailers block /
//! body error.  Two codecs: a raw byte codec and `tonic::codec::ProstCodec` over a hand-written
//! prost message (string, varint, repeated, nested, bytes).
//!
//! Model side (`obs_roundtrip`, Model/Codec.v): the encoder model |> transport |> decoder model
//! on the same source schedule, cuts and Pending pattern.
//!
//! ORACLE (model independent):
//!   c01.*  decoded == original messages, in order, then a clean end, no error; the
//!          concatenated encoder bytes are identical for a second, different source schedule
//!          and buffer setting of the same items
//!   c06.*  a message is accepted iff its ON-THE-WIRE payload length (what tonic puts behind the
//!          prefix for it - compressed when compression is in effect) is within the limit,
//!          otherwise OUT_OF_RANGE; every earlier message is delivered in order ahead of the
//!          status; nothing after it; on the receiving side the refusal comes with the poll that
//!          completes the prefix and without an allocation of the declared size
use bytes::{Buf, BufMut, Bytes};
use http::HeaderMap;
use http_body::Body as HttpBody;
use serde_json::{json, Value};
use std::collections::{HashMap, VecDeque};
use std::io::Read;
use std::pin::Pin;
use std::sync::atomic::{AtomicUsize, Ordering};
use std::task::{Context, Poll};
use tokio_stream::Stream;
use tonic::codec::{BufferSettings, CompressionEncoding, DecodeBuf, Decoder, EncodeBody, EncodeBuf, Encoder, ProstCodec, Streaming};
use tonic::Status;
use vcommon::body::{noop_waker, Ev, ScriptBody};
use vcommon::*;

const IMPORTS: &str =
    "From Verif Require Import Lib.Bytes Lib.Obs Lib.HeaderMap Model.Status Model.Decoder Model.Codec.";
const DEFAULT_DEC_LIMIT: usize = 4 * 1024 * 1024;

// ------------------------------------------------------------------ allocation meter
struct Meter;
static MAX_ALLOC: AtomicUsize = AtomicUsize::new(0);
unsafe impl std::alloc::GlobalAlloc for Meter {
    unsafe fn alloc(&self, l: std::alloc::Layout) -> *mut u8 {
        MAX_ALLOC.fetch_max(l.size(), Ordering::Relaxed);
        std::alloc::System.alloc(l)
    }
    unsafe fn dealloc(&self, p: *mut u8, l: std::alloc::Layout) {
        std::alloc::System.dealloc(p, l)
    }
    unsafe fn realloc(&self, p: *mut u8, l: std::alloc::Layout, n: usize) -> *mut u8 {
        MAX_ALLOC.fetch_max(n, Ordering::Relaxed);
        std::alloc::System.realloc(p, l, n)
    }
}
#[global_allocator]
static METER: Meter = Meter;

// ------------------------------------------------------------------ codecs
struct RawEnc(BufferSettings);
impl Encoder for RawEnc {
    type Item = Vec<u8>;
    type Error = Status;
    fn encode(&mut self, item: Vec<u8>, dst: &mut EncodeBuf<'_>) -> Result<(), Status> {
        if item.first() == Some(&0xFE) {
            return Err(Status::data_loss("boom"));
        }
        dst.put_slice(&item);
        Ok(())
    }
    fn buffer_settings(&self) -> BufferSettings {
        self.0
    }
}
struct RawDec(BufferSettings);
impl Decoder for RawDec {
    type Item = Vec<u8>;
    type Error = Status;
    fn decode(&mut self, src: &mut DecodeBuf<'_>) -> Result<Option<Vec<u8>>, Status> {
        let n = src.remaining();
        let b = src.copy_to_bytes(n);
        if b.first() == Some(&0xFF) {
            Err(Status::internal("undecodable payload"))
        } else {
            Ok(Some(b.to_vec()))
        }
    }
    fn buffer_settings(&self) -> BufferSettings {
        self.0
    }
}

#[derive(Clone, PartialEq, prost::Message)]
struct Inner {
    #[prost(string, tag = "1")]
    name: String,
    #[prost(sint64, tag = "2")]
    delta: i64,
}
#[derive(Clone, PartialEq, prost::Message)]
struct TestMsg {
    #[prost(string, tag = "1")]
    s: String,
    #[prost(uint64, tag = "2")]
    n: u64,
    #[prost(uint32, repeated, tag = "3")]
    r: Vec<u32>,
    #[prost(message, optional, tag = "4")]
    inner: Option<Inner>,
    #[prost(bytes = "vec", tag = "5")]
    blob: Vec<u8>,
    #[prost(message, repeated, tag = "6")]
    kids: Vec<Inner>,
}
fn gen_inner(r: &mut Rng) -> Inner {
    let names = ["", "a", "k\u{e9}y", "nested-name", "\u{1F600}"];
    Inner { name: r.pick(&names).to_string(), delta: *r.pick(&[0i64, 1, -1, 63, -64, i64::MAX, i64::MIN, 1 << 33]) }
}
fn gen_testmsg(r: &mut Rng, big: bool) -> TestMsg {
    let strs = ["", "x", "hello", "gr\u{fc}\u{df}e", "a longer string with spaces and \u{2603}"];
    let blob_len = if big { *r.pick(&[200usize, 1000, 3000]) } else { *r.pick(&[0usize, 0, 1, 5, 40]) };
    TestMsg {
        s: r.pick(&strs).to_string(),
        n: *r.pick(&[0u64, 1, 127, 128, 300, 1 << 32, u64::MAX]),
        r: (0..r.below(5)).map(|_| *r.pick(&[0u32, 1, 127, 128, 16384, u32::MAX])).collect(),
        inner: if r.chance(1, 2) { Some(gen_inner(r)) } else { None },
        blob: r.bytes(blob_len),
        kids: (0..r.below(3)).map(|_| gen_inner(r)).collect(),
    }
}

// ------------------------------------------------------------------ messages as data
/// a message of the raw codec (for the prost codec: the encoding of the prost message), in a
/// form that has a short Gallina expression also when it is large
#[derive(Clone, Debug, PartialEq)]
enum Msg {
    Lit(Vec<u8>),
    Rep(usize, u8),
    /// low byte of a 32-bit xorshift generator: does not compress
    Lcg(usize, u32),
}
impl Msg {
    fn bytes(&self) -> Vec<u8> {
        match self {
            Msg::Lit(v) => v.clone(),
            Msg::Rep(n, b) => vec![*b; *n],
            Msg::Lcg(n, seed) => {
                let mut x = *seed;
                (0..*n)
                    .map(|_| {
                        x ^= x << 13;
                        x ^= x >> 17;
                        x ^= x << 5;
                        x as u8
                    })
                    .collect()
            }
        }
    }
    fn coq(&self) -> String {
        match self {
            Msg::Lit(v) => coq_bytes(v),
            Msg::Rep(n, b) => format!("(rep {} {})", n, b),
            Msg::Lcg(n, s) => format!("(noise {} {})", n, s),
        }
    }
    fn json(&self) -> Value {
        match self {
            Msg::Lit(v) => json!(hex(v)),
            Msg::Rep(n, b) => json!({"rep": [n, b]}),
            Msg::Lcg(n, s) => json!({"lcg": [n, s]}),
        }
    }
    fn from_json(v: &Value) -> Msg {
        if let Some(s) = v.as_str() {
            Msg::Lit(unhex(s))
        } else if let Some(r) = v.get("rep") {
            Msg::Rep(r[0].as_u64().unwrap() as usize, r[1].as_u64().unwrap() as u8)
        } else {
            let r = &v["lcg"];
            Msg::Lcg(r[0].as_u64().unwrap() as usize, r[1].as_u64().unwrap() as u32)
        }
    }
}

/// an LCG message whose first byte is not one of the two bytes the raw codec refuses
fn lcg_msg(n: usize, seed: u32) -> Msg {
    let mut s = seed.max(1);
    loop {
        let m = Msg::Lcg(n, s);
        if n == 0 || Msg::Lcg(1, s).bytes()[0] < 0xFE {
            return m;
        }
        s += 1;
    }
}

#[derive(Clone, Copy, Debug, PartialEq, Eq, Hash)]
enum Enc {
    Gzip,
    Deflate,
    Zstd,
}
const ENCS: [Enc; 3] = [Enc::Gzip, Enc::Deflate, Enc::Zstd];
impl Enc {
    fn num(self) -> u8 {
        match self {
            Enc::Gzip => 0,
            Enc::Deflate => 1,
            Enc::Zstd => 2,
        }
    }
    fn name(self) -> &'static str {
        match self {
            Enc::Gzip => "gzip",
            Enc::Deflate => "deflate",
            Enc::Zstd => "zstd",
        }
    }
    fn from_name(s: &str) -> Option<Enc> {
        ENCS.iter().copied().find(|e| e.name() == s)
    }
    fn tonic(self) -> CompressionEncoding {
        match self {
            Enc::Gzip => CompressionEncoding::Gzip,
            Enc::Deflate => CompressionEncoding::Deflate,
            Enc::Zstd => CompressionEncoding::Zstd,
        }
    }
    /// the library called directly (cross-check of what is on the wire)
    fn decompress(self, b: &[u8]) -> Option<Vec<u8>> {
        let mut out = vec![];
        let r = match self {
            Enc::Gzip => flate2::read::GzDecoder::new(b).read_to_end(&mut out).map(|_| ()),
            Enc::Deflate => flate2::read::ZlibDecoder::new(b).read_to_end(&mut out).map(|_| ()),
            Enc::Zstd => zstd::stream::read::Decoder::new(b).and_then(|mut d| d.read_to_end(&mut out).map(|_| ())),
        };
        r.ok().map(|_| out)
    }
}

#[derive(Clone, Debug)]
struct Case {
    prost: bool,
    comp: Option<Enc>,
    override_disable: bool,
    max: Option<usize>,
    bs: (usize, usize),
    server: bool,
    dmax: Option<usize>,
    /// None = the source answers Pending
    src: Vec<Option<Msg>>,
    cuts: Vec<usize>,
    pend: Vec<usize>,
}
impl Case {
    fn eff(&self) -> Option<Enc> {
        if self.override_disable {
            None
        } else {
            self.comp
        }
    }
    fn msgs(&self) -> Vec<Msg> {
        self.src.iter().flatten().cloned().collect()
    }
    fn json(&self) -> Value {
        json!({"prost": self.prost, "comp": self.comp.map(|e| e.name()), "override_disable": self.override_disable,
               "max": self.max, "bs": [self.bs.0, self.bs.1], "server": self.server, "dmax": self.dmax,
               "src": self.src.iter().map(|o| o.as_ref().map(|m| m.json()).unwrap_or(json!("P"))).collect::<Vec<_>>(),
               "cuts": self.cuts, "pend": self.pend})
    }
    fn from_json(v: &Value) -> Case {
        let us = |x: &Value| x.as_array().unwrap().iter().map(|y| y.as_u64().unwrap() as usize).collect::<Vec<_>>();
        Case {
            prost: v["prost"].as_bool().unwrap_or(false),
            comp: v["comp"].as_str().and_then(Enc::from_name),
            override_disable: v["override_disable"].as_bool().unwrap_or(false),
            max: v["max"].as_u64().map(|x| x as usize),
            bs: (v["bs"][0].as_u64().unwrap() as usize, v["bs"][1].as_u64().unwrap() as usize),
            server: v["server"].as_bool().unwrap(),
            dmax: v["dmax"].as_u64().map(|x| x as usize),
            src: v["src"].as_array().unwrap().iter().map(|e| if e.as_str() == Some("P") { None } else { Some(Msg::from_json(e)) }).collect(),
            cuts: us(&v["cuts"]),
            pend: us(&v["pend"]),
        }
    }
}

// ------------------------------------------------------------------ scripted source
/// A STRICT source: tonic's encoder must never poll its message source again once it has
/// answered Ready(None) (a legal stream may panic then - futures `unfold` does - or produce
/// further items).  Every poll after the end is counted; it is answered with a poison item or,
/// in panic mode, with a panic.
static POLLED_AFTER_END: AtomicUsize = AtomicUsize::new(0);
static STRICT_PANICS: std::sync::atomic::AtomicBool = std::sync::atomic::AtomicBool::new(false);
struct Script<M> {
    evs: VecDeque<Option<M>>,
    ended: bool,
    poison: Option<M>,
}
impl<M: Unpin + Clone> Stream for Script<M> {
    type Item = Result<M, Status>;
    fn poll_next(mut self: Pin<&mut Self>, cx: &mut Context<'_>) -> Poll<Option<Self::Item>> {
        if self.ended {
            POLLED_AFTER_END.fetch_add(1, Ordering::SeqCst);
            if STRICT_PANICS.load(Ordering::SeqCst) {
                panic!("the message source was polled again after it had returned None");
            }
            return match self.poison.clone() {
                Some(m) => Poll::Ready(Some(Ok(m))),
                None => Poll::Ready(Some(Err(Status::data_loss("the message source was polled again after it had returned None")))),
            };
        }
        match self.evs.pop_front() {
            Some(None) => {
                cx.waker().wake_by_ref();
                Poll::Pending
            }
            Some(Some(m)) => Poll::Ready(Some(Ok(m))),
            None => {
                self.ended = true;
                Poll::Ready(None)
            }
        }
    }
}

#[derive(Clone, Debug)]
enum Fr {
    Data(Vec<u8>),
    Trailers(HeaderMap),
    Err(Status),
}
/// poll the sending body until its first None (at most `budget` polls)
fn collect_frames<B>(body: B, budget: usize) -> Result<(Vec<Fr>, bool), String>
where
    B: HttpBody<Data = Bytes, Error = Status>,
{
    let mut body = Box::pin(body);
    let w = noop_waker();
    let mut cx = Context::from_waker(&w);
    let mut out = vec![];
    for _ in 0..budget {
        let r = catch(std::panic::AssertUnwindSafe(|| body.as_mut().poll_frame(&mut cx)))?;
        match r {
            Poll::Pending => {}
            Poll::Ready(None) => return Ok((out, true)),
            Poll::Ready(Some(Err(st))) => out.push(Fr::Err(st)),
            Poll::Ready(Some(Ok(f))) => match f.into_data() {
                Ok(d) => out.push(Fr::Data(d.to_vec())),
                Err(f) => match f.into_trailers() {
                    Ok(t) => out.push(Fr::Trailers(t)),
                    Err(_) => return Err("frame that is neither data nor trailers".into()),
                },
            },
        }
    }
    Ok((out, false))
}
fn encode_with<E>(enc: E, src: Vec<Option<E::Item>>, c: &Case, max: Option<usize>) -> Result<(Vec<Fr>, bool), String>
where
    E: Encoder<Error = Status> + Send + 'static,
    E::Item: Unpin + Clone + Send + 'static,
{
    let budget = src.len() + 3;
    // the poison item is a copy of the last message (a distinct value cannot be made for every codec)
    let poison = src.iter().rev().flatten().next().cloned();
    let script = Script { evs: src.into_iter().collect(), ended: false, poison };
    let comp = c.comp.map(|e| e.tonic());
    if c.server {
        if c.override_disable {
            let mut r = tonic::Response::new(());
            r.disable_compression();
            let ov = *r.extensions().get().expect("override extension");
            collect_frames(EncodeBody::new_server(enc, script, comp, ov, max), budget)
        } else {
            collect_frames(EncodeBody::new_server(enc, script, comp, Default::default(), max), budget)
        }
    } else {
        collect_frames(EncodeBody::new_client(enc, script, comp, max), budget)
    }
}

#[derive(Clone, Debug, PartialEq)]
enum R<M> {
    Pending,
    Ok(M),
    Err(i32),
    Done,
}
/// Model/Decoder.v `digest` (kind c06.declared, obs_decode)
fn digest(p: &[u8]) -> u64 {
    let mut h: u64 = 7;
    for b in p {
        h = (h * 31 + *b as u64 + 1) % 4294967291;
    }
    h
}
/// Model/Codec.v `rx32` (obs_roundtrip)
fn rx32(p: &[u8]) -> u64 {
    let mut h: u32 = 7;
    for b in p {
        h = h.rotate_left(5) ^ (*b as u32);
    }
    h as u64
}
fn r_tr2(r: &R<Vec<u8>>) -> Tr {
    match r {
        R::Ok(p) if p.len() > 4096 => Tr::L(vec![Tr::n(1u8), Tr::n(p.len() as u64), Tr::n(rx32(p))]),
        _ => r_tr(r),
    }
}
fn r_tr(r: &R<Vec<u8>>) -> Tr {
    match r {
        R::Pending => Tr::L(vec![Tr::n(0u8)]),
        R::Ok(p) if p.len() > 4096 => Tr::L(vec![Tr::n(1u8), Tr::n(p.len() as u64), Tr::n(digest(p))]),
        R::Ok(p) => Tr::L(vec![Tr::n(1u8), Tr::b(p)]),
        R::Err(c) => Tr::L(vec![Tr::n(2u8), Tr::n(*c as u32)]),
        R::Done => Tr::L(vec![Tr::n(3u8)]),
    }
}
/// poll the receiving stream until Ready(None), at most `fuel` polls
fn decode_with<D>(dec: D, script: Vec<Ev<Status>>, c: &Case, fuel: usize) -> Result<(Vec<R<D::Item>>, bool, usize), String>
where
    D: Decoder<Error = Status> + Send + 'static,
    D::Item: Send + 'static,
{
    vcommon::body::set_eager_eos(EOS_FLIP.fetch_add(1, Ordering::SeqCst) % 2 == 1);
    let (body, pae) = ScriptBody::new(script);
    let enc = c.comp.map(|e| e.tonic());
    let dmax = c.dmax;
    let server = c.server;
    catch(std::panic::AssertUnwindSafe(move || {
        let mut s: Streaming<D::Item> = if server {
            Streaming::new_response(dec, body, http::StatusCode::OK, enc, dmax)
        } else {
            Streaming::new_request(dec, body, enc, dmax)
        };
        let w = noop_waker();
        let mut cx = Context::from_waker(&w);
        let mut out = vec![];
        let mut done = false;
        for _ in 0..fuel {
            let r = match Pin::new(&mut s).poll_next(&mut cx) {
                Poll::Pending => R::Pending,
                Poll::Ready(None) => R::Done,
                Poll::Ready(Some(Ok(m))) => R::Ok(m),
                Poll::Ready(Some(Err(st))) => {
                    if std::env::var("VERIF_DEBUG").is_ok() {
                        eprintln!("decoder error: {:?}", st);
                    }
                    R::Err(st.code() as i32)
                }
            };
            let d = matches!(r, R::Done);
            out.push(r);
            if d {
                done = true;
                break;
            }
        }
        (out, done, pae.load(Ordering::SeqCst))
    }))
}

fn cut_chunks(cuts: &[usize], data: &[u8]) -> Vec<Vec<u8>> {
    let mut rest = data;
    let mut out = vec![];
    for &n in cuts {
        let k = n.min(rest.len());
        out.push(rest[..k].to_vec());
        rest = &rest[k..];
    }
    if !rest.is_empty() {
        out.push(rest.to_vec());
    }
    out
}
fn transport(c: &Case, frames: &[Fr]) -> Vec<Ev<Status>> {
    let mut data = vec![];
    let mut tail = vec![];
    for f in frames {
        match f {
            Fr::Data(d) => data.extend_from_slice(d),
            Fr::Trailers(t) => tail.push(Ev::Trailers(t.clone())),
            Fr::Err(s) => tail.push(Ev::Err(s.clone())),
        }
    }
    let mut evs: Vec<Ev<Status>> = cut_chunks(&c.cuts, &data).into_iter().map(Ev::Data).collect();
    evs.extend(tail);
    let mut out = vec![];
    for (i, e) in evs.into_iter().enumerate() {
        for _ in 0..c.pend.get(i).copied().unwrap_or(0) {
            out.push(Ev::Pending);
        }
        out.push(e);
    }
    out
}
fn split_frames(b: &[u8]) -> Vec<(u8, Vec<u8>)> {
    let mut out = vec![];
    let mut i = 0;
    while b.len() - i >= 5 {
        let len = u32::from_be_bytes([b[i + 1], b[i + 2], b[i + 3], b[i + 4]]) as usize;
        if b.len() - i - 5 < len {
            break;
        }
        out.push((b[i], b[i + 5..i + 5 + len].to_vec()));
        i += 5 + len;
    }
    out
}

// ------------------------------------------------------------------ what tonic puts on the wire for one message
/// the payload tonic itself writes behind the prefix for `m` under (encoding, buffer size):
/// ground truth for "on-the-wire length" (cross-checked against the library called directly)
static PROBE_ANOMALIES: std::sync::Mutex<Vec<(String, String)>> = std::sync::Mutex::new(Vec::new());
fn probe_anomaly(what: String, e: Option<Enc>, m: &[u8]) {
    let input = format!("{{\"encoding\":\"{:?}\",\"message_len\":{},\"message_head\":{:?}}}", e, m.len(), &m[..m.len().min(32)]);
    let mut a = PROBE_ANOMALIES.lock().unwrap();
    if a.len() < 16 {
        a.push((what, input));
    }
}
struct WireCache(HashMap<(Option<Enc>, Vec<u8>), Vec<u8>>);
impl WireCache {
    fn payload(&mut self, e: Option<Enc>, m: &[u8]) -> Vec<u8> {
        if let Some(p) = self.0.get(&(e, m.to_vec())) {
            return p.clone();
        }
        // the probe must not die in panic mode (it is not what is being judged)
        let was = STRICT_PANICS.swap(false, Ordering::SeqCst);
        let probe = Case { prost: false, comp: e, override_disable: false, max: None, bs: (8192, 32768), server: false, dmax: None, src: vec![], cuts: vec![], pend: vec![] };
        // The probe never panics: it is not what is being judged, and a change of tonic that makes
        // it fail must surface as an oracle verdict with an input, not as a harness crash.
        let frames = match encode_with(RawEnc(BufferSettings::new(8192, 32768)), vec![Some(m.to_vec())], &probe, None) {
            Ok((f, _)) => f,
            Err(w) => {
                probe_anomaly(format!("encoding one {}-byte message under {:?} failed: {}", m.len(), e, w), e, m);
                vec![]
            }
        };
        let mut data = vec![];
        for f in &frames {
            if let Fr::Data(d) = f {
                data.extend_from_slice(d);
            }
        }
        let fr = split_frames(&data);
        let p = match fr.first() {
            Some((flag, p)) => {
                match (e, *flag) {
                    // a compressed payload must inflate to the message (library called directly)
                    (Some(enc), 1) => {
                        if enc.decompress(p).as_deref() != Some(m) {
                            probe_anomaly(format!("a lone {}-byte message under {:?}: the flagged payload does not inflate to the message", m.len(), enc), e, m);
                        }
                    }
                    // flag 0 is legal for any message (it then travels as it is)
                    (_, 0) => {
                        if p.as_slice() != m {
                            probe_anomaly(format!("a lone {}-byte message under {:?}: flag 0 but the payload is not the message", m.len(), e), e, m);
                        }
                    }
                    (_, f) => probe_anomaly(format!("a lone {}-byte message under {:?}: flag byte {}", m.len(), e, f), e, m),
                }
                p.clone()
            }
            None => {
                probe_anomaly(format!("a lone {}-byte message under {:?} produced no complete frame", m.len(), e), e, m);
                m.to_vec()
            }
        };
        self.0.insert((e, m.to_vec()), p.clone());
        STRICT_PANICS.store(was, Ordering::SeqCst);
        p
    }
}

// ------------------------------------------------------------------ one round-trip case
fn frame_tr(f: &Fr) -> Tr {
    match f {
        Fr::Data(d) => Tr::L(vec![Tr::n(2u8), Tr::n(d.len() as u64)]),
        Fr::Trailers(t) => Tr::L(vec![Tr::n(3u8), hm_tr(t)]),
        Fr::Err(s) => Tr::L(vec![Tr::n(4u8), Tr::n(s.code() as i32 as u32)]),
    }
}
fn data_of(frames: &[Fr]) -> Vec<u8> {
    let mut v = vec![];
    for f in frames {
        if let Fr::Data(d) = f {
            v.extend_from_slice(d);
        }
    }
    v
}
fn bucket(n: usize) -> String {
    match n {
        0 => "0".into(),
        1 => "1".into(),
        2..=4 => "2-4".into(),
        5..=9 => "5-9".into(),
        10..=99 => "10-99".into(),
        100..=4095 => "100-4095".into(),
        4096..=32768 => "4096-32768".into(),
        32769..=131072 => "32K-128K".into(),
        _ => ">128K".into(),
    }
}

fn run_case(out: &mut Out, wc: &mut WireCache, kind: &str, c: &Case) {
    let msgs = c.msgs();
    let mbytes: Vec<Vec<u8>> = msgs.iter().map(|m| m.bytes()).collect();
    let bs = BufferSettings::new(c.bs.0, c.bs.1);
    let fuel_script = |n_events: usize| n_events + msgs.len() + 3;
    // ---- implementation
    let mut oracle: Option<String> = None;
    POLLED_AFTER_END.store(0, Ordering::SeqCst);
    // alternate: poison items / a panic when the finished source is polled again
    STRICT_PANICS.store((msgs.len() + c.cuts.len() + c.pend.len()) % 2 == 1, Ordering::SeqCst);
    let (frames, trace, drained): (Vec<Fr>, Vec<R<Vec<u8>>>, bool);
    // second encoding run: no Pending in the source, other buffer settings
    let alt_bs = if c.bs == (8192, 32768) { BufferSettings::new(1, 0) } else { BufferSettings::new(8192, 32768) };
    let alt_frames;
    if c.prost {
        let typed: Vec<TestMsg> = mbytes.iter().map(|b| <TestMsg as prost::Message>::decode(&b[..]).expect("generated prost bytes decode")).collect();
        let mut it = typed.iter().cloned();
        let src: Vec<Option<TestMsg>> = c.src.iter().map(|o| o.as_ref().map(|_| it.next().unwrap())).collect();
        let enc = ProstCodec::<TestMsg, TestMsg>::raw_encoder(bs);
        let (fr, ended) = match encode_with(enc, src, c, c.max) {
            Ok(x) => x,
            Err(p) => return push_panic(out, kind, c, &format!("encoder panicked: {}", p)),
        };
        if !ended {
            oracle = Some("the sending body never returned None".into());
        }
        alt_frames = encode_with(ProstCodec::<TestMsg, TestMsg>::raw_encoder(alt_bs), typed.iter().cloned().map(Some).collect(), c, c.max).map(|x| x.0);
        let script = transport(c, &fr);
        let fuel = fuel_script(script.len());
        let dec = ProstCodec::<TestMsg, TestMsg>::raw_decoder(bs);
        let (tr, dr, _) = match decode_with(dec, script, c, fuel) {
            Ok(x) => x,
            Err(p) => return push_panic(out, kind, c, &format!("decoder panicked: {}", p)),
        };
        // typed comparison for the oracle, bytes for the observable
        let got: Vec<&TestMsg> = tr.iter().filter_map(|r| if let R::Ok(m) = r { Some(m) } else { None }).collect();
        if kind.starts_with("c01") && oracle.is_none() && (got.len() != typed.len() || got.iter().zip(typed.iter()).any(|(a, b)| *a != b)) {
            oracle = Some("prost: decoded messages differ from the originals".into());
        }
        frames = fr;
        trace = tr
            .into_iter()
            .map(|r| match r {
                R::Ok(m) => R::Ok(prost::Message::encode_to_vec(&m)),
                R::Pending => R::Pending,
                R::Err(c) => R::Err(c),
                R::Done => R::Done,
            })
            .collect();
        drained = dr;
    } else {
        let mut it = mbytes.iter().cloned();
        let src: Vec<Option<Vec<u8>>> = c.src.iter().map(|o| o.as_ref().map(|_| it.next().unwrap())).collect();
        let (fr, ended) = match encode_with(RawEnc(bs), src, c, c.max) {
            Ok(x) => x,
            Err(p) => return push_panic(out, kind, c, &format!("encoder panicked: {}", p)),
        };
        if !ended {
            oracle = Some("the sending body never returned None".into());
        }
        alt_frames = encode_with(RawEnc(alt_bs), mbytes.iter().cloned().map(Some).collect(), c, c.max).map(|x| x.0);
        let script = transport(c, &fr);
        let fuel = fuel_script(script.len());
        let (tr, dr, _) = match decode_with(RawDec(bs), script, c, fuel) {
            Ok(x) => x,
            Err(p) => return push_panic(out, kind, c, &format!("decoder panicked: {}", p)),
        };
        frames = fr;
        trace = tr;
        drained = dr;
    }
    let wire = data_of(&frames);
    let polled_after_end = POLLED_AFTER_END.load(Ordering::SeqCst);
    if oracle.is_none() && polled_after_end > 0 {
        oracle = Some(format!("the encoder polled its message source {} time(s) after the source had returned None", polled_after_end));
    }
    out.hist(&format!("{}.strict_source_mode", kind.split('.').next().unwrap_or("c01")), if STRICT_PANICS.load(Ordering::SeqCst) { "panic after end" } else { "poison after end" });
    // ---- the property's direct verdict
    let enc_limit = c.max.unwrap_or(usize::MAX);
    let dec_limit = c.dmax.unwrap_or(DEFAULT_DEC_LIMIT);
    let wire_lens: Vec<usize> = mbytes.iter().map(|m| wc.payload(c.eff(), m).len()).collect();
    let stop_enc = wire_lens.iter().position(|l| *l > enc_limit);
    let stop_dec = wire_lens.iter().position(|l| *l > dec_limit);
    let stop = match (stop_enc, stop_dec) {
        (Some(a), Some(b)) => Some(a.min(b)),
        (a, b) => a.or(b),
    };
    let delivered: Vec<&Vec<u8>> = trace.iter().filter_map(|r| if let R::Ok(m) = r { Some(m) } else { None }).collect();
    let visible: Vec<&R<Vec<u8>>> = trace.iter().filter(|r| !matches!(r, R::Pending)).collect();
    if oracle.is_none() {
        let want_n = stop.unwrap_or(mbytes.len());
        if !drained {
            oracle = Some("the receiving stream did not reach Ready(None) within its poll budget".into());
        } else if delivered.len() != want_n || delivered.iter().zip(mbytes.iter()).any(|(a, b)| *a != b) {
            oracle = Some(format!("delivered {} messages (or different ones), expected the first {} of the {} sent", delivered.len(), want_n, mbytes.len()));
        } else {
            let tail: Vec<&R<Vec<u8>>> = visible[want_n.min(visible.len())..].to_vec();
            match stop {
                None => {
                    if !(tail.len() == 1 && matches!(tail[0], R::Done)) {
                        oracle = Some(format!("after the messages: {:?}, expected a clean end", short(&tail)));
                    }
                }
                Some(_) => {
                    if !(tail.len() == 2 && matches!(tail[0], R::Err(11)) && matches!(tail[1], R::Done)) {
                        oracle = Some(format!("after the accepted messages: {:?}, expected Err(OUT_OF_RANGE) then the end", short(&tail)));
                    }
                }
            }
        }
    }
    if oracle.is_none() {
        // what is on the wire is exactly the accepted prefix on the sending side
        let sent_n = stop_enc.unwrap_or(mbytes.len());
        let fr = split_frames(&wire);
        let flag = c.eff().is_some() as u8;
        if fr.len() != sent_n || fr.iter().map(|f| f.1.len() + 5).sum::<usize>() != wire.len() {
            oracle = Some(format!("{} whole frames on the wire, expected {}", fr.len(), sent_n));
        } else if fr.iter().any(|f| f.0 != flag) {
            oracle = Some("a frame carries the wrong compressed-flag".into());
        } else if let Some(e) = c.eff() {
            if fr.iter().zip(mbytes.iter()).any(|(f, m)| e.decompress(&f.1).as_ref() != Some(m)) {
                oracle = Some("a payload does not inflate (library called directly) to its message".into());
            }
        } else if fr.iter().zip(mbytes.iter()).any(|(f, m)| &f.1 != m) {
            oracle = Some("an identity payload differs from its message".into());
        }
    }
    if oracle.is_none() {
        match alt_frames {
            Ok(af) => {
                if data_of(&af) != wire {
                    oracle = Some("the concatenated encoder bytes depend on the source schedule / buffer settings".into());
                }
            }
            Err(p) => oracle = Some(format!("encoder panicked on the second schedule: {}", p)),
        }
    }
    // ---- model expression
    let mut tbl: Vec<(String, String)> = vec![];
    if let Some(e) = c.eff() {
        let mut seen: Vec<&Vec<u8>> = vec![];
        for (m, b) in msgs.iter().zip(mbytes.iter()) {
            if seen.contains(&b) || b.first() == Some(&0xFE) {
                continue;
            }
            seen.push(b);
            let z = wc.payload(Some(e), b);
            let zs = if z.len() > 2048 { format!("(surrogate {} {})", z.len(), tbl.len() + 1) } else { coq_bytes(&z) };
            tbl.push((m.coq(), zs));
        }
    }
    let fuel = fuel_script(transport(c, &frames).len());
    let model = format!(
        "obs_roundtrip {} {} {} {} {} {} {} {} {} {} {} {}",
        coq_list(&tbl, |(u, z)| format!("({},{})", u, z)),
        coq_opt(&c.comp, |e| e.num().to_string()),
        coq_bool(c.override_disable),
        coq_opt(&c.max, |m| m.to_string()),
        c.bs.0,
        c.bs.1,
        coq_bool(c.server),
        coq_opt(&c.dmax, |m| m.to_string()),
        coq_list(&c.src, |o| coq_opt(o, |m| m.coq())),
        coq_list(&c.cuts, |n| n.to_string()),
        coq_list(&c.pend, |n| n.to_string()),
        fuel
    );
    let obs = Tr::L(vec![
        Tr::L(frames.iter().map(frame_tr).collect()),
        Tr::L(trace.iter().map(r_tr2).collect()),
        Tr::bool(drained),
        Tr::n(polled_after_end as u64),
    ]);
    // ---- distribution
    let fam = kind.split('.').next().unwrap_or("c01");
    out.hist(&format!("{}.codec", fam), if c.prost { "prost" } else { "raw" });
    out.hist(&format!("{}.role", fam), if c.server { "server->client" } else { "client->server" });
    out.hist(&format!("{}.encoding", fam), c.comp.map(|e| e.name()).unwrap_or("identity"));
    out.hist(&format!("{}.override", fam), c.override_disable);
    out.hist(&format!("{}.buffer_settings", fam), format!("{}/{}", c.bs.0, c.bs.1));
    out.hist(&format!("{}.messages", fam), bucket(msgs.len()));
    out.hist(&format!("{}.wire_bytes", fam), bucket(wire.len()));
    out.hist(&format!("{}.chunks", fam), bucket(cut_chunks(&c.cuts, &wire).len()));
    out.hist(&format!("{}.pending_events", fam), bucket(c.pend.iter().sum::<usize>() + c.src.iter().filter(|o| o.is_none()).count()));
    out.hist(&format!("{}.largest_message", fam), bucket(mbytes.iter().map(|m| m.len()).max().unwrap_or(0)));
    out.hist(&format!("{}.outcome", fam), match (stop_enc, stop_dec) {
        (None, None) => "all delivered".to_string(),
        (Some(i), _) if stop == Some(i) => format!("sender refuses message #{}", i.min(5)),
        _ => format!("receiver refuses message #{}", stop.unwrap().min(5)),
    });
    if fam == "c06" {
        out.hist("c06.enc_limit", c.max.map(|l| l.to_string()).unwrap_or("default".into()));
        out.hist("c06.dec_limit", c.dmax.map(|l| l.to_string()).unwrap_or("default".into()));
    }
    // a cut strictly inside a frame
    let mut inside = false;
    {
        let bounds: Vec<usize> = split_frames(&wire).iter().scan(0usize, |a, f| { *a += 5 + f.1.len(); Some(*a) }).collect();
        let mut pos = 0usize;
        for n in &c.cuts {
            pos += n;
            if pos > 0 && pos < wire.len() && !bounds.contains(&pos) {
                inside = true;
            }
        }
    }
    let nontrivial = (msgs.len() >= 2 && inside) || (fam == "c06" && stop.is_some() && stop != Some(0));
    out.push(vcommon::Case { kind: kind.to_string(), input: c.json(), model, impl_obs: obs, oracle, nontrivial });
}
fn short(t: &[&R<Vec<u8>>]) -> Vec<String> {
    t.iter()
        .take(4)
        .map(|r| match r {
            R::Pending => "Pending".to_string(),
            R::Ok(m) => format!("Ok({} bytes)", m.len()),
            R::Err(c) => format!("Err({})", c),
            R::Done => "None".to_string(),
        })
        .collect()
}
fn push_panic(out: &mut Out, kind: &str, c: &Case, why: &str) {
    out.push(vcommon::Case {
        kind: kind.to_string(),
        input: c.json(),
        model: "Nd [Nn 0]".into(),
        impl_obs: Tr::L(vec![Tr::n(99u8)]),
        oracle: Some(why.to_string()),
        nontrivial: true,
    });
}

// ------------------------------------------------------------------ C06, receiving side: declared lengths
#[derive(Clone, Debug)]
struct DecCase {
    request: bool,
    enc: Option<Enc>,
    flag: u8,
    max: Option<usize>,
    declared: u64,
    /// payload bytes that actually follow the prefix
    present: usize,
    cuts: Vec<usize>,
    pend: Vec<usize>,
}
impl DecCase {
    fn json(&self) -> Value {
        json!({"request": self.request, "enc": self.enc.map(|e| e.name()), "flag": self.flag, "max": self.max,
               "declared": self.declared, "present": self.present, "cuts": self.cuts, "pend": self.pend})
    }
    fn from_json(v: &Value) -> DecCase {
        let us = |x: &Value| x.as_array().unwrap().iter().map(|y| y.as_u64().unwrap() as usize).collect::<Vec<_>>();
        DecCase {
            request: v["request"].as_bool().unwrap(),
            enc: v["enc"].as_str().and_then(Enc::from_name),
            flag: v["flag"].as_u64().unwrap() as u8,
            max: v["max"].as_u64().map(|x| x as usize),
            declared: v["declared"].as_u64().unwrap(),
            present: v["present"].as_u64().unwrap() as usize,
            cuts: us(&v["cuts"]),
            pend: us(&v["pend"]),
        }
    }
}
fn run_declared(out: &mut Out, kind: &str, c: &DecCase) {
    let mut bytes = vec![c.flag];
    bytes.extend_from_slice(&(c.declared as u32).to_be_bytes());
    bytes.extend(std::iter::repeat(7u8).take(c.present));
    // a large payload travels in chunks of its own (they print as `rep n 7`)
    let forced: Vec<usize> = if c.present >= 64 { vec![5] } else { vec![] };
    let chunks = if c.present >= 64 { cut_chunks(&forced, &bytes) } else { cut_chunks(&c.cuts, &bytes) };
    let mut evs: Vec<Ev<Status>> = vec![];
    let mut coq_evs: Vec<String> = vec![];
    // the Pending events in front of the chunk that completes the prefix cost one poll each
    let mut have = 0usize;
    let mut pend_before_prefix = 0usize;
    let mut prefix_done = false;
    for (i, ch) in chunks.iter().enumerate() {
        let p = c.pend.get(i).copied().unwrap_or(0);
        for _ in 0..p {
            evs.push(Ev::Pending);
            coq_evs.push("BPending".into());
        }
        if !prefix_done {
            pend_before_prefix += p;
        }
        have += ch.len();
        if have >= 5 {
            prefix_done = true;
        }
        evs.push(Ev::Data(ch.clone()));
        coq_evs.push(format!("(BData {})", coq_bytes(ch)));
    }
    let n_events = evs.len();
    let fuel = n_events + 4;
    let extra = 2usize;
    vcommon::body::set_eager_eos(EOS_FLIP.fetch_add(1, Ordering::SeqCst) % 2 == 1);
    let (body, pae) = ScriptBody::new(evs);
    let enc = c.enc.map(|e| e.tonic());
    let max = c.max;
    let request = c.request;
    MAX_ALLOC.store(0, Ordering::SeqCst);
    let res = catch(std::panic::AssertUnwindSafe(move || {
        let dec = RawDec(BufferSettings::default());
        let mut s: Streaming<Vec<u8>> = if request { Streaming::new_request(dec, body, enc, max) } else { Streaming::new_response(dec, body, http::StatusCode::OK, enc, max) };
        let w = noop_waker();
        let mut cx = Context::from_waker(&w);
        let mut poll = |s: &mut Streaming<Vec<u8>>| match Pin::new(s).poll_next(&mut cx) {
            Poll::Pending => R::Pending,
            Poll::Ready(None) => R::Done,
            Poll::Ready(Some(Ok(m))) => R::Ok(m),
            Poll::Ready(Some(Err(st))) => R::Err(st.code() as i32),
        };
        let mut t1 = vec![];
        let mut done = false;
        for _ in 0..fuel {
            let r = poll(&mut s);
            let d = matches!(r, R::Done);
            t1.push(r);
            if d {
                done = true;
                break;
            }
        }
        let pae1 = pae.load(Ordering::SeqCst);
        let mut t2 = vec![];
        if done {
            for _ in 0..extra {
                t2.push(poll(&mut s));
            }
        }
        (t1, pae1, t2, pae.load(Ordering::SeqCst), done)
    }));
    let max_alloc = MAX_ALLOC.load(Ordering::SeqCst);
    let limit = c.max.unwrap_or(DEFAULT_DEC_LIMIT) as u64;
    let (obs, oracle) = match res {
        Err(p) => (Tr::L(vec![Tr::n(99u8)]), Some(format!("panic: {}", p))),
        Ok((t1, pae1, t2, pae2, done)) => {
            let obs = if done {
                Tr::L(vec![Tr::L(t1.iter().map(r_tr2).collect()), Tr::n(pae1 as u64), Tr::L(t2.iter().map(r_tr2).collect()), Tr::n(pae2 as u64), Tr::bool(max_alloc >= 65536)])
            } else {
                let mut v: Vec<Tr> = t1.iter().map(r_tr2).collect();
                v.push(Tr::L(vec![Tr::n(5u8)]));
                Tr::L(vec![Tr::L(v)])
            };
            let vis: Vec<&R<Vec<u8>>> = t1.iter().filter(|r| !matches!(r, R::Pending)).collect();
            let legal_flag = c.flag == 0 || (c.flag == 1 && c.enc.is_some());
            let mut o = None;
            if !done {
                o = Some("the stream did not end".to_string());
            } else if legal_flag && c.declared > limit {
                // refused by the poll that completes the prefix, nothing reserved
                let want: Vec<R<Vec<u8>>> = std::iter::repeat(R::Pending).take(pend_before_prefix).chain([R::Err(11), R::Done]).collect();
                if t1 != want {
                    o = Some(format!("declared {} > limit {}: polls {:?}, expected {} Pending, Err(OUT_OF_RANGE), None", c.declared, limit, short(&t1.iter().collect::<Vec<_>>()), pend_before_prefix));
                } else if c.declared >= 65536 && max_alloc as u64 >= 65536 {
                    o = Some(format!("an allocation of {} bytes was made for a refused length of {}", max_alloc, c.declared));
                }
            } else if legal_flag {
                // accepted: delivered iff the payload is complete, a truncated one is an error, never OUT_OF_RANGE
                if c.present as u64 >= c.declared && c.flag == 0 {
                    if !(vis.len() == 2 && matches!(vis[0], R::Ok(m) if m.len() as u64 == c.declared && m.iter().all(|b| *b == 7)) && matches!(vis[1], R::Done)) {
                        o = Some(format!("declared {} <= limit {} with a complete payload: {:?}", c.declared, limit, short(&vis)));
                    }
                } else if (c.present as u64) < c.declared && !(vis.len() == 2 && matches!(vis[0], R::Err(13)) && matches!(vis[1], R::Done)) {
                    o = Some(format!("declared {} <= limit {} with a truncated payload: {:?}, expected Err(INTERNAL), None", c.declared, limit, short(&vis)));
                }
            }
            (obs, o)
        }
    };
    let model = format!(
        "obs_declared {} {} {} {} {} {}",
        if c.request { "Request".to_string() } else { "(Response 200)".to_string() },
        coq_opt(&c.enc, |e| e.num().to_string()),
        coq_opt(&c.max, |m| m.to_string()),
        format!("[{}]", coq_evs.join(";")),
        fuel,
        extra
    );
    out.hist("c06.declared.limit", c.max.map(|l| l.to_string()).unwrap_or("default(4MiB)".into()));
    out.hist("c06.declared.length_vs_limit", if c.declared > limit { if c.declared == limit + 1 { "L+1" } else if c.declared == u32::MAX as u64 { "2^32-1" } else { ">L" } } else if c.declared == limit { "L" } else if c.declared + 1 == limit { "L-1" } else { "<L" });
    out.hist("c06.declared.payload_present", if c.present == 0 { "none" } else if (c.present as u64) < c.declared { "partial" } else { "complete" });
    out.hist("c06.declared.direction", if c.request { "request" } else { "response" });
    out.hist("c06.declared.max_alloc", bucket(max_alloc));
    out.push(vcommon::Case { kind: kind.to_string(), input: c.json(), model, impl_obs: obs, oracle, nontrivial: c.declared > limit || c.present > 0 });
}

// ------------------------------------------------------------------ C06, sending side: a payload above 2^32-1 bytes
/// an Encoder that "writes" 2^32+1 bytes for the message b"HUGE": it reserves the space and
/// advances the write cursor without touching the pages, so that only address space is used
struct HugeEnc;
const HUGE_LEN: usize = (1usize << 32) + 1;
impl Encoder for HugeEnc {
    type Item = Vec<u8>;
    type Error = Status;
    fn encode(&mut self, item: Vec<u8>, dst: &mut EncodeBuf<'_>) -> Result<(), Status> {
        if item == b"HUGE" {
            dst.reserve(HUGE_LEN);
            if dst.remaining_mut() < HUGE_LEN {
                return Err(Status::unavailable("could not reserve 4 GiB of address space"));
            }
            unsafe { dst.advance_mut(HUGE_LEN) };
        } else {
            dst.put_slice(&item);
        }
        Ok(())
    }
    fn buffer_settings(&self) -> BufferSettings {
        BufferSettings::default()
    }
}
/// [prefix messages ..., HUGE, after]: RESOURCE_EXHAUSTED instead of the huge message, every
/// earlier message delivered ahead of it, nothing after it
fn can_reserve_huge() -> bool {
    // probe first: a refused reservation inside BytesMut aborts the process
    unsafe {
        let l = std::alloc::Layout::from_size_align(HUGE_LEN + (1 << 20), 8).unwrap();
        let p = std::alloc::GlobalAlloc::alloc(&std::alloc::System, l);
        if p.is_null() {
            return false;
        }
        std::alloc::GlobalAlloc::dealloc(&std::alloc::System, p, l);
        true
    }
}
fn run_4gb(out: &mut Out, server: bool, prefix: &[Vec<u8>], pending_before_huge: bool, cuts: &[usize], pend: &[usize]) {
    if !can_reserve_huge() {
        out.hist("c06.4gb.skipped", "4 GiB of address space cannot be reserved here");
        return;
    }
    let c = Case { prost: false, comp: None, override_disable: false, max: None, bs: (8192, 32768), server, dmax: None, src: vec![], cuts: cuts.to_vec(), pend: pend.to_vec() };
    let mut src: Vec<Option<Vec<u8>>> = prefix.iter().cloned().map(Some).collect();
    if pending_before_huge {
        src.push(None);
    }
    let coq_src: Vec<Option<Msg>> = src.iter().map(|o| o.clone().map(Msg::Lit)).collect();
    src.push(Some(b"HUGE".to_vec()));
    src.push(Some(vec![1, 2, 3]));
    let input = json!({"server": server, "prefix": prefix.iter().map(|m| hex(m)).collect::<Vec<_>>(), "pending_before_huge": pending_before_huge, "cuts": cuts, "pend": pend});
    let enc_res = encode_with(HugeEnc, src, &c, None);
    let (frames, ended) = match enc_res {
        Ok(x) => x,
        Err(p) => {
            out.push(vcommon::Case { kind: "c06.4gb".into(), input, model: "Nd [Nn 0]".into(), impl_obs: Tr::L(vec![Tr::n(99u8)]), oracle: Some(format!("encoder panicked (or the 4 GiB reservation was refused): {}", p)), nontrivial: true });
            return;
        }
    };
    let script = transport(&c, &frames);
    let fuel = script.len() + prefix.len() + 3;
    let (trace, drained, _) = match decode_with(RawDec(BufferSettings::default()), script, &c, fuel) {
        Ok(x) => x,
        Err(p) => return push_panic(out, "c06.4gb", &c, &format!("decoder panicked: {}", p)),
    };
    let vis: Vec<&R<Vec<u8>>> = trace.iter().filter(|r| !matches!(r, R::Pending)).collect();
    let mut oracle = None;
    if !ended || !drained {
        oracle = Some("the body / the stream did not end".to_string());
    } else if vis.len() != prefix.len() + 2 || vis.iter().zip(prefix.iter()).any(|(r, m)| !matches!(r, R::Ok(x) if x == m)) {
        oracle = Some(format!("expected the {} earlier messages, one error, the end; got {:?}", prefix.len(), short(&vis)));
    } else if !matches!(vis[prefix.len()], R::Err(8)) {
        oracle = Some(format!("a {} byte payload ended the call with {:?}, expected Err(RESOURCE_EXHAUSTED)", HUGE_LEN, short(&vis[prefix.len()..])));
    } else if frames.iter().any(|f| matches!(f, Fr::Data(d) if d.len() > 1 << 20)) {
        oracle = Some("a huge DATA frame was emitted".into());
    }
    let model = format!(
        "obs_4gb {} {} {} {} {} {}",
        coq_bool(server),
        coq_list(&coq_src, |o| coq_opt(o, |m| m.coq())),
        HUGE_LEN,
        coq_list(cuts, |n| n.to_string()),
        coq_list(pend, |n| n.to_string()),
        fuel
    );
    let obs = Tr::L(vec![Tr::L(frames.iter().map(frame_tr).collect()), Tr::L(trace.iter().map(r_tr2).collect()), Tr::bool(drained)]);
    out.hist("c06.4gb.role", if server { "server" } else { "client" });
    out.hist("c06.4gb.earlier_messages", prefix.len());
    out.push(vcommon::Case { kind: "c06.4gb".into(), input, model, impl_obs: obs, oracle, nontrivial: true });
}

// ------------------------------------------------------------------ generators
const BUFFER_SETTINGS: [(usize, usize); 8] = [(0, 0), (0, 1), (0, 32768), (1, 0), (2, 1), (5, 64), (8192, 32768), (8192, 32768)];
fn lengths_from_positions(pos: &[usize]) -> Vec<usize> {
    let mut p = pos.to_vec();
    p.sort();
    let mut out = vec![];
    let mut last = 0;
    for x in p {
        out.push(x - last);
        last = x;
    }
    out
}
fn small_msg(r: &mut Rng, sizes: &[usize]) -> Msg {
    let n = *r.pick(sizes);
    let mut b = r.bytes(n);
    if let Some(f) = b.first_mut() {
        if *f >= 0xFE {
            *f = 0x41;
        }
    }
    if n >= 64 && r.chance(1, 2) {
        Msg::Rep(n, r.below(250) as u8)
    } else {
        Msg::Lit(b)
    }
}
fn gen_src(r: &mut Rng, msgs: Vec<Msg>) -> Vec<Option<Msg>> {
    let mode = r.below(4);
    let mut out = vec![];
    for m in msgs {
        let p = match mode {
            0 => 0,
            1 => 1,
            _ => r.below(3) as usize % 2 * (r.below(2) as usize + 1),
        };
        for _ in 0..p {
            out.push(None);
        }
        out.push(Some(m));
    }
    if mode >= 2 && r.chance(1, 2) {
        out.push(None);
    }
    out
}
fn gen_pend(r: &mut Rng, n: usize) -> Vec<usize> {
    match r.below(4) {
        0 => vec![],
        1 => vec![1; n + 1],
        2 => (0..n + 1).map(|_| r.below(3) as usize).collect(),
        _ => {
            let mut v = vec![0; n + 1];
            v[n] = 2;
            v
        }
    }
}
/// the total number of DATA bytes a valid stream will have (identity) - for the cut generators
fn wire_len(wc: &mut WireCache, e: Option<Enc>, msgs: &[Msg]) -> Vec<usize> {
    msgs.iter().map(|m| 5 + wc.payload(e, &m.bytes()).len()).collect()
}
fn random_cuts(r: &mut Rng, frame_lens: &[usize]) -> Vec<usize> {
    let total: usize = frame_lens.iter().sum();
    if total == 0 {
        return if r.chance(1, 3) { vec![0] } else { vec![] };
    }
    let mut pos: Vec<usize> = vec![];
    match r.below(5) {
        0 => {}
        1 => {
            // every position inside every prefix: each header byte arrives alone
            let mut at = 0;
            for l in frame_lens {
                for k in 1..=5 {
                    pos.push(at + k);
                }
                at += l;
            }
        }
        2 => {
            // one frame's prefix shredded, a few random cuts elsewhere
            let f = r.below(frame_lens.len() as u64) as usize;
            let at: usize = frame_lens[..f].iter().sum();
            for k in 1..5 {
                pos.push(at + k);
            }
            for _ in 0..r.below(4) {
                pos.push(r.range(1, total as u64) as usize);
            }
        }
        3 => {
            // fixed-size chunks (h2 frame sizes in miniature)
            let sz = *r.pick(&[1usize, 2, 3, 7, 16, 1000, 16384]);
            let sz = if total / sz > 400 { total / 400 + 1 } else { sz };
            let mut p = sz;
            while p < total {
                pos.push(p);
                p += sz;
            }
        }
        _ => {
            for _ in 0..r.range(1, 8) {
                pos.push(r.range(1, total as u64) as usize);
            }
        }
    }
    pos.sort();
    pos.dedup();
    let mut cuts = lengths_from_positions(&pos);
    // now and then an empty DATA frame
    if r.chance(1, 6) {
        let i = r.below(cuts.len() as u64 + 1) as usize;
        cuts.insert(i, 0);
    }
    cuts
}

fn gen_c01(r: &mut Rng, wc: &mut WireCache, thorough: bool) -> Case {
    let comp = if r.chance(2, 5) { None } else { Some(*r.pick(&ENCS)) };
    let server = r.chance(3, 5);
    let bs = *r.pick(&BUFFER_SETTINGS);
    let n = *r.pick(&[0usize, 1, 2, 2, 3, 3, 4, 6, 10, if thorough { 40 } else { 12 }]);
    let around: Vec<usize> = vec![0, 1, 4, 5, 6, 7, bs.1.saturating_sub(6).min(300), bs.1.saturating_sub(5).min(300), bs.1.min(300) + 1, bs.0.saturating_sub(1).min(300), bs.0.min(300), bs.0.min(300) + 1, 63, 64, 200];
    let msgs: Vec<Msg> = (0..n).map(|_| small_msg(r, &around)).collect();
    let override_disable = server && comp.is_some() && r.chance(1, 4);
    let mut c = Case { prost: false, comp, override_disable, max: None, bs, server, dmax: None, src: vec![], cuts: vec![], pend: vec![] };
    let lens = wire_len(wc, c.eff(), &msgs);
    c.cuts = random_cuts(r, &lens);
    c.pend = gen_pend(r, c.cuts.len() + 1);
    c.src = gen_src(r, msgs);
    c
}
fn gen_c01_prost(r: &mut Rng, wc: &mut WireCache) -> Case {
    let comp = if r.chance(1, 2) { None } else { Some(*r.pick(&ENCS)) };
    let server = r.chance(1, 2);
    let bs = *r.pick(&BUFFER_SETTINGS);
    let n = r.below(5) as usize;
    let msgs: Vec<Msg> = (0..n).map(|_| { let big = r.chance(1, 6); Msg::Lit(prost::Message::encode_to_vec(&gen_testmsg(r, big))) }).collect();
    let mut c = Case { prost: true, comp, override_disable: server && comp.is_some() && r.chance(1, 5), max: None, bs, server, dmax: None, src: vec![], cuts: vec![], pend: vec![] };
    let lens = wire_len(wc, c.eff(), &msgs);
    c.cuts = random_cuts(r, &lens);
    c.pend = gen_pend(r, c.cuts.len() + 1);
    c.src = gen_src(r, msgs);
    c
}
/// large payloads: > 32 KiB (gzip / deflate window), > 128 KiB (zstd block), compressible and not
fn gen_c01_big(r: &mut Rng, wc: &mut WireCache, i: usize) -> Case {
    let comp = [Some(Enc::Gzip), Some(Enc::Deflate), Some(Enc::Zstd), None][i % 4];
    let size = match comp {
        Some(Enc::Zstd) => *r.pick(&[131073usize, 140000, 200000]),
        _ => *r.pick(&[32769usize, 33000, 40000, 70000]),
    };
    let big = if (i / 4) % 2 == 0 { lcg_msg(size, r.below(1 << 30) as u32 + 1) } else { Msg::Rep(size, r.below(200) as u8) };
    let server = r.chance(1, 2);
    let mut msgs = vec![small_msg(r, &[0, 1, 5, 9]), big, small_msg(r, &[0, 3, 70])];
    if r.chance(1, 3) {
        msgs.remove(0);
    }
    let bs = *r.pick(&[(8192usize, 32768usize), (8192, 32768), (0, 0), (5, 64)]);
    let mut c = Case { prost: false, comp, override_disable: false, max: None, bs, server, dmax: None, src: vec![], cuts: vec![], pend: vec![] };
    let lens = wire_len(wc, c.eff(), &msgs);
    let total: usize = lens.iter().sum();
    // few chunks (model evaluation appends the buffer per chunk): h2-like 16 KiB frames, or cuts around the big frame's prefix
    c.cuts = if r.chance(1, 2) {
        let mut pos = vec![];
        let mut p = 16384;
        while p < total {
            pos.push(p);
            p += 16384;
        }
        lengths_from_positions(&pos)
    } else {
        let at = if msgs.len() == 3 { lens[0] } else { 0 };
        let mut pos: Vec<usize> = (1..=5).map(|k| at + k).collect();
        pos.push(at + 5 + (lens[if msgs.len() == 3 { 1 } else { 0 }] - 5) / 2);
        pos.retain(|p| *p < total);
        lengths_from_positions(&pos)
    };
    c.pend = gen_pend(r, c.cuts.len() + 1);
    c.src = gen_src(r, msgs);
    c
}

/// exhaustive cuts of one small stream
fn small_stream_cases(out: &mut Out, wc: &mut WireCache, thorough: bool) {
    let base = |comp: Option<Enc>, server: bool, msgs: Vec<Msg>| Case {
        prost: false, comp, override_disable: false, max: None, bs: (8192, 32768), server, dmax: None,
        src: msgs.into_iter().map(Some).collect(), cuts: vec![], pend: vec![],
    };
    // three messages, 18 bytes on the wire: every single cut, every pair of cuts
    let m3 = vec![Msg::Lit(vec![7]), Msg::Lit(vec![]), Msg::Lit(vec![8, 9])];
    for server in [true, false] {
        let c0 = base(None, server, m3.clone());
        let total = 18usize;
        for a in 1..total {
            let mut c = c0.clone();
            c.cuts = vec![a];
            run_case(out, wc, "c01.cut1", &c);
            if server || thorough {
                for b in a + 1..total {
                    let mut c = c0.clone();
                    c.cuts = vec![a, b - a];
                    c.pend = if (a + b) % 3 == 0 { vec![1, 0, 1] } else { vec![] };
                    run_case(out, wc, "c01.cut2", &c);
                }
            }
        }
    }
    // a compressed two-message stream: every single cut
    for e in ENCS {
        let msgs = vec![Msg::Lit(vec![1, 2, 3]), Msg::Lit(vec![])];
        let c0 = base(Some(e), true, msgs.clone());
        let total: usize = wire_len(wc, Some(e), &msgs).iter().sum();
        for a in 1..total {
            let mut c = c0.clone();
            c.cuts = vec![a];
            run_case(out, wc, "c01.cut1z", &c);
        }
    }
    // all 2^(n-1) chunkings of a body of n <= 12 bytes (two messages: 5+1 and 5+0 = 11 bytes; 12 = 5+2, 5+0)
    if thorough {
        for (msgs, total) in [(vec![Msg::Lit(vec![5]), Msg::Lit(vec![])], 11usize), (vec![Msg::Lit(vec![5, 6]), Msg::Lit(vec![])], 12usize)] {
            let c0 = base(None, true, msgs);
            for mask in 0u32..(1 << (total - 1)) {
                let pos: Vec<usize> = (1..total).filter(|p| mask & (1 << (p - 1)) != 0).collect();
                let mut c = c0.clone();
                c.cuts = lengths_from_positions(&pos);
                run_case(out, wc, "c01.allcuts", &c);
            }
        }
    } else {
        // quick tier: all chunkings of a 7-byte body (5+2)
        let c0 = base(None, true, vec![Msg::Lit(vec![5, 6])]);
        for mask in 0u32..(1 << 6) {
            let pos: Vec<usize> = (1..7).filter(|p| mask & (1 << (p - 1)) != 0).collect();
            let mut c = c0.clone();
            c.cuts = lengths_from_positions(&pos);
            run_case(out, wc, "c01.allcuts", &c);
        }
    }
}

// ---- C06
fn c06_enc_cases(out: &mut Out, wc: &mut WireCache, r: &mut Rng, thorough: bool) {
    // limits x lengths around them x position of the oversized message x roles, identity
    for &l in &[0usize, 1, 5, 100, 1024] {
        let lens: Vec<usize> = if l == 0 { vec![0, 1] } else { vec![l - 1, l, l + 1] };
        for &len in &lens {
            for pos in 0..5usize {
                for server in [true, false] {
                    if !thorough && pos >= 3 && !server {
                        continue;
                    }
                    let mut msgs: Vec<Msg> = (0..pos).map(|i| Msg::Lit(vec![b'a' + i as u8; (i % (l + 1)).min(3)])).collect();
                    msgs.push(if len >= 64 { Msg::Rep(len, 9) } else { Msg::Lit(vec![9; len]) });
                    msgs.push(Msg::Lit(vec![]));
                    let mut c = Case { prost: false, comp: None, override_disable: false, max: Some(l), bs: *r.pick(&BUFFER_SETTINGS), server, dmax: None, src: vec![], cuts: vec![], pend: vec![] };
                    let fl = wire_len(wc, None, &msgs[..pos]);
                    c.cuts = random_cuts(r, &fl);
                    c.pend = gen_pend(r, c.cuts.len() + 1);
                    // all ready together (the finding F-C06a) or with Pending in between
                    c.src = if r.chance(1, 2) { msgs.into_iter().map(Some).collect() } else { gen_src(r, msgs) };
                    run_case(out, wc, "c06.enc", &c);
                }
            }
        }
    }
    // compressed and uncompressed length straddle the limit in both directions
    for e in ENCS {
        for server in [true, false] {
            for pos in [0usize, 2] {
                // 16 KiB of zeros: uncompressed far above 1024, on the wire far below: accepted
                // 1024 poorly compressible bytes: uncompressed = 1024, on the wire above: refused
                for (big, _accepted) in [(Msg::Rep(16384, 0), true), (lcg_msg(1024, 77 + pos as u32), false)] {
                    let mut msgs: Vec<Msg> = (0..pos).map(|i| Msg::Lit(vec![b'k' + i as u8; 3])).collect();
                    msgs.push(big.clone());
                    msgs.push(Msg::Lit(vec![1]));
                    let mut c = Case { prost: false, comp: Some(e), override_disable: false, max: Some(1024), bs: (8192, 32768), server, dmax: None, src: vec![], cuts: vec![], pend: vec![] };
                    let fl = wire_len(wc, Some(e), &msgs[..pos]);
                    c.cuts = random_cuts(r, &fl);
                    c.src = gen_src(r, msgs.clone());
                    run_case(out, wc, "c06.enc_z", &c);
                    // the same with the per-response override: the identity length decides
                    if server {
                        let mut c2 = c.clone();
                        c2.override_disable = true;
                        c2.cuts = vec![];
                        run_case(out, wc, "c06.enc_z_override", &c2);
                    }
                }
                // exactly at the on-the-wire length: L = z-1, z, z+1
                let m = Msg::Rep(300, 5);
                let z = wc.payload(Some(e), &m.bytes()).len();
                for l in [z - 1, z, z + 1] {
                    let mut msgs: Vec<Msg> = (0..pos).map(|i| Msg::Lit(vec![b'k' + i as u8; 2])).collect();
                    msgs.push(m.clone());
                    msgs.push(Msg::Lit(vec![1]));
                    let c = Case { prost: false, comp: Some(e), override_disable: false, max: Some(l), bs: (8192, 32768), server, dmax: None, src: msgs.into_iter().map(Some).collect(), cuts: vec![3], pend: vec![] };
                    run_case(out, wc, "c06.enc_z", &c);
                }
            }
        }
    }
    // the receiving limit in a round trip: everything is sent, the receiver refuses message #pos
    for &l in &[0usize, 1, 5, 100, 1024] {
        let lens: Vec<usize> = if l == 0 { vec![0, 1] } else { vec![l - 1, l, l + 1] };
        for &len in &lens {
            for pos in [0usize, 1, 3] {
                let server = r.chance(1, 2);
                let mut msgs: Vec<Msg> = (0..pos).map(|i| Msg::Lit(vec![b'a' + i as u8; (i % (l + 1)).min(3)])).collect();
                msgs.push(if len >= 64 { Msg::Rep(len, 9) } else { Msg::Lit(vec![9; len]) });
                msgs.push(Msg::Lit(vec![]));
                let mut c = Case { prost: false, comp: None, override_disable: false, max: None, bs: (8192, 32768), server, dmax: Some(l), src: vec![], cuts: vec![], pend: vec![] };
                let fl = wire_len(wc, None, &msgs);
                c.cuts = random_cuts(r, &fl);
                c.pend = gen_pend(r, c.cuts.len() + 1);
                c.src = gen_src(r, msgs);
                run_case(out, wc, "c06.dec_rt", &c);
            }
        }
    }
    for e in ENCS {
        // receiver: 16 KiB of zeros compressed passes a 1024 limit, 1024 random bytes do not
        for (big, _acc) in [(Msg::Rep(16384, 0), true), (lcg_msg(1024, 5), false)] {
            let msgs = vec![Msg::Lit(vec![1, 2]), big, Msg::Lit(vec![3])];
            let mut c = Case { prost: false, comp: Some(e), override_disable: false, max: None, bs: (8192, 32768), server: r.chance(1, 2), dmax: Some(1024), src: vec![], cuts: vec![], pend: vec![] };
            let fl = wire_len(wc, Some(e), &msgs);
            c.cuts = random_cuts(r, &fl);
            c.src = gen_src(r, msgs);
            run_case(out, wc, "c06.dec_rt_z", &c);
        }
    }
}
/// limits that do not fit a u32: a limit stored in 32 bits wraps (2^32 -> 0, 2^32+16 -> 16, ...)
const BIG_LIMITS: [usize; 7] = [u32::MAX as usize, 1 << 32, (1 << 32) + 16, (1 << 33) + 5, 1 << 63, usize::MAX - 1, usize::MAX];
fn c06_big_limit_cases(out: &mut Out, wc: &mut WireCache, r: &mut Rng) {
    for &l in &BIG_LIMITS {
        // small messages around the values the limit would wrap to
        let msgs: Vec<Msg> = [0usize, 1, 5, 6, 16, 17, 100].iter().map(|n| if *n >= 64 { Msg::Rep(*n, 3) } else { Msg::Lit(vec![0x41; *n]) }).collect();
        for server in [true, false] {
            // the receiving limit
            let mut c = Case { prost: false, comp: None, override_disable: false, max: None, bs: (8192, 32768), server, dmax: Some(l), src: vec![], cuts: vec![], pend: vec![] };
            let fl = wire_len(wc, None, &msgs);
            c.cuts = random_cuts(r, &fl);
            c.src = gen_src(r, msgs.clone());
            run_case(out, wc, "c06.dec_rt_big_limit", &c);
            // the sending limit
            let mut c = Case { prost: false, comp: None, override_disable: false, max: Some(l), bs: (8192, 32768), server, dmax: None, src: vec![], cuts: vec![], pend: vec![] };
            c.cuts = random_cuts(r, &fl);
            c.src = gen_src(r, msgs.clone());
            run_case(out, wc, "c06.enc_big_limit", &c);
            // both, compressed
            let e = *r.pick(&ENCS);
            let mut c = Case { prost: false, comp: Some(e), override_disable: false, max: Some(l), bs: (8192, 32768), server, dmax: Some(l), src: vec![], cuts: vec![], pend: vec![] };
            c.src = gen_src(r, msgs.clone());
            run_case(out, wc, "c06.big_limit_z", &c);
        }
        // raw Streaming: declared small lengths with their complete payload under a big limit
        for d in [0u64, 1, 16, 17, 2048] {
            for request in [true, false] {
                let c = DecCase { request, enc: None, flag: 0, max: Some(l), declared: d, present: d as usize, cuts: vec![r.range(1, 4) as usize], pend: vec![r.below(2) as usize, 0] };
                run_declared(out, "c06.declared_big_limit", &c);
            }
        }
    }
}
fn c06_declared_cases(out: &mut Out, r: &mut Rng, thorough: bool, first_round: bool) {
    let limits: Vec<Option<usize>> = vec![Some(0), Some(1), Some(5), Some(100), Some(1024), None];
    for max in limits {
        let l = max.unwrap_or(DEFAULT_DEC_LIMIT) as u64;
        let mut declared: Vec<u64> = vec![l, l + 1, u32::MAX as u64, 1 << 31, (l + 1) * 3 % (1u64 << 32)];
        if l > 0 {
            declared.push(l - 1);
        }
        for d in declared {
            for request in [true, false] {
                // no payload at all; a few payload bytes; (for small accepted lengths) the complete payload
                let mut presents = vec![0usize, 3];
                if d <= 2048 {
                    presents.push(d as usize);
                }
                presents.retain(|p| d > l || (*p as u64) <= d);
                presents.dedup();
                for present in presents {
                    if d > l && present > 3 {
                        continue;
                    }
                    // prefix whole, or cut at a random position / every byte alone
                    let cut_modes: Vec<Vec<usize>> = if thorough { vec![vec![], vec![r.range(1, 4) as usize], vec![1, 1, 1, 1]] } else { vec![vec![], vec![r.range(1, 4) as usize]] };
                    for cuts in cut_modes {
                        let pend: Vec<usize> = (0..cuts.len() + 1).map(|_| r.below(2) as usize).collect();
                        let c = DecCase { request, enc: None, flag: 0, max, declared: d, present, cuts, pend };
                        run_declared(out, "c06.declared", &c);
                    }
                }
            }
        }
    }
    // complete payloads right at the default limit (4 MiB - 1, 4 MiB): accepted and delivered
    if !first_round {
    } else if thorough {
        for d in [DEFAULT_DEC_LIMIT as u64 - 1, DEFAULT_DEC_LIMIT as u64] {
            for request in [true, false] {
                let c = DecCase { request, enc: None, flag: 0, max: None, declared: d, present: d as usize, cuts: vec![], pend: vec![1, 0] };
                run_declared(out, "c06.declared", &c);
            }
        }
    } else {
        let c = DecCase { request: true, enc: None, flag: 0, max: None, declared: DEFAULT_DEC_LIMIT as u64, present: DEFAULT_DEC_LIMIT, cuts: vec![], pend: vec![] };
        run_declared(out, "c06.declared", &c);
    }
    // flag 1 under a negotiated encoding: the limit is checked before anything is inflated
    for e in ENCS {
        for (max, d) in [(Some(100usize), 101u64), (Some(100), 100), (None, u32::MAX as u64), (None, DEFAULT_DEC_LIMIT as u64 + 1)] {
            let c = DecCase { request: false, enc: Some(e), flag: 1, max, declared: d, present: 0, cuts: vec![2], pend: vec![1, 0] };
            run_declared(out, "c06.declared", &c);
        }
    }
}

fn corpus(out: &mut Out, wc: &mut WireCache) {
    let plain = Case { prost: false, comp: None, override_disable: false, max: None, bs: (8192, 32768), server: true, dmax: None, src: vec![], cuts: vec![], pend: vec![] };
    // F-C01a (fixed e8093870): BufferSettings::new(0, _) with any compression, both directions
    for e in ENCS {
        for thr in [0usize, 1, 32768] {
            for server in [true, false] {
                let c = Case { comp: Some(e), bs: (0, thr), server, src: vec![Some(Msg::Lit(vec![1, 2, 3])), Some(Msg::Lit(vec![])), None, Some(Msg::Rep(300, 5))], cuts: vec![2, 3, 1], pend: vec![0, 1], ..plain.clone() };
                run_case(out, wc, "corpus.F-C01a", &c);
            }
        }
    }
    // F-C06a (fixed 1841fde8): [small, oversize, after] all ready together, limit 50
    for server in [true, false] {
        let c = Case { max: Some(50), server, src: vec![Some(Msg::Lit(vec![1, 2, 3])), Some(Msg::Rep(100, 7)), Some(Msg::Lit(vec![9, 9]))], cuts: vec![4], ..plain.clone() };
        run_case(out, wc, "corpus.F-C06a", &c);
        let c = Case { max: Some(50), server, src: vec![Some(Msg::Rep(100, 7)), Some(Msg::Lit(vec![9, 9]))], ..plain.clone() };
        run_case(out, wc, "corpus.F-C06a", &c);
    }
    // edges: nothing at all, only Pending, one empty message, empty DATA frames
    for server in [true, false] {
        run_case(out, wc, "corpus.edge", &Case { server, ..plain.clone() });
        run_case(out, wc, "corpus.edge", &Case { server, src: vec![None, None], pend: vec![2], ..plain.clone() });
        run_case(out, wc, "corpus.edge", &Case { server, src: vec![Some(Msg::Lit(vec![]))], cuts: vec![0, 5, 0], ..plain.clone() });
        run_case(out, wc, "corpus.edge", &Case { server, src: vec![Some(Msg::Lit(vec![1])), Some(Msg::Lit(vec![2]))], cuts: vec![0, 0, 6, 0], pend: vec![1, 1, 1, 1, 1, 1], ..plain.clone() });
    }
}

fn replay(out: &mut Out, wc: &mut WireCache, file: &str) {
    let v: Value = serde_json::from_str(&std::fs::read_to_string(file).unwrap()).unwrap();
    let kind = v["kind"].as_str().unwrap_or("c01.random").to_string();
    // twice: over a scripted body with the default is_end_stream() and over an accurate one
    for _ in 0..2 {
        if kind == "c06.declared" {
            run_declared(out, &kind, &DecCase::from_json(&v["input"]));
        } else {
            run_case(out, wc, &kind, &Case::from_json(&v["input"]));
        }
    }
}

static EOS_FLIP: AtomicUsize = AtomicUsize::new(0);
fn main() {
    let a = args();
    let mut out = Out::new(&a.out);
    let mut wc = WireCache(HashMap::new());
    let mut r = Rng::new(a.seed);
    let c06_only = std::env::args().any(|x| x == "--c06");
    let c01_only = std::env::args().any(|x| x == "--c01");
    if let Some(f) = &a.replay {
        replay(&mut out, &mut wc, f);
    } else {
        if !c06_only {
            corpus(&mut out, &mut wc);
            small_stream_cases(&mut out, &mut wc, a.thorough);
            let (n_rand, n_prost, n_big) = if a.thorough { (9000, 2500, 64) } else { (1200, 400, 24) };
            for _ in 0..n_rand {
                let c = gen_c01(&mut r, &mut wc, a.thorough);
                run_case(&mut out, &mut wc, "c01.random", &c);
            }
            for _ in 0..n_prost {
                let c = gen_c01_prost(&mut r, &mut wc);
                run_case(&mut out, &mut wc, "c01.prost", &c);
            }
            for i in 0..n_big {
                let c = gen_c01_big(&mut r, &mut wc, i);
                run_case(&mut out, &mut wc, "c01.big", &c);
            }
        }
        if !c01_only {
            if c06_only {
                // the corpus witnesses of C06 run first
                let plain = Case { prost: false, comp: None, override_disable: false, max: Some(50), bs: (8192, 32768), server: true, dmax: None, src: vec![Some(Msg::Lit(vec![1, 2, 3])), Some(Msg::Rep(100, 7)), Some(Msg::Lit(vec![9, 9]))], cuts: vec![4], pend: vec![] };
                for server in [true, false] {
                    run_case(&mut out, &mut wc, "corpus.F-C06a", &Case { server, ..plain.clone() });
                }
            }
            // RESOURCE_EXHAUSTED beyond 4 GiB, for real (address space only)
            for server in [true, false] {
                run_4gb(&mut out, server, &[vec![7]], false, &[2], &[0, 1]);
                if a.thorough {
                    run_4gb(&mut out, server, &[], false, &[], &[]);
                    run_4gb(&mut out, server, &[vec![7], vec![], vec![8, 9]], true, &[2, 3, 1], &[1]);
                }
            }
            let rounds = if a.thorough { 16 } else { 2 };
            for round in 0..rounds {
                c06_enc_cases(&mut out, &mut wc, &mut r, a.thorough);
                c06_declared_cases(&mut out, &mut r, a.thorough, round == 0);
                if round < 2 {
                    c06_big_limit_cases(&mut out, &mut wc, &mut r);
                }
            }
        }
    }
    for (what, input) in PROBE_ANOMALIES.lock().unwrap().iter() {
        // one encoded message did not come back from the wire as itself: a direct failure of the
        // round trip, found by the harness's own wire-length probe
        out.push(vcommon::Case {
            kind: "probe.single_message".into(),
            input: serde_json::from_str(input).unwrap_or(json!({"input": input})),
            model: "Nd []".into(),
            impl_obs: Tr::L(vec![]),
            oracle: Some(format!("single-message probe: {}", what)),
            nontrivial: false,
        });
    }
    out.finish(
        IMPORTS,
        "c01.*: real EncodeBody (server/client role, raw codec or ProstCodec, identity/gzip/deflate/zstd, per-response override, BufferSettings incl. buffer_size 0) -> DATA bytes re-cut at the case's cut points (exhaustive single/double cuts of an 18-byte stream, all 2^(n-1) chunkings of small bodies, every position inside the 5-byte prefixes, h2-like fixed sizes, random; empty DATA frames) with scripted Pending -> real Streaming::new_response/new_request; message sizes 0,1,4,5,6, around yield_threshold and buffer_size, > 32 KiB and > 128 KiB compressible (rep) and incompressible (lcg). c06.*: sending limits L in {0,1,5,100,1024} x payloads L-1,L,L+1 x position 0..4 x roles, compressed/uncompressed lengths straddling L both ways, L at the exact on-the-wire length; receiving limits in a round trip; declared lengths L-1, L, L+1, 2^31, 2^32-1 with no / partial / complete payload (allocation meter). Non-trivial = >= 2 messages and a cut strictly inside a frame (c01), a refusal after >= 1 delivered message (c06), a refused or partially present declared length. Distinct = distinct (kind, model expression).",
        json!({"exhaustive": false}),
    );
}
